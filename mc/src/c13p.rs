//! C13, process level: the openers are real child processes (this binary re-executed), each
//! stopped before every system call it makes on the database file and released one at a time by
//! the parent, which enumerates the schedules exactly like the thread scheduler does.  `flock` is the
//! kernel's: a blocking request is made as a non-blocking attempt when the child is released; if the
//! kernel says "would block" the child is disabled until some other child has released a lock
//! (unlock, close or exit).  Nothing about lock ownership is modelled by the harness here, so this
//! binds the thread-level cases (where flock is a scheduler-owned lock) to the real semantics.


use crate::iosim::{self, IoSched, Kind};
use crate::real;
use crate::runner::Cfg;
use crate::sched::{ExecResult, PointRec};
use crate::schedx::Judgement;

// ---------------------------------------------------------------------------------------------
// child side

struct PipeSched;

static CHILD_OUT: std::sync::atomic::AtomicI32 = std::sync::atomic::AtomicI32::new(1);
static CHILD_IN: std::sync::atomic::AtomicI32 = std::sync::atomic::AtomicI32::new(0);

fn say(s: &str) {
    let line = format!("{}\n", s);
    let b = line.as_bytes();
    let mut off = 0;
    while off < b.len() {
        let r = unsafe { libc::syscall(libc::SYS_write, CHILD_OUT.load(std::sync::atomic::Ordering::Relaxed), b[off..].as_ptr(), b.len() - off) };
        if r <= 0 {
            // the parent is gone
            unsafe { libc::_exit(3) };
        }
        off += r as usize;
    }
}

/// blocks until the parent releases this process
fn wait_go() {
    let mut c = [0u8; 1];
    loop {
        let r = unsafe { libc::syscall(libc::SYS_read, CHILD_IN.load(std::sync::atomic::Ordering::Relaxed), c.as_mut_ptr(), 1) };
        if r == 1 {
            if c[0] == b'\n' {
                return;
            }
            continue;
        }
        unsafe { libc::_exit(3) };
    }
}

impl IoSched for PipeSched {
    fn io_point(&self, kind: Kind, fd: i32, _ino: u64, arg: i64) -> Option<i32> {
        match kind {
            Kind::Lseek | Kind::Stat => None,
            Kind::Flock => {
                let locking = arg & (libc::LOCK_EX as i64) != 0 || arg & (libc::LOCK_SH as i64) != 0;
                let nonblocking = arg & (libc::LOCK_NB as i64) != 0;
                if locking && !nonblocking {
                    say("P flock");
                    wait_go();
                    loop {
                        let r = unsafe { libc::syscall(libc::SYS_flock, fd, arg as i32 | libc::LOCK_NB) };
                        if r == 0 {
                            // held now; the blocking call that follows returns at once
                            return None;
                        }
                        let e = unsafe { *libc::__errno_location() };
                        if e != libc::EWOULDBLOCK {
                            return Some(e);
                        }
                        // disabled until somebody releases a lock; released again to retry
                        say("B");
                        wait_go();
                    }
                }
                say(if nonblocking { "P flock-nb" } else { "P flock-un" });
                wait_go();
                None
            }
            k => {
                say(&format!("P {}", k.name()));
                wait_go();
                None
            }
        }
    }
    fn io_done(&self, kind: Kind, _fd: i32, _ino: u64, arg: i64, _ok: bool) {
        match kind {
            Kind::Close | Kind::Munmap => say("I released"),
            Kind::Flock if arg & (libc::LOCK_UN as i64) != 0 => say("I released"),
            _ => {}
        }
    }
}

static PIPE_SCHED: PipeSched = PipeSched;

/// The body of one opener process (runs in a forked copy of the worker, never returns).
/// A commit that has to grow the file and map it again.
/// The growing commit while another thread of the same process has a read transaction open: the
/// reader ends as soon as it sees (raw `stat`, not a scheduling point) that the file has been
/// extended, i.e. while the commit is busy replacing the map.  Process openers only.
pub fn growth_commit_with_reader_thread(db: &jammdb::DB, path: &str) -> Result<(), String> {
    fn raw_len(path: &std::ffi::CStr) -> i64 {
        unsafe {
            let mut st: libc::stat = std::mem::zeroed();
            if libc::syscall(libc::SYS_stat, path.as_ptr(), &mut st as *mut libc::stat) == 0 {
                st.st_size as i64
            } else {
                -1
            }
        }
    }
    let cpath = std::ffi::CString::new(path).map_err(|e| e.to_string())?;
    let before = raw_len(&cpath);
    let d2 = db.clone();
    let (opened_tx, opened_rx) = std::sync::mpsc::channel::<Result<(), String>>();
    let cp2 = cpath.clone();
    let h = std::thread::spawn(move || {
        let tx = match d2.tx(false) {
            Ok(tx) => tx,
            Err(e) => {
                let _ = opened_tx.send(Err(format!("reader thread: tx(false): {:?}", e)));
                return;
            }
        };
        let _ = opened_tx.send(Ok(()));
        let t0 = std::time::Instant::now();
        while raw_len(&cp2) == before && t0.elapsed() < std::time::Duration::from_secs(20) {
            std::thread::sleep(std::time::Duration::from_millis(1));
        }
        std::thread::sleep(std::time::Duration::from_millis(5));
        drop(tx);
        drop(d2);
    });
    match opened_rx.recv() {
        Ok(Ok(())) => {}
        Ok(Err(e)) => return Err(e),
        Err(_) => return Err("reader thread ended before it had opened its transaction".into()),
    }
    let r = growth_commit(db);
    let _ = h.join();
    r
}

pub fn growth_commit(db: &jammdb::DB) -> Result<(), String> {
    let r = real::guarded(|| -> Result<(), String> {
        let tx = db.tx(true).map_err(|e| format!("tx(true): {:?}", e))?;
        let b = tx.get_or_create_bucket("junk").map_err(|e| format!("{:?}", e))?;
        b.put("big", vec![7u8; 200_000]).map_err(|e| format!("{:?}", e))?;
        drop(b);
        tx.commit().map_err(|e| format!("growing commit: {:?}", e))
    });
    match r {
        Ok(Ok(())) => Ok(()),
        Ok(Err(e)) => Err(e),
        Err(p) => Err(format!("panicked in the growing commit: {}", p.replace('\n', " "))),
    }
}

/// A commit whose first sync fails (it must report the error), then a commit that has to grow
/// the file and map it again (it must succeed).  Used by the thread and the process openers.
pub fn sync_fault_then_growth(db: &jammdb::DB) -> Result<(), String> {
    let r = real::guarded(|| -> Result<(), String> {
        let tx = db.tx(true).map_err(|e| format!("tx(true): {:?}", e))?;
        let b = tx.get_or_create_bucket("junk").map_err(|e| format!("{:?}", e))?;
        b.put("j", "v").map_err(|e| format!("{:?}", e))?;
        drop(b);
        iosim::with_plan(|p| {
            p.armed = true;
            p.calls = 0;
            p.call_kinds.clear();
            p.fault_fired = false;
            p.fault = Some(iosim::Fault::nth(Kind::Fsync, 0, libc::EIO));
        });
        let res = tx.commit();
        let fired = iosim::with_plan(|p| {
            p.armed = false;
            p.fault = None;
            p.fault_fired
        })
        .unwrap_or(false);
        match res {
            Err(_) if fired => Ok(()),
            Ok(()) if fired => Err("the commit whose sync failed returned Ok".into()),
            Ok(()) => Ok(()),
            Err(e) => Err(format!("commit failed although no fault fired: {:?}", e)),
        }
    });
    match r {
        Ok(Ok(())) => {}
        Ok(Err(e)) => return Err(e),
        Err(p) => return Err(format!("panicked in the commit whose sync fails: {}", p.replace('\n', " "))),
    }
    let r = real::guarded(|| -> Result<(), String> {
        let tx = db.tx(true).map_err(|e| format!("tx(true) after the failed commit: {:?}", e))?;
        let b = tx.get_or_create_bucket("junk").map_err(|e| format!("{:?}", e))?;
        b.put("big", vec![7u8; 60_000]).map_err(|e| format!("{:?}", e))?;
        drop(b);
        tx.commit().map_err(|e| format!("growing commit after the failed one: {:?}", e))
    });
    match r {
        Ok(Ok(())) => Ok(()),
        Ok(Err(e)) => Err(e),
        Err(p) => Err(format!("panicked in the growing commit: {}", p.replace('\n', " "))),
    }
}

#[allow(clippy::too_many_arguments)]
fn child_body(path: &str, i: usize, n: usize, init_fault: bool, second_fd: bool, sync_fault_grow: bool, stat_fault: bool, grow_plain: bool, direct: bool, with_helper: bool) -> ! {
    let path = path.to_string();
    let dir = std::path::Path::new(&path).parent().unwrap().to_string_lossy().to_string();
    iosim::set_track_prefix(&dir);
    let mut plan = iosim::Plan { sched: Some(&PIPE_SCHED), ..Default::default() };
    if init_fault {
        plan.armed = true;
        plan.fault = Some(iosim::Fault::nth(Kind::Fallocate, 0, libc::ENOSPC));
    }
    if stat_fault {
        plan.armed = true;
        plan.fault = Some(iosim::Fault::nth(Kind::Stat, 0, libc::EIO));
    }
    iosim::install_plan(plan);
    let cfg = Cfg { num_pages: 16 * (i + 1), populate: i % 2 == 1, direct, ..Cfg::default() };
    let opened = real::guarded(|| cfg.open(&path));
    let fired = (init_fault || stat_fault)
        && iosim::with_plan(|p| {
            p.armed = false;
            p.fault = None;
            p.fault_fired
        })
        .unwrap_or(false);
    let db = match opened {
        Ok(Ok(db)) => db,
        Ok(Err(jammdb::Error::Io(_))) if fired => {
            say("I interrupted");
            unsafe { libc::_exit(0) };
        }
        Ok(Err(jammdb::Error::Io(e))) if direct && e.raw_os_error() == Some(libc::EINVAL) => {
            say("I interrupted");
            unsafe { libc::_exit(0) };
        }
        Ok(Err(e)) => {
            say(&format!("I err open returned {:?}", e));
            unsafe { libc::_exit(0) };
        }
        Err(p) => {
            say(&format!("I err open panicked: {}", p.replace('\n', " ")));
            unsafe { libc::_exit(0) };
        }
    };
    let helper = db.clone();
    drop(helper);
    say("I entered");
    if grow_plain {
        let r = if with_helper { growth_commit_with_reader_thread(&db, &path) } else { growth_commit(&db) };
        if let Err(e) = r {
            say(&format!("I err {}", e));
        }
    }
    if sync_fault_grow {
        if let Err(e) = sync_fault_then_growth(&db) {
            say(&format!("I err {}", e));
        }
    }
    let r = real::guarded(|| -> Result<Vec<usize>, String> {
        let tx = db.tx(true).map_err(|e| format!("tx(true): {:?}", e))?;
        let b = tx.get_or_create_bucket("openers").map_err(|e| format!("{:?}", e))?;
        b.put(format!("opener{}", i), "here").map_err(|e| format!("{:?}", e))?;
        drop(b);
        tx.commit().map_err(|e| format!("commit: {:?}", e))?;
        let tx = db.tx(false).map_err(|e| format!("tx(false): {:?}", e))?;
        let b = tx.get_bucket("openers").map_err(|e| format!("{:?}", e))?;
        Ok((0..n).filter(|j| b.get_kv(format!("opener{}", j)).is_some()).collect())
    });
    match r {
        Ok(Ok(seen)) => say(&format!("I view {}", seen.iter().map(|x| x.to_string()).collect::<Vec<_>>().join(","))),
        Ok(Err(e)) => say(&format!("I err {}", e.replace('\n', " "))),
        Err(p) => say(&format!("I err panicked while using the database: {}", p.replace('\n', " "))),
    }
    // the holder runs the built-in consistency check on its open handle (a routine maintenance
    // call): whatever it does internally must not let anybody else in
    match real::guarded(|| db.check()) {
        Ok(Ok(())) => {}
        Ok(Err(e)) => say(&format!("I err check() on the open handle: {:?}", e)),
        Err(p) => say(&format!("I err check() panicked: {}", p.replace('\n', " "))),
    }
    say("P holding");
    wait_go();
    if second_fd {
        // the holder looks at its own file through a second descriptor (a backup copy, a size
        // probe): opening and closing it must not let anybody else in
        match std::fs::read(&path) {
            Ok(b) if !b.is_empty() => {}
            other => say(&format!("I err reading the database file through a second descriptor: {:?}", other.map(|b| b.len()))),
        }
        say("P holding");
        wait_go();
    }
    let mut helper_proc = None;
    if with_helper {
        // an unrelated program started while the database is open (it dies with this process)
        use std::os::unix::process::CommandExt;
        let mut cmd = std::process::Command::new("sleep");
        cmd.arg("600").stdin(std::process::Stdio::null()).stdout(std::process::Stdio::null()).stderr(std::process::Stdio::null());
        unsafe {
            cmd.pre_exec(|| {
                libc::prctl(libc::PR_SET_PDEATHSIG, libc::SIGKILL);
                // the pipes to the exploring process are this harness's, not the application's
                libc::close(CHILD_IN.load(std::sync::atomic::Ordering::Relaxed));
                libc::close(CHILD_OUT.load(std::sync::atomic::Ordering::Relaxed));
                Ok(())
            });
        }
        match cmd.spawn() {
            Ok(c) => helper_proc = Some(c),
            Err(e) => say(&format!("I err cannot start the helper program: {}", e)),
        }
    }
    say("I leaving");
    drop(db);
    say("I closed");
    if with_helper {
        // the process lives on for a while without any handle: whoever waits must get in now
        say("P after-close");
        wait_go();
        if let Some(mut c) = helper_proc {
            let _ = c.kill();
            let _ = c.wait();
        }
    }
    unsafe { libc::_exit(0) };
}

// ---------------------------------------------------------------------------------------------
// parent side

#[derive(Clone, Debug, PartialEq)]
enum St {
    AtPoint(String),
    Blocked,
    /// released but silent: inside a system call the harness does not own (or very slow)
    Silent,
    Done,
}

struct Proc {
    /// has been released into a lock request at least once (so it may hold the lock)
    attempted: bool,
    pid: i32,
    rfd: i32,
    wfd: i32,
    buf: Vec<u8>,
    st: St,
}

enum Msg {
    Line(String),
    Eof,
    Timeout,
}

fn read_msg(p: &mut Proc, timeout_ms: i32) -> Msg {
    loop {
        if let Some(pos) = p.buf.iter().position(|&b| b == b'\n') {
            let line: Vec<u8> = p.buf.drain(..=pos).collect();
            return Msg::Line(String::from_utf8_lossy(&line[..line.len() - 1]).to_string());
        }
        let mut pfd = libc::pollfd { fd: p.rfd, events: libc::POLLIN, revents: 0 };
        let r = unsafe { libc::poll(&mut pfd, 1, timeout_ms) };
        if r == 0 {
            return Msg::Timeout;
        }
        if r < 0 {
            let e = unsafe { *libc::__errno_location() };
            if e == libc::EINTR {
                continue;
            }
            return Msg::Eof;
        }
        let mut tmp = [0u8; 4096];
        let n = unsafe { libc::syscall(libc::SYS_read, p.rfd, tmp.as_mut_ptr(), tmp.len()) };
        if n <= 0 {
            return Msg::Eof;
        }
        p.buf.extend_from_slice(&tmp[..n as usize]);
    }
}

#[derive(Clone, Debug)]
pub struct PCase {
    pub openers: usize,
    pub file_exists: bool,
    pub init_fault: Option<usize>,
    /// every opener also opens, reads and closes the file through a second descriptor while inside
    pub second_fd: bool,
    /// this opener first runs a commit whose first sync fails, then one that grows the file
    pub sync_fault_grow: Option<usize>,
    pub stat_fault: Option<usize>,
    pub grow_plain: Option<usize>,
    pub direct: Option<usize>,
    pub hardlink: bool,
    pub helper: bool,
}

#[derive(Default)]
struct Obs {
    inside: i64,
    max_inside: i64,
    errors: Vec<(usize, String)>,
    views: Vec<(usize, Vec<usize>, Vec<usize>)>,
    closed_before: Vec<Vec<usize>>,
    closed: Vec<usize>,
    order: Vec<usize>,
    interrupted: Vec<usize>,
    released: bool,
    protocol: Vec<String>,
    stale_lock: Option<String>,
}

fn handle_info(o: &mut Obs, i: usize, line: &str) {
    let rest = &line[2..];
    if rest == "entered" {
        o.inside += 1;
        o.max_inside = o.max_inside.max(o.inside);
        o.order.push(i);
        o.closed_before[i] = o.closed.clone();
    } else if rest == "leaving" {
        o.inside -= 1;
    } else if rest == "closed" {
        o.closed.push(i);
    } else if rest == "released" {
        o.released = true;
    } else if rest == "interrupted" {
        o.interrupted.push(i);
    } else if let Some(v) = rest.strip_prefix("view") {
        let seen: Vec<usize> = v.trim().split(',').filter(|s| !s.is_empty()).filter_map(|s| s.parse().ok()).collect();
        let cb = o.closed_before[i].clone();
        o.views.push((i, seen, cb));
    } else if let Some(e) = rest.strip_prefix("err ") {
        o.errors.push((i, e.to_string()));
    } else {
        o.protocol.push(format!("opener {}: unexpected message `{}`", i, line));
    }
}

/// reads from the child until it stops at a point, blocks, exits or stays silent
fn advance(procs: &mut [Proc], i: usize, o: &mut Obs, timeout_ms: i32) {
    loop {
        match read_msg(&mut procs[i], timeout_ms) {
            Msg::Line(l) => {
                if let Some(k) = l.strip_prefix("P ") {
                    procs[i].st = St::AtPoint(k.to_string());
                    return;
                } else if l == "B" {
                    procs[i].st = St::Blocked;
                    // the kernel says the lock is taken: somebody must be able to hold it
                    let holder_possible = (0..procs.len()).any(|j| j != i && procs[j].attempted && !o.closed.contains(&j));
                    if !holder_possible && o.stale_lock.is_none() {
                        o.stale_lock = Some(format!("opener {} finds the lock taken although every other opener has closed its handle or has not asked for the lock yet (closed: {:?})", i, o.closed));
                    }
                    return;
                } else if l.starts_with("I ") {
                    handle_info(o, i, &l);
                } else {
                    o.protocol.push(format!("opener {}: unexpected message `{}`", i, l));
                }
            }
            Msg::Eof => {
                procs[i].st = St::Done;
                // a process that ends gives up whatever it held
                o.released = true;
                return;
            }
            Msg::Timeout => {
                procs[i].st = St::Silent;
                return;
            }
        }
    }
}

fn go(p: &mut Proc) {
    let b = b"\n";
    unsafe { libc::syscall(libc::SYS_write, p.wfd, b.as_ptr(), 1) };
}

fn reap(procs: &mut [Proc]) {
    for p in procs.iter_mut() {
        unsafe {
            libc::kill(p.pid, libc::SIGKILL);
            let mut st = 0;
            libc::waitpid(p.pid, &mut st, 0);
            libc::syscall(libc::SYS_close, p.rfd);
            libc::syscall(libc::SYS_close, p.wfd);
        }
    }
}

/// forks one opener; the child never returns
#[allow(clippy::too_many_arguments)]
fn spawn_opener(path: &str, i: usize, n: usize, init_fault: bool, second_fd: bool, sync_fault_grow: bool, stat_fault: bool, grow_plain: bool, direct: bool, helper: bool) -> Result<Proc, String> {
    let mut to_child = [0i32; 2];
    let mut from_child = [0i32; 2];
    unsafe {
        if libc::pipe(to_child.as_mut_ptr()) != 0 || libc::pipe(from_child.as_mut_ptr()) != 0 {
            return Err("pipe failed".into());
        }
        let pid = libc::fork();
        if pid < 0 {
            return Err("fork failed".into());
        }
        if pid == 0 {
            libc::prctl(libc::PR_SET_PDEATHSIG, libc::SIGKILL);
            // keep only the two pipe ends of this opener
            for fd in 3..512 {
                if fd != to_child[0] && fd != from_child[1] {
                    libc::syscall(libc::SYS_close, fd);
                }
            }
            CHILD_IN.store(to_child[0], std::sync::atomic::Ordering::Relaxed);
            CHILD_OUT.store(from_child[1], std::sync::atomic::Ordering::Relaxed);
            child_body(path, i, n, init_fault, second_fd, sync_fault_grow, stat_fault, grow_plain, direct, helper);
        }
        libc::syscall(libc::SYS_close, to_child[0]);
        libc::syscall(libc::SYS_close, from_child[1]);
        Ok(Proc { attempted: false, pid, rfd: from_child[0], wfd: to_child[1], buf: vec![], st: St::Silent })
    }
}

const SILENT_MS: i32 = 3000;
const STUCK_MS: i32 = 30_000;
static SILENT_EVER: std::sync::atomic::AtomicBool = std::sync::atomic::AtomicBool::new(false);

pub fn run_one(case: &PCase, path: &str, prefix: &[u8]) -> (ExecResult, Vec<Judgement>, String) {
    let _ = std::fs::remove_file(path);
    let cfg = Cfg { num_pages: 16, ..Cfg::default() };
    let fail = |m: String| (ExecResult { points: vec![], deadlock: None, diverged: Some(m), panics: vec![] }, vec![], String::new());
    if case.file_exists {
        match real::guarded(|| cfg.open(path).map(|_| ())) {
            Ok(Ok(())) => {}
            other => return fail(format!("cannot create base: {:?}", other)),
        }
    }
    let n = case.openers;
    let link = format!("{}.link", path);
    let _ = std::fs::remove_file(&link);
    if case.hardlink && case.file_exists {
        if let Err(e) = std::fs::hard_link(path, &link) {
            return fail(format!("cannot create the hard link: {}", e));
        }
    }
    let mut procs: Vec<Proc> = vec![];
    for i in 0..n {
        let path = if case.hardlink && i > 0 { link.as_str() } else { path };
        match spawn_opener(path, i, n, case.init_fault == Some(i), case.second_fd, case.sync_fault_grow == Some(i), case.stat_fault == Some(i), case.grow_plain == Some(i), case.direct == Some(i), case.helper) {
            Ok(p) => procs.push(p),
            Err(e) => {
                reap(&mut procs);
                return fail(format!("cannot start an opener process: {}", e));
            }
        }
    }
    let mut o = Obs { closed_before: vec![vec![]; n], ..Default::default() };
    for i in 0..n {
        advance(&mut procs, i, &mut o, 20_000);
    }
    let mut points: Vec<PointRec> = vec![];
    let mut running: Option<usize> = None;
    let mut deadlock = None;
    let mut diverged = None;
    let mut silent_seen = false;
    loop {
        // anything a silent process has said meanwhile
        for i in 0..n {
            if procs[i].st == St::Silent {
                advance(&mut procs, i, &mut o, 0);
            }
        }
        if std::mem::take(&mut o.released) {
            for p in procs.iter_mut() {
                if p.st == St::Blocked {
                    p.st = St::AtPoint("flock-retry".into());
                }
            }
        }
        let mut enabled: Vec<u8> = vec![];
        let running_enabled = running.map(|r| matches!(procs[r].st, St::AtPoint(_))).unwrap_or(false);
        if running_enabled {
            enabled.push(running.unwrap() as u8);
        }
        for i in 0..n {
            if Some(i) != running.filter(|_| running_enabled) && matches!(procs[i].st, St::AtPoint(_)) {
                enabled.push(i as u8);
            }
        }
        if enabled.is_empty() {
            if procs.iter().all(|p| p.st == St::Done) {
                break;
            }
            if let Some(i) = (0..n).find(|&i| procs[i].st == St::Silent) {
                silent_seen = true;
                advance(&mut procs, i, &mut o, STUCK_MS);
                if procs[i].st == St::Silent && procs.iter().all(|p| !matches!(p.st, St::AtPoint(_))) && (0..n).filter(|&j| procs[j].st == St::Silent).count() == 1 {
                    deadlock = Some(format!("no opener can make progress: states {:?} (an opener is stuck inside a system call)", procs.iter().map(|p| p.st.clone()).collect::<Vec<_>>()));
                    break;
                }
                continue;
            }
            deadlock = Some(format!("no opener can make progress: states {:?}", procs.iter().map(|p| p.st.clone()).collect::<Vec<_>>()));
            break;
        }
        let idx = points.len();
        let choice = if idx < prefix.len() { prefix[idx] as usize } else { 0 };
        // once an opener has been seen stuck in a call the harness does not own, timing decides who
        // is enabled: schedules are no longer replayable, take the default instead of failing
        let choice = if choice >= enabled.len() && SILENT_EVER.load(std::sync::atomic::Ordering::Relaxed) { 0 } else { choice };
        if choice >= enabled.len() {
            diverged = Some(format!("process-level replay diverged at point {}: choice {} of {} enabled", idx, choice, enabled.len()));
            break;
        }
        let t = enabled[choice] as usize;
        let kind = match &procs[t].st {
            St::AtPoint(k) => k.clone(),
            _ => unreachable!(),
        };
        points.push(PointRec { enabled: enabled.clone(), running_enabled, chosen: choice as u8, op: format!("p{} {}", t, kind) });
        if points.len() > 5000 {
            diverged = Some("more than 5000 points in one process-level execution".into());
            break;
        }
        if kind.starts_with("flock") {
            procs[t].attempted = true;
        }
        go(&mut procs[t]);
        advance(&mut procs, t, &mut o, SILENT_MS);
        if procs[t].st == St::Silent {
            silent_seen = true;
            SILENT_EVER.store(true, std::sync::atomic::Ordering::Relaxed);
        }
        running = Some(t);
    }
    reap(&mut procs);
    let res = ExecResult { points, deadlock: deadlock.clone(), diverged, panics: vec![] };
    let mut js = vec![];
    if let Some(d) = &deadlock {
        js.push(Judgement { class: "deadlock".into(), detail: d.clone() });
    }
    if let Some(m) = &o.stale_lock {
        js.push(Judgement { class: "lock_outlives_handle".into(), detail: m.clone() });
    }
    for m in &o.protocol {
        js.push(Judgement { class: "opener_error".into(), detail: m.clone() });
    }
    let mut outcome = format!("order{:?};", o.order);
    for (i, e) in &o.errors {
        let class = if e.starts_with("open returned") {
            "open_failed".to_string()
        } else if e.starts_with("open panicked") {
            crate::runner::panic_class("open_panicked", e)
        } else {
            "opener_error".to_string()
        };
        js.push(Judgement { class, detail: format!("opener process {}: {} (the file {})", i, e, if case.file_exists { "existed" } else { "did not exist at the start" }) });
        outcome.push_str(&format!("err{};", i));
    }
    if res.diverged.is_none() && deadlock.is_none() {
        if o.max_inside > 1 {
            js.push(Judgement { class: "two_openers_inside".into(), detail: format!("{} opener processes were inside the database at the same time (order of entry {:?})", o.max_inside, o.order) });
        }
        for (i, seen, closed_before) in &o.views {
            if !seen.contains(i) {
                js.push(Judgement { class: "own_marker_missing".into(), detail: format!("opener process {} does not see its own committed marker", i) });
            }
            for c in closed_before {
                if !seen.contains(c) {
                    js.push(Judgement { class: "earlier_commit_invisible".into(), detail: format!("opener process {} opened after opener {} had closed, but does not see its marker (sees {:?})", i, c, seen) });
                }
            }
        }
        if !o.interrupted.is_empty() {
            outcome.push_str(&format!("initfail{:?};", o.interrupted));
            if case.init_fault.is_none() && case.stat_fault.is_none() && case.direct.is_none() {
                js.push(Judgement { class: "open_failed".into(), detail: format!("openers {:?} reported an I/O error although none was injected", o.interrupted) });
            }
        }
        if silent_seen {
            outcome.push_str("silent;");
        }
        if js.is_empty() {
            let cfg2 = cfg.clone();
            let r = real::guarded(|| -> Result<(Vec<usize>, Result<(), String>), String> {
                let db = cfg2.open(path).map_err(|e| format!("{:?}", e))?;
                let tx = db.tx(false).map_err(|e| format!("{:?}", e))?;
                let m: Vec<usize> = match tx.get_bucket("openers") {
                    Ok(b) => (0..n).filter(|j| b.get_kv(format!("opener{}", j)).is_some()).collect(),
                    Err(jammdb::Error::BucketMissing) => vec![],
                    Err(e) => return Err(format!("{:?}", e)),
                };
                drop(tx);
                Ok((m, db.check().map_err(|e| format!("{:?}", e))))
            });
            match r {
                Ok(Ok((m, chk))) => {
                    if m.len() != n - o.interrupted.len() {
                        js.push(Judgement { class: "marker_lost".into(), detail: format!("after all opener processes finished the file holds markers {:?} of {}", m, n) });
                    }
                    if let Err(e) = chk {
                        js.push(Judgement { class: "dbcheck".into(), detail: e });
                    }
                }
                other => js.push(Judgement { class: "final_state".into(), detail: format!("cannot reopen after the run: {:?}", other.map(|x| x.map(|_| ()))) }),
            }
        }
    }
    (res, js, outcome)
}

/// debugging: `vcheck c13p-run <openers> <exists 0|1> <choices,comma,separated>`
pub fn debug_run(args: &[String]) {
    let scratch = crate::report::scratch_dir();
    let path = format!("{}/c13p-debug.db", scratch);
    let case = PCase { openers: args[0].parse().unwrap(), file_exists: args[1] == "1", init_fault: None, second_fd: args.get(3).map(|s| s == "1").unwrap_or(false), sync_fault_grow: None, stat_fault: None, grow_plain: None, direct: None, hardlink: false, helper: false };
    let prefix: Vec<u8> = args.get(2).map(|s| s.split(',').filter(|x| !x.is_empty()).map(|x| x.parse().unwrap()).collect()).unwrap_or_default();
    let t0 = std::time::Instant::now();
    let (res, js, outcome) = run_one(&case, &path, &prefix);
    for p in &res.points {
        println!("  {} (enabled {:?}, choice {})", p.op, p.enabled, p.chosen);
    }
    println!("deadlock {:?} diverged {:?} outcome {} in {:?}", res.deadlock, res.diverged, outcome, t0.elapsed());
    for j in js {
        println!("  {}: {}", j.class, j.detail);
    }
}
