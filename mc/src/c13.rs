//! C13 scenarios — filled in below.
use crate::report::Tier;
use crate::sched::{ExecResult, RwPolicy};
use crate::schedx::Judgement;
pub fn serve_job(_tier: Tier, _ci: usize, _policy: RwPolicy, _max: u64, _path: &str) -> String { "{\"err\":\"not built\"}".into() }
pub fn replay_one(_tier: Tier, _ci: usize, _policy: RwPolicy, _prefix: &[u8], _path: &str) -> (ExecResult, Vec<Judgement>) { (ExecResult { points: vec![], deadlock: None, diverged: Some("not built".into()), panics: vec![] }, vec![]) }
