//! C13 scenarios: two and three openers of the same file (existing or not yet created), scheduled at
//! every system call of the open / initialise / commit / close path.  Openers are threads: flock
//! locks belong to the open file description, so independent DB::open calls in one process conflict
//! exactly like processes do, and the library keeps no process-wide state.

use std::sync::atomic::{AtomicI64, Ordering};
use std::sync::{Arc, Mutex};

use serde_json::json;

use crate::real;
use crate::report::Tier;
use crate::runner::Cfg;
use crate::sched::{run_execution, Body, Ctx, ExecResult, RwPolicy};
use crate::schedx::{CaseInfo, Judgement};

#[derive(Clone, Debug)]
pub struct Case {
    /// one blocking lock request per execution is refused with ENOLCK (no lock records left): the
    /// open must report it and stay outside
    pub enolck: bool,
    /// (processes only) every opener starts a helper program (`sleep`) while it holds the database and
    /// stays alive for a while after closing its handle: the helper must not inherit the lock
    pub helper: bool,
    /// every opener but the first reaches the file through a hard link (another name of the same inode)
    pub hardlink: bool,
    /// this opener asks for direct_writes (O_DIRECT); a refusal by the file system (EINVAL) is a legitimate answer
    pub direct: Option<usize>,
    /// the length query this opener makes under the lock fails (EIO): its open must report the error
    pub stat_fault: Option<usize>,
    /// this opener, once inside, makes a commit that grows the file before its ordinary one
    pub grow_plain: Option<usize>,
    /// this opener, once inside, first runs a commit whose first sync fails (EIO) and then one that
    /// has to grow (and map again) the file, before its ordinary commit
    pub sync_fault_grow: Option<usize>,
    /// (process cases) every opener reads its own file through a second descriptor while inside
    pub second_fd: bool,
    /// the openers are real child processes stepped through pipes (c13p) instead of threads
    pub procs: bool,
    /// this opener's first file extension (the allocation that initialises a new file) fails with ENOSPC
    pub init_fault: Option<usize>,
    /// one blocking lock request may be interrupted by a signal (EINTR) in each execution
    pub eintr: bool,
    pub openers: usize,
    pub file_exists: bool,
    pub bound: usize,
}

pub fn cases(tier: Tier) -> Vec<Case> {
    let q = tier == Tier::Quick;
    vec![
        Case { enolck: false, helper: false, hardlink: false, direct: None, stat_fault: None, grow_plain: None, sync_fault_grow: None, second_fd: false, procs: false, init_fault: None, eintr: false, openers: 2, file_exists: true, bound: if q { 6 } else { 12 } },
        Case { enolck: false, helper: false, hardlink: false, direct: None, stat_fault: None, grow_plain: None, sync_fault_grow: None, second_fd: false, procs: false, init_fault: None, eintr: false, openers: 2, file_exists: false, bound: if q { 4 } else { 8 } },
        Case { enolck: false, helper: false, hardlink: false, direct: None, stat_fault: None, grow_plain: None, sync_fault_grow: None, second_fd: false, procs: false, init_fault: None, eintr: false, openers: 3, file_exists: true, bound: if q { 2 } else { 3 } },
        Case { enolck: false, helper: false, hardlink: false, direct: None, stat_fault: None, grow_plain: None, sync_fault_grow: None, second_fd: false, procs: false, init_fault: None, eintr: false, openers: 3, file_exists: false, bound: if q { 2 } else { 3 } },
        Case { enolck: false, helper: false, hardlink: false, direct: None, stat_fault: None, grow_plain: None, sync_fault_grow: None, second_fd: false, procs: false, init_fault: None, eintr: true, openers: 2, file_exists: true, bound: if q { 3 } else { 6 } },
        Case { enolck: false, helper: false, hardlink: false, direct: None, stat_fault: None, grow_plain: None, sync_fault_grow: None, second_fd: false, procs: false, init_fault: None, eintr: true, openers: 3, file_exists: false, bound: if q { 1 } else { 2 } },
        Case { enolck: false, helper: false, hardlink: false, direct: None, stat_fault: None, grow_plain: None, sync_fault_grow: None, second_fd: false, procs: false, init_fault: Some(0), eintr: false, openers: 3, file_exists: false, bound: if q { 2 } else { 3 } },
        Case { enolck: false, helper: false, hardlink: false, direct: None, stat_fault: None, grow_plain: None, sync_fault_grow: None, second_fd: false, procs: false, init_fault: Some(1), eintr: false, openers: 3, file_exists: false, bound: if q { 1 } else { 2 } },
        Case { enolck: false, helper: false, hardlink: false, direct: None, stat_fault: None, grow_plain: None, sync_fault_grow: Some(0), second_fd: false, procs: false, init_fault: None, eintr: false, openers: 2, file_exists: true, bound: if q { 2 } else { 4 } },
        Case { enolck: false, helper: false, hardlink: false, direct: None, stat_fault: None, grow_plain: None, sync_fault_grow: Some(0), second_fd: false, procs: true, init_fault: None, eintr: false, openers: 2, file_exists: true, bound: if q { 3 } else { 6 } },
        // the holder grows the file while the others wait (every second opener maps with populate)
        Case { enolck: false, helper: false, hardlink: false, direct: None, stat_fault: None, grow_plain: Some(0), sync_fault_grow: None, second_fd: false, procs: false, init_fault: None, eintr: false, openers: 2, file_exists: true, bound: if q { 2 } else { 4 } },
        Case { enolck: false, helper: false, hardlink: false, direct: None, stat_fault: None, grow_plain: Some(0), sync_fault_grow: None, second_fd: false, procs: true, init_fault: None, eintr: false, openers: 2, file_exists: true, bound: if q { 3 } else { 6 } },
        // the waiting opener's length query fails
        Case { enolck: false, helper: false, hardlink: false, direct: None, stat_fault: Some(1), grow_plain: None, sync_fault_grow: None, second_fd: false, procs: false, init_fault: None, eintr: false, openers: 2, file_exists: true, bound: if q { 2 } else { 4 } },
        Case { enolck: false, helper: false, hardlink: false, direct: None, stat_fault: Some(1), grow_plain: None, sync_fault_grow: None, second_fd: false, procs: true, init_fault: None, eintr: false, openers: 2, file_exists: true, bound: if q { 3 } else { 6 } },
        // the second opener uses another name (hard link) of the same file
        Case { enolck: false, helper: false, hardlink: true, direct: None, stat_fault: None, grow_plain: None, sync_fault_grow: None, second_fd: false, procs: false, init_fault: None, eintr: false, openers: 2, file_exists: true, bound: if q { 3 } else { 6 } },
        Case { enolck: false, helper: false, hardlink: true, direct: None, stat_fault: None, grow_plain: None, sync_fault_grow: None, second_fd: false, procs: true, init_fault: None, eintr: false, openers: 2, file_exists: true, bound: if q { 3 } else { 6 } },
        // an opener that asks for direct writes, on a fresh and on an existing file
        Case { enolck: false, helper: false, hardlink: false, direct: Some(0), stat_fault: None, grow_plain: None, sync_fault_grow: None, second_fd: false, procs: false, init_fault: None, eintr: false, openers: 2, file_exists: false, bound: if q { 2 } else { 4 } },
        Case { enolck: false, helper: false, hardlink: false, direct: Some(0), stat_fault: None, grow_plain: None, sync_fault_grow: None, second_fd: false, procs: true, init_fault: None, eintr: false, openers: 2, file_exists: false, bound: if q { 3 } else { 6 } },
        Case { enolck: false, helper: false, hardlink: false, direct: Some(1), stat_fault: None, grow_plain: None, sync_fault_grow: None, second_fd: false, procs: true, init_fault: None, eintr: false, openers: 2, file_exists: true, bound: if q { 2 } else { 4 } },
        // the lock request of one opener is refused outright (ENOLCK)
        Case { enolck: true, helper: false, hardlink: false, direct: None, stat_fault: None, grow_plain: None, sync_fault_grow: None, second_fd: false, procs: false, init_fault: None, eintr: false, openers: 2, file_exists: true, bound: if q { 3 } else { 6 } },
        Case { enolck: true, helper: false, hardlink: false, direct: None, stat_fault: None, grow_plain: None, sync_fault_grow: None, second_fd: false, procs: false, init_fault: None, eintr: false, openers: 3, file_exists: false, bound: if q { 1 } else { 2 } },
        // holders that start a helper program which outlives their handle (descriptor inheritance)
        Case { enolck: false, helper: true, hardlink: false, direct: None, stat_fault: None, grow_plain: None, sync_fault_grow: None, second_fd: false, procs: true, init_fault: None, eintr: false, openers: 2, file_exists: true, bound: if q { 1 } else { 3 } },
        Case { enolck: false, helper: true, hardlink: false, direct: Some(0), stat_fault: None, grow_plain: None, sync_fault_grow: None, second_fd: false, procs: true, init_fault: None, eintr: false, openers: 2, file_exists: false, bound: if q { 1 } else { 3 } },
        Case { enolck: false, helper: true, hardlink: false, direct: Some(1), stat_fault: None, grow_plain: Some(0), sync_fault_grow: None, second_fd: false, procs: true, init_fault: None, eintr: false, openers: 2, file_exists: true, bound: if q { 1 } else { 2 } },
        // the same bodies as real processes under the kernel's own flock
        Case { enolck: false, helper: false, hardlink: false, direct: None, stat_fault: None, grow_plain: None, sync_fault_grow: None, second_fd: false, procs: true, init_fault: None, eintr: false, openers: 2, file_exists: true, bound: if q { 4 } else { 12 } },
        Case { enolck: false, helper: false, hardlink: false, direct: None, stat_fault: None, grow_plain: None, sync_fault_grow: None, second_fd: false, procs: true, init_fault: None, eintr: false, openers: 2, file_exists: false, bound: if q { 4 } else { 8 } },
        Case { enolck: false, helper: false, hardlink: false, direct: None, stat_fault: None, grow_plain: None, sync_fault_grow: None, second_fd: false, procs: true, init_fault: None, eintr: false, openers: 3, file_exists: false, bound: if q { 2 } else { 3 } },
        Case { enolck: false, helper: false, hardlink: false, direct: None, stat_fault: None, grow_plain: None, sync_fault_grow: None, second_fd: true, procs: true, init_fault: None, eintr: false, openers: 2, file_exists: true, bound: if q { 3 } else { 6 } },
        Case { enolck: false, helper: false, hardlink: false, direct: None, stat_fault: None, grow_plain: None, sync_fault_grow: None, second_fd: false, procs: true, init_fault: Some(0), eintr: false, openers: 3, file_exists: false, bound: if q { 1 } else { 2 } },
    ]
}

pub fn case_infos(tier: Tier) -> Vec<CaseInfo> {
    cases(tier)
        .iter()
        .map(|c| CaseInfo {
            label: format!("{}{}openers-{}{}{}-c{}", if c.procs { "processes-" } else { "" }, c.openers, if c.file_exists { "existing" } else { "absent" }, if c.helper { "-helper-program" } else { "" }, if c.hardlink { "-second-name-hard-link" } else if c.direct.is_some() { "-direct-writes" } else if c.grow_plain.is_some() { "-holder-grows-file" } else if c.stat_fault.is_some() { "-lengthqueryfail" } else if c.sync_fault_grow.is_some() { "-syncfail-then-growth" } else if c.second_fd { "-second-descriptor" } else if c.enolck { "-one-ENOLCK" } else if c.eintr { "-one-EINTR" } else if let Some(i) = c.init_fault { if i == 0 { "-initfail0" } else { "-initfail1" } } else { "" }, c.bound),
            describe: json!({"openers_are": if c.procs { "child processes released one system call at a time; flock answered by the kernel" } else { "threads; flock modelled by the scheduler" }, "openers": c.openers, "file": if c.file_exists { "exists (empty database, closed)" } else { "does not exist yet" }, "opener_body": "open(path); inside += 1; commit own marker; read all markers; yield; inside -= 1; close", "preemption_bound": c.bound}),
        })
        .collect()
}

#[derive(Default)]
struct Obs {
    max_inside: i64,
    errors: Vec<(usize, String)>,
    /// (opener, markers seen, openers that had closed before this opener's open returned)
    views: Vec<(usize, Vec<usize>, Vec<usize>)>,
    closed: Vec<usize>,
    order: Vec<usize>,
    interrupted: Vec<usize>,
}

fn markers(tx: &jammdb::Tx, n: usize) -> Result<Vec<usize>, String> {
    match real::guarded(|| -> Result<Vec<usize>, String> {
        let b = match tx.get_bucket("openers") {
            Ok(b) => b,
            Err(jammdb::Error::BucketMissing) => return Ok(vec![]),
            Err(e) => return Err(format!("{:?}", e)),
        };
        let mut v = vec![];
        for i in 0..n {
            if b.get_kv(format!("opener{}", i)).is_some() {
                v.push(i);
            }
        }
        Ok(v)
    }) {
        Ok(r) => r,
        Err(p) => Err(format!("panic while reading: {}", p)),
    }
}

pub fn run_one(case: &Case, path: &str, prefix: &[u8], policy: RwPolicy) -> (ExecResult, Vec<Judgement>, String) {
    if case.procs {
        let pc = crate::c13p::PCase { openers: case.openers, file_exists: case.file_exists, init_fault: case.init_fault, second_fd: case.second_fd, sync_fault_grow: case.sync_fault_grow, stat_fault: case.stat_fault, grow_plain: case.grow_plain, direct: case.direct, hardlink: case.hardlink, helper: case.helper };
        return crate::c13p::run_one(&pc, path, prefix);
    }
    let _ = std::fs::remove_file(path);
    let cfg = Cfg { num_pages: 16, ..Cfg::default() };
    if case.file_exists {
        match real::guarded(|| cfg.open(path).map(|_| ())) {
            Ok(Ok(())) => {}
            other => return (ExecResult { points: vec![], deadlock: None, diverged: Some(format!("cannot create base: {:?}", other)), panics: vec![] }, vec![], String::new()),
        }
    }
    let link = format!("{}.link", path);
    let _ = std::fs::remove_file(&link);
    if case.hardlink && case.file_exists {
        if let Err(e) = std::fs::hard_link(path, &link) {
            return (ExecResult { points: vec![], deadlock: None, diverged: Some(format!("cannot create the hard link: {}", e)), panics: vec![] }, vec![], String::new());
        }
    }
    let inside = Arc::new(AtomicI64::new(0));
    let obs = Arc::new(Mutex::new(Obs::default()));
    let n = case.openers;
    let mut bodies: Vec<Body> = vec![];
    for i in 0..n {
        let inside = inside.clone();
        let obs = obs.clone();
        // every opener asks for a different initial size (only the creator's may matter)
        let direct = case.direct == Some(i);
        let cfg = Cfg { num_pages: 16 * (i + 1), populate: i % 2 == 1, direct, ..cfg.clone() };
        let path = if case.hardlink && i > 0 { link.clone() } else { path.to_string() };
        let init_fault = case.init_fault == Some(i) || case.stat_fault == Some(i);
        let stat_fault = case.stat_fault == Some(i);
        let grow_plain = case.grow_plain == Some(i);
        let sync_fault_grow = case.sync_fault_grow == Some(i);
        bodies.push(Box::new(move |ctx: &Ctx| {
            if init_fault {
                crate::iosim::with_plan(|p| {
                    p.armed = true;
                    p.calls = 0;
                    p.call_kinds.clear();
                    p.fault_fired = false;
                    p.fault = Some(if stat_fault { crate::iosim::Fault::nth(crate::iosim::Kind::Stat, 0, libc::EIO) } else { crate::iosim::Fault::nth(crate::iosim::Kind::Fallocate, 0, libc::ENOSPC) });
                });
            }
            let opened = real::guarded(|| cfg.open(&path));
            let fired = init_fault
                && crate::iosim::with_plan(|p| {
                    p.armed = false;
                    p.fault = None;
                    p.fault_fired
                })
                .unwrap_or(false);
            let db = match opened {
                Ok(Err(jammdb::Error::Io(_))) if fired => {
                    // the injected allocation failure is reported: a legitimate answer
                    obs.lock().unwrap().interrupted.push(i);
                    return;
                }
                other => other,
            };
            let db = match db {
                Ok(Ok(db)) => db,
                Ok(Err(jammdb::Error::Io(e))) if direct && e.raw_os_error() == Some(libc::EINVAL) => {
                    // the file system refuses direct I/O of this shape: staying outside is fine
                    obs.lock().unwrap().interrupted.push(i);
                    return;
                }
                Ok(Err(jammdb::Error::Io(e))) if e.kind() == std::io::ErrorKind::Interrupted || e.raw_os_error() == Some(libc::ENOLCK) => {
                    // a signal interrupted the wait for the lock: reporting the error (and staying
                    // outside) is a legitimate answer
                    obs.lock().unwrap().interrupted.push(i);
                    return;
                }
                Ok(Err(e)) => {
                    obs.lock().unwrap().errors.push((i, format!("open returned {:?}", e)));
                    return;
                }
                Err(p) => {
                    obs.lock().unwrap().errors.push((i, format!("open panicked: {}", p)));
                    return;
                }
            };
            // handles are cheap clones of one Arc (the documented way to share a database between
            // threads); dropping one clone must not give up the file lock the others still rely on
            let helper = db.clone();
            drop(helper);
            let closed_before = obs.lock().unwrap().closed.clone();
            let now = inside.fetch_add(1, Ordering::SeqCst) + 1;
            {
                let mut o = obs.lock().unwrap();
                o.max_inside = o.max_inside.max(now);
                o.order.push(i);
            }
            if grow_plain {
                if let Err(e) = crate::c13p::growth_commit(&db) {
                    obs.lock().unwrap().errors.push((i, e));
                }
            }
            if sync_fault_grow {
                if let Err(e) = crate::c13p::sync_fault_then_growth(&db) {
                    obs.lock().unwrap().errors.push((i, e));
                }
            }
            let r = real::guarded(|| -> Result<Vec<usize>, String> {
                let tx = db.tx(true).map_err(|e| format!("tx(true): {:?}", e))?;
                let b = tx.get_or_create_bucket("openers").map_err(|e| format!("{:?}", e))?;
                b.put(format!("opener{}", i), "here").map_err(|e| format!("{:?}", e))?;
                drop(b);
                tx.commit().map_err(|e| format!("commit: {:?}", e))?;
                let tx = db.tx(false).map_err(|e| format!("tx(false): {:?}", e))?;
                markers(&tx, n)
            });
            match r {
                Ok(Ok(seen)) => obs.lock().unwrap().views.push((i, seen, closed_before)),
                Ok(Err(e)) => obs.lock().unwrap().errors.push((i, e)),
                Err(p) => obs.lock().unwrap().errors.push((i, format!("panicked while using the database: {}", p))),
            }
            match real::guarded(|| db.check()) {
                Ok(Ok(())) => {}
                Ok(Err(e)) => obs.lock().unwrap().errors.push((i, format!("check() on the open handle: {:?}", e))),
                Err(p) => obs.lock().unwrap().errors.push((i, format!("check() panicked: {}", p))),
            }
            ctx.yield_now("holding");
            inside.fetch_sub(1, Ordering::SeqCst);
            drop(db);
            obs.lock().unwrap().closed.push(i);
        }));
    }
    if case.enolck {
        crate::sched::sched().set_lock_failure_budget(1, libc::ENOLCK);
    } else {
        crate::sched::sched().set_eintr_budget(if case.eintr { 1 } else { 0 });
    }
    let res = run_execution(prefix, bodies, policy, true);
    crate::sched::sched().set_eintr_budget(0);
    let mut js = vec![];
    if let Some(d) = &res.deadlock {
        js.push(Judgement { class: "deadlock".into(), detail: d.clone() });
    }
    for (t, p) in &res.panics {
        js.push(Judgement { class: crate::runner::panic_class("opener_panic", p), detail: format!("opener {} panicked: {}", t, p) });
    }
    let o = obs.lock().unwrap();
    let mut outcome = format!("order{:?};", o.order);
    for (i, e) in &o.errors {
        let class = if e.starts_with("open returned") {
            "open_failed".to_string()
        } else if e.starts_with("open panicked") {
            crate::runner::panic_class("open_panicked", e)
        } else {
            "opener_error".to_string()
        };
        js.push(Judgement { class, detail: format!("opener {}: {} (the file {})", i, e, if case.file_exists { "existed" } else { "did not exist at the start" }) });
        outcome.push_str(&format!("err{};", i));
    }
    if res.deadlock.is_none() && res.diverged.is_none() {
        if o.max_inside > 1 {
            js.push(Judgement { class: "two_openers_inside".into(), detail: format!("{} openers were inside the database at the same time (order of entry {:?})", o.max_inside, o.order) });
        }
        for (i, seen, closed_before) in &o.views {
            if !seen.contains(i) {
                js.push(Judgement { class: "own_marker_missing".into(), detail: format!("opener {} does not see its own committed marker", i) });
            }
            for c in closed_before {
                if !seen.contains(c) {
                    js.push(Judgement { class: "earlier_commit_invisible".into(), detail: format!("opener {} opened after opener {} had closed, but does not see its marker (sees {:?})", i, c, seen) });
                }
            }
        }
    }
    let had_errors = !o.errors.is_empty();
    let interrupted = o.interrupted.clone();
    if !interrupted.is_empty() {
        outcome.push_str(&format!("eintr{:?};", interrupted));
        if !case.eintr && !case.enolck && case.init_fault.is_none() && case.stat_fault.is_none() && case.direct.is_none() {
            js.push(Judgement { class: "open_failed".into(), detail: format!("openers {:?} got Interrupted although no signal was injected", interrupted) });
        }
    }
    drop(o);
    if res.deadlock.is_none() && res.diverged.is_none() && js.is_empty() && !had_errors {
        let cfg2 = cfg.clone();
        let r = real::guarded(|| -> Result<(Vec<usize>, Result<(), String>), String> {
            let db = cfg2.open(path).map_err(|e| format!("{:?}", e))?;
            let tx = db.tx(false).map_err(|e| format!("{:?}", e))?;
            let m = markers(&tx, n)?;
            drop(tx);
            Ok((m, db.check().map_err(|e| format!("{:?}", e))))
        });
        match r {
            Ok(Ok((m, chk))) => {
                if m.len() != n - interrupted.len() {
                    js.push(Judgement { class: "marker_lost".into(), detail: format!("after all openers finished the file holds markers {:?} of {}", m, n) });
                }
                if let Err(e) = chk {
                    js.push(Judgement { class: "dbcheck".into(), detail: e });
                }
            }
            other => js.push(Judgement { class: "final_state".into(), detail: format!("cannot reopen after the run: {:?}", other.map(|x| x.map(|_| ()))) }),
        }
    }
    (res, js, outcome)
}

pub fn serve_job(tier: Tier, ci: usize, policy: RwPolicy, max_sched: u64, path: &str, start: Vec<u8>, expand_only: bool) -> String {
    let cs = cases(tier);
    let case = &cs[ci];
    crate::schedx::explore_case(case.bound, start, expand_only, max_sched, |prefix| run_one(case, path, prefix, policy))
}

pub fn replay_one(tier: Tier, ci: usize, policy: RwPolicy, prefix: &[u8], path: &str) -> (ExecResult, Vec<Judgement>) {
    let cs = cases(tier);
    let (r, j, _) = run_one(&cs[ci], path, prefix, policy);
    (r, j)
}
