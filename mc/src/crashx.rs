//! E3 crashx (C02): for every commit of a set of scripted histories, record the I/O of the real
//! write path (interposed write / fsync / fallocate), synthesise every crash image of the bounded
//! crash model, reopen each with the real library and require exactly the pre- or the post-state
//! (the post-state if the commit had returned) and a structurally sound file.

use std::collections::HashSet;

use serde_json::{json, Value};

use crate::fileck;
use crate::iosim::{self, IoEvent};
use crate::pool::{Outcome, Pool};
use crate::real::{self, guarded};
use crate::refmodel::{BucketM, OpSpec};
use crate::report::{self, Check, Tier};
use crate::runner::{hash128, Action, Cfg, Oracles, Runner};

pub struct Script {
    pub name: &'static str,
    pub cfg: Cfg,
    pub actions: Vec<Action>,
}

fn tx(ops: Vec<OpSpec>) -> Action {
    Action::Tx { ops, commit: true }
}

/// Does the scratch file system accept a database opened with direct_writes?  (Decided once.)
fn direct_open_works() -> bool {
    static ANSWER: std::sync::OnceLock<bool> = std::sync::OnceLock::new();
    *ANSWER.get_or_init(|| {
        let path = format!("/dev/shm/vcheck.directprobe.{}", std::process::id());
        let _ = std::fs::remove_file(&path);
        let ok = crate::real::guarded(|| {
            let db = Cfg { pagesize: 1024, num_pages: 8, direct: true, ..Cfg::default() }.open(&path)?;
            let tx = db.tx(true)?;
            tx.create_bucket("p")?.put("k", "v")?;
            tx.commit()
        });
        let _ = std::fs::remove_file(&path);
        matches!(ok, Ok(Ok(())))
    })
}

pub fn scripts(tier: Tier) -> Vec<Script> {
    let mut out = vec![];
    let small = |ps: u64, np: usize| Cfg { pagesize: ps, num_pages: np, ..Cfg::default() };
    // 1. first commits on a minimal 4-page file: growth (fallocate + remap) on the first commit
    out.push(Script {
        name: "growth-from-4-pages",
        cfg: small(1024, 4),
        actions: vec![
            tx(vec![OpSpec::bucket("create", &[], "a"), OpSpec::put(&["a"], "k1", "v*20")]),
            tx(vec![OpSpec::put(&["a"], "k2", "w*300"), OpSpec::put(&["a"], "k1", "v*25")]),
            tx(vec![OpSpec::del(&["a"], "k1")]),
        ],
    });
    // 2. update chain that frees and reuses pages
    let mut chain = vec![tx({
        let mut v = vec![OpSpec::bucket("create", &[], "b")];
        for k in crate::drivers::KV_KEYS {
            v.push(OpSpec::put(&["b"], k, "w*300"));
        }
        v
    })];
    for i in 0..5 {
        chain.push(tx(vec![OpSpec::put(&["b"], crate::drivers::KV_KEYS[i % 6], if i % 2 == 0 { "y*310" } else { "z*290" }), OpSpec::put(&["b"], crate::drivers::KV_KEYS[(i + 3) % 6], "u*300")]));
    }
    out.push(Script { name: "update-chain-page-reuse", cfg: small(1024, 64), actions: chain });
    // 2b. writable transactions committed without any change (a health check, a retried request
    // that found nothing to do) between page-reusing updates: the commit after such a no-change
    // commit must still leave every page of the current header alone until its own header is durable
    out.push(Script {
        name: "no-change-commits-between-updates",
        cfg: small(1024, 64),
        actions: vec![
            tx({
                let mut v = vec![OpSpec::bucket("create", &[], "b")];
                for k in crate::drivers::KV_KEYS {
                    v.push(OpSpec::put(&["b"], k, "w*300"));
                }
                v
            }),
            tx(vec![OpSpec::put(&["b"], crate::drivers::KV_KEYS[0], "y*310")]),
            tx(vec![]),
            tx(vec![OpSpec::put(&["b"], crate::drivers::KV_KEYS[3], "u*300")]),
            tx(vec![]),
            tx(vec![]),
            tx(vec![OpSpec::put(&["b"], crate::drivers::KV_KEYS[5], "z*290"), OpSpec::bucket("create", &[], "c")]),
            tx(vec![OpSpec::del(&["b"], crate::drivers::KV_KEYS[1])]),
        ],
    });
    // 3. large transaction with overflow values, then shrink
    out.push(Script {
        name: "overflow-values",
        cfg: small(1024, 64),
        actions: vec![
            tx(vec![OpSpec::bucket("create", &[], "o"), OpSpec::put(&["o"], "big1", "L*5000"), OpSpec::put(&["o"], "big2", "M*2500"), OpSpec::put(&["o"], "s", "v*8")]),
            tx(vec![OpSpec::put(&["o"], "big1", "v*8"), OpSpec::put(&["o"], "big3", "N*3000")]),
            tx(vec![OpSpec::del(&["o"], "big2"), OpSpec::del(&["o"], "big3")]),
        ],
    });
    // 4. nested buckets, bucket delete (frees many pages), re-create
    out.push(Script {
        name: "bucket-delete",
        cfg: small(1024, 64),
        actions: vec![
            tx({
                let mut v = vec![OpSpec::bucket("create", &[], "p"), OpSpec::bucket("create", &["p"], "q"), OpSpec::bucket("create", &[], "keep")];
                for i in 0..6 {
                    v.push(OpSpec::put(&["p", "q"], &format!("n{}", i), "w*300"));
                    v.push(OpSpec::put(&["p"], &format!("m{}", i), "v*100"));
                }
                v.push(OpSpec::put(&["keep"], "x", "v*50"));
                v
            }),
            tx(vec![OpSpec::bucket("delb", &["p"], "q"), OpSpec::put(&["keep"], "y", "v*50")]),
            tx(vec![OpSpec::bucket("delb", &[], "p")]),
            tx(vec![OpSpec::bucket("create", &[], "p"), OpSpec::put(&["p"], "again", "w*300")]),
        ],
    });
    // 5. splits and merges across commits
    out.push(Script {
        name: "split-merge",
        cfg: small(1024, 64),
        actions: vec![
            tx({
                let mut v = vec![OpSpec::bucket("create", &[], "t")];
                for i in 0..12 {
                    v.push(OpSpec::put(&["t"], &format!("s{:02}*200", 2 * i + 1), "v*10"));
                }
                v
            }),
            tx((0..6).map(|i| OpSpec::del(&["t"], &format!("s{:02}*200", 2 * i + 1))).collect()),
            tx((0..4).map(|i| OpSpec::put(&["t"], &format!("s{:02}*200", 2 * i), "v*10")).collect()),
        ],
    });
    // a free list that needs more than one page (more than 124 ids at page size 1024), three-level tree
    out.push(Script {
        name: "large-free-list",
        cfg: small(1024, 512),
        actions: vec![
            tx({
                let mut v = vec![OpSpec::bucket("create", &[], "f")];
                for i in 0..330 {
                    v.push(OpSpec::put(&["f"], &format!("f{:03}", i), "w*300"));
                }
                v
            }),
            tx((0..330).filter(|i| i % 11 != 0).map(|i| OpSpec::del(&["f"], &format!("f{:03}", i))).collect()),
            tx(vec![OpSpec::put(&["f"], "again", "x*1500"), OpSpec::del(&["f"], "f000")]),
            tx((0..40).map(|i| OpSpec::put(&["f"], &format!("g{:03}", i), "w*300")).collect()),
        ],
    });
    // every single-operation transaction of the kv alphabet on the two-level base, as second commit
    // (quick) and every pair of them as second and third commit (thorough)
    {
        let ops = crate::drivers::kv_ops(&crate::drivers::KV_KEYS, &crate::drivers::KV_VALS);
        let base = tx({
            let mut v = vec![OpSpec::bucket("create", &[], "b")];
            for k in crate::drivers::KV_KEYS {
                v.push(OpSpec::put(&["b"], k, "w*300"));
            }
            v
        });
        for (i, o1) in ops.iter().enumerate() {
            {
                for (j, o2) in ops.iter().enumerate() {
                    // quick: second operation from a representative third of the alphabet
                    if tier == Tier::Quick && !matches!(j, 1 | 8 | 15 | 18 | 21 | 23) {
                        continue;
                    }
                    out.push(Script { name: Box::leak(format!("kv2-{}-{}", i, j).into_boxed_str()), cfg: small(1024, 64), actions: vec![base.clone(), tx(vec![o1.clone()]), tx(vec![o2.clone()])] });
                }
            }
        }
    }
    // other page sizes (4096; 5000, whose second header slot does not start on a sector boundary)
    for (name, ps, third, big) in [("p4096-growth-and-reuse", 4096u64, "w*1200", "L*9000"), ("p5000-growth-and-reuse", 5000, "w*1500", "L*11000")] {
        out.push(Script {
            name,
            cfg: small(ps, 4),
            actions: vec![
                tx(vec![OpSpec::bucket("create", &[], "a"), OpSpec::put(&["a"], "k1", third), OpSpec::put(&["a"], "k2", third)]),
                tx(vec![OpSpec::put(&["a"], "k3", big), OpSpec::put(&["a"], "k1", "v*25")]),
                tx(vec![OpSpec::del(&["a"], "k3"), OpSpec::put(&["a"], "k4", third), OpSpec::put(&["a"], "k5", third), OpSpec::put(&["a"], "k6", third)]),
                tx(vec![OpSpec::del(&["a"], "k1"), OpSpec::del(&["a"], "k2")]),
            ],
        });
    }
    // a commit whose final sync fails (it reports an error, its header is in the file), then further
    // commits on the same handle, each of them crashed at every point
    {
        let acts = vec![
            tx({
                let mut v = vec![OpSpec::bucket("create", &[], "b")];
                for k in crate::drivers::KV_KEYS {
                    v.push(OpSpec::put(&["b"], k, "w*300"));
                }
                v
            }),
            tx(vec![OpSpec::put(&["b"], "k0", "y*310")]),
            Action::TxFail { ops: vec![OpSpec::put(&["b"], "k1", "z*290"), OpSpec::put(&["b"], "k4", "u*300")], call: 1001 },
            tx(vec![OpSpec::del(&["b"], "k2"), OpSpec::put(&["b"], "k5", "x*1500")]),
            tx(vec![OpSpec::put(&["b"], "k3", "y*310")]),
        ];
        out.push(Script { name: "failed-final-sync-then-commits", cfg: small(1024, 64), actions: acts });
    }
    // a file whose headers are in the legacy format (even and odd number of commits before): the
    // upgrade commit and the one after it
    for (name, extra) in [("legacy-headers-then-upgrade-2", 0usize), ("legacy-headers-then-upgrade-3", 1)] {
        let mut acts = vec![
            tx({
                let mut v = vec![OpSpec::bucket("create", &[], "b")];
                for k in crate::drivers::KV_KEYS {
                    v.push(OpSpec::put(&["b"], k, "w*300"));
                }
                v
            }),
            tx(vec![OpSpec::put(&["b"], "k0", "y*310"), OpSpec::put(&["b"], "k3", "u*300")]),
        ];
        for _ in 0..extra {
            acts.push(tx(vec![OpSpec::put(&["b"], "k1", "z*290")]));
        }
        acts.push(Action::LegacyHeaders);
        acts.push(tx(vec![OpSpec::put(&["b"], "k2", "y*310"), OpSpec::put(&["b"], "k5", "u*300")]));
        acts.push(tx(vec![OpSpec::put(&["b"], "k4", "z*290"), OpSpec::del(&["b"], "k0")]));
        out.push(Script { name, cfg: small(1024, 64), actions: acts });
    }
    // headers moved (with the handle closed) into the slots the pinned release would have used for
    // them - a no-op unless the rule that picks the slot of a commit has changed - then more commits:
    // a file written by the pinned release must be continued without ever overwriting the live header
    for (name, extra) in [("pinned-slots-then-updates", 0usize), ("pinned-slots-after-odd-commits-then-updates", 1)] {
        let mut acts = vec![
            tx({
                let mut v = vec![OpSpec::bucket("create", &[], "b")];
                for k in crate::drivers::KV_KEYS {
                    v.push(OpSpec::put(&["b"], k, "w*300"));
                }
                v
            }),
            tx(vec![OpSpec::put(&["b"], "k0", "y*310"), OpSpec::put(&["b"], "k3", "u*300")]),
        ];
        for _ in 0..extra {
            acts.push(tx(vec![OpSpec::put(&["b"], "k1", "z*290")]));
        }
        acts.push(Action::PinnedLayout);
        acts.push(tx(vec![OpSpec::put(&["b"], "k2", "y*310"), OpSpec::put(&["b"], "k5", "u*300")]));
        acts.push(tx(vec![OpSpec::put(&["b"], "k4", "z*290"), OpSpec::del(&["b"], "k0")]));
        out.push(Script { name, cfg: small(1024, 64), actions: acts });
    }
    // the same with the two header pages exchanged (a valid file whose newest header sits where a
    // rule based on the parity of the transaction id would not look for it)
    for (name, extra) in [("exchanged-slots-then-updates", 0usize), ("exchanged-slots-after-odd-commits-then-updates", 1)] {
        let mut acts = vec![
            tx({
                let mut v = vec![OpSpec::bucket("create", &[], "b")];
                for k in crate::drivers::KV_KEYS {
                    v.push(OpSpec::put(&["b"], k, "w*300"));
                }
                v
            }),
            tx(vec![OpSpec::put(&["b"], "k0", "y*310"), OpSpec::put(&["b"], "k3", "u*300")]),
        ];
        for _ in 0..extra {
            acts.push(tx(vec![OpSpec::put(&["b"], "k1", "z*290")]));
        }
        acts.push(Action::SwapSlots);
        acts.push(tx(vec![OpSpec::put(&["b"], "k2", "y*310"), OpSpec::put(&["b"], "k5", "u*300")]));
        acts.push(tx(vec![OpSpec::put(&["b"], "k4", "z*290"), OpSpec::del(&["b"], "k0")]));
        out.push(Script { name, cfg: small(1024, 64), actions: acts });
    }
    // the update chain on a handle opened with direct_writes (O_DIRECT): the same durability points
    // (skipped where the file system refuses such an open)
    if direct_open_works() {
        let mut chain = vec![tx({
            let mut v = vec![OpSpec::bucket("create", &[], "b")];
            for k in crate::drivers::KV_KEYS {
                v.push(OpSpec::put(&["b"], k, "w*300"));
            }
            v
        })];
        for i in 0..3 {
            chain.push(tx(vec![OpSpec::put(&["b"], crate::drivers::KV_KEYS[i % 6], if i % 2 == 0 { "y*310" } else { "z*290" }), OpSpec::put(&["b"], crate::drivers::KV_KEYS[(i + 3) % 6], "u*300")]));
        }
        out.push(Script { name: "direct-writes-update-chain", cfg: Cfg { pagesize: 1024, num_pages: 64, direct: true, ..Cfg::default() }, actions: chain });
    }
    // the persisted free list walked across the capacity of one list page (123 ids at page size
    // 1024), one delete per commit with a reopen in between: the commits around the exact fit are
    // crashed at every point (the two bulk commits that build the state are not enumerated)
    out.push(Script { name: "flb-free-list-across-one-page", cfg: small(1024, 64), actions: crate::optx::freelist_boundary_walk(1024, 2) });
    // page sizes that are not multiples of the 512-byte sector: two-entry leaves that end within the
    // last bytes of their second page, rewritten into freed pages next to live ones
    for (name, ps, a, b) in [("p5000-nodes-ending-near-a-page-end", 5000u64, "c*4900", "d*4900"), ("p1032-nodes-ending-near-a-page-end", 1032, "c*980", "d*980")] {
        let mut first = vec![OpSpec::bucket("create", &[], "a")];
        for i in 1..=6 {
            first.push(OpSpec::put(&["a"], &format!("k{}", i), a));
        }
        out.push(Script {
            name,
            cfg: small(ps, 64),
            actions: vec![
                tx(first),
                tx(vec![OpSpec::put(&["a"], "k1", b)]),
                tx(vec![OpSpec::put(&["a"], "k1", a)]),
                tx(vec![OpSpec::put(&["a"], "k3", b)]),
                tx(vec![OpSpec::del(&["a"], "k5"), OpSpec::put(&["a"], "k1", b)]),
                tx(vec![OpSpec::put(&["a"], "k6", b), OpSpec::put(&["a"], "k2", b)]),
            ],
        });
    }
    if tier == Tier::Thorough {
        // a longer chain at 1024 with a reopen in the middle (pending pages become free)
        let mut chain = vec![tx({
            let mut v = vec![OpSpec::bucket("create", &[], "b"), OpSpec::bucket("create", &["b"], "n")];
            for k in crate::drivers::KV_KEYS {
                v.push(OpSpec::put(&["b"], k, "w*300"));
                v.push(OpSpec::put(&["b", "n"], k, "v*60"));
            }
            v
        })];
        for i in 0..8 {
            if i == 4 {
                chain.push(Action::Reopen);
            }
            chain.push(tx(vec![OpSpec::put(&["b"], crate::drivers::KV_KEYS[i % 6], if i % 3 == 0 { "x*1500" } else { "z*290" }), OpSpec::del(&["b", "n"], crate::drivers::KV_KEYS[i % 6]), OpSpec::put(&["b", "n"], &format!("new{}", i), "w*300")]));
        }
        out.push(Script { name: "long-chain-with-reopen", cfg: small(1024, 64), actions: chain });
    }
    out
}

/// One mutating file operation of a commit.
#[derive(Clone, Debug)]
pub enum FOp {
    Write { off: u64, data: Vec<u8> },
    Extend { len: u64 },
}

#[derive(Clone, Debug)]
pub struct ImageSpec {
    pub epoch: usize,
    /// which ops of the crash epoch reached the device
    pub present: Vec<bool>,
    /// (op index, unit size, which units of that write reached the device); overrides `present`
    pub torn: Option<(usize, usize, Vec<bool>)>,
    pub class: &'static str,
}

impl ImageSpec {
    pub fn to_json(&self) -> Value {
        json!({"epoch": self.epoch, "present": self.present.iter().map(|b| *b as u8).collect::<Vec<_>>(), "torn": self.torn.as_ref().map(|(k, u, m)| json!({"op": k, "unit": u, "units_present": m.iter().map(|b| *b as u8).collect::<Vec<_>>()})), "class": self.class})
    }
    pub fn from_json(v: &Value) -> ImageSpec {
        ImageSpec {
            epoch: v["epoch"].as_u64().unwrap() as usize,
            present: v["present"].as_array().unwrap().iter().map(|x| x.as_u64() == Some(1)).collect(),
            torn: if v["torn"].is_null() { None } else { Some((v["torn"]["op"].as_u64().unwrap() as usize, v["torn"]["unit"].as_u64().unwrap() as usize, v["torn"]["units_present"].as_array().unwrap().iter().map(|x| x.as_u64() == Some(1)).collect())) },
            class: "replayed",
        }
    }
}

pub struct CommitTrace {
    pub pre_image: Vec<u8>,
    pub pre_len: u64,
    /// epochs of ops, separated by completed fsyncs
    pub epochs: Vec<Vec<FOp>>,
    pub pre: BucketM,
    pub post: BucketM,
    pub pagesize: u64,
}

/// File state as (content prefix, length).
#[derive(Clone)]
pub struct FileState {
    pub bytes: Vec<u8>,
    pub len: u64,
}

impl FileState {
    fn apply_write(&mut self, off: u64, data: &[u8]) {
        let end = off as usize + data.len();
        if self.bytes.len() < end {
            self.bytes.resize(end, 0);
        }
        self.bytes[off as usize..end].copy_from_slice(data);
        self.len = self.len.max(end as u64);
    }
    fn apply(&mut self, op: &FOp) {
        match op {
            FOp::Write { off, data } => self.apply_write(*off, data),
            FOp::Extend { len } => self.len = self.len.max(*len),
        }
    }
}

/// set by the worker: the quick tier leaves out the quadratic deviation class of very long epochs
pub static QUICK_TIER: std::sync::atomic::AtomicBool = std::sync::atomic::AtomicBool::new(false);

impl CommitTrace {
    /// Durable state at the start of `epoch`.
    pub fn durable(&self, epoch: usize) -> FileState {
        let mut st = FileState { bytes: self.pre_image.clone(), len: self.pre_len };
        for e in 0..epoch {
            for op in &self.epochs[e] {
                st.apply(op);
            }
        }
        st
    }

    pub fn image(&self, spec: &ImageSpec) -> FileState {
        let mut st = self.durable(spec.epoch);
        let ops = &self.epochs[spec.epoch];
        for (i, op) in ops.iter().enumerate() {
            if let Some((k, unit, mask)) = &spec.torn {
                if *k == i {
                    if let FOp::Write { off, data } = op {
                        for (u, present) in mask.iter().enumerate() {
                            if *present {
                                let a = u * unit;
                                let b = ((u + 1) * unit).min(data.len());
                                if a < b {
                                    st.apply_write(off + a as u64, &data[a..b]);
                                }
                            }
                        }
                    }
                    continue;
                }
            }
            if spec.present[i] {
                st.apply(op);
            }
        }
        st
    }

    /// Every crash image of the bounded model for this commit.
    pub fn enumerate(&self) -> (Vec<ImageSpec>, bool) {
        let mut out = vec![];
        let mut capped = false;
        for (e, ops) in self.epochs.iter().enumerate() {
            let n = ops.len();
            if n == 0 {
                continue;
            }
            // power loss: every subset of the ops issued since the last completed sync
            if n <= 14 {
                for mask in 0u32..(1 << n) {
                    out.push(ImageSpec { epoch: e, present: (0..n).map(|i| mask >> i & 1 == 1).collect(), torn: None, class: "subset" });
                }
            } else {
                capped = true;
                for base in [false, true] {
                    out.push(ImageSpec { epoch: e, present: vec![base; n], torn: None, class: "subset-dev0" });
                    for i in 0..n {
                        let mut p = vec![base; n];
                        p[i] = !base;
                        out.push(ImageSpec { epoch: e, present: p.clone(), torn: None, class: "subset-dev1" });
                        // pairs: for epochs of more than 40 ops only in the thorough tier
                        if n > 40 && QUICK_TIER.load(std::sync::atomic::Ordering::Relaxed) {
                            continue;
                        }
                        for j in i + 1..n {
                            let mut q = p.clone();
                            q[j] = !base;
                            out.push(ImageSpec { epoch: e, present: q, torn: None, class: "subset-dev2" });
                        }
                    }
                }
                // process kill: every prefix
                for j in 0..=n {
                    out.push(ImageSpec { epoch: e, present: (0..n).map(|i| i < j).collect(), torn: None, class: "kill-prefix" });
                }
            }
            let durable = self.durable(e);
            for (k, op) in ops.iter().enumerate() {
                if let FOp::Write { off, data } = op {
                    let nsec = (data.len() + 511) / 512;
                    let is_header = *off < 2 * self.pagesize;
                    if nsec > 1 {
                        // process kill inside this write: earlier ops done, later ops not issued
                        for p in 1..nsec {
                            out.push(ImageSpec { epoch: e, present: (0..n).map(|i| i < k).collect(), torn: Some((k, 512, (0..nsec).map(|s| s < p).collect())), class: "kill-torn-prefix" });
                        }
                        // power loss: sector tears, with everything else present / absent
                        let mut pats: Vec<Vec<bool>> = vec![];
                        for p in 1..nsec {
                            pats.push((0..nsec).map(|s| s < p).collect());
                            pats.push((0..nsec).map(|s| s >= p).collect());
                        }
                        for s in 0..nsec {
                            pats.push((0..nsec).map(|x| x != s).collect());
                            pats.push((0..nsec).map(|x| x == s).collect());
                        }
                        pats.sort();
                        pats.dedup();
                        for others in [true, false] {
                            for m in &pats {
                                out.push(ImageSpec { epoch: e, present: vec![others; n], torn: Some((k, 512, m.clone())), class: "torn-sectors" });
                            }
                        }
                    }
                    if is_header {
                        // header record torn at 8-byte words: all mixes of old and new over the differing words
                        let old: Vec<u8> = (0..data.len()).map(|i| durable.bytes.get(*off as usize + i).copied().unwrap_or(0)).collect();
                        let nwords = (data.len() + 7) / 8;
                        let diff: Vec<usize> = (0..nwords).filter(|w| { let a = w * 8; let b = ((w + 1) * 8).min(data.len()); old[a..b] != data[a..b] }).collect();
                        let w = diff.len().min(12);
                        let mut contexts: Vec<Vec<bool>> = vec![vec![true; n], vec![false; n]];
                        for i in 0..n {
                            if i != k {
                                let mut c = vec![true; n];
                                c[i] = false;
                                contexts.push(c);
                            }
                        }
                        for mask in 1u32..((1u32 << w) - 1) {
                            let mut units = vec![false; nwords];
                            for (bi, wi) in diff.iter().take(w).enumerate() {
                                units[*wi] = mask >> bi & 1 == 1;
                            }
                            for c in &contexts {
                                out.push(ImageSpec { epoch: e, present: c.clone(), torn: Some((k, 8, units.clone())), class: "torn-header-words" });
                            }
                        }
                    }
                }
            }
        }
        // everything durable: the commit had returned
        out.push(ImageSpec { epoch: self.epochs.len() - 1, present: vec![true; self.epochs.last().map(|e| e.len()).unwrap_or(0)], torn: None, class: "complete" });
        (out, capped)
    }
}

/// Runs `script` up to and including step `step` and returns the trace of that step's commit.
pub fn trace_commit(script: &Script, path: &str, step: usize) -> Result<CommitTrace, String> {
    let mut r = Runner::new(path, script.cfg.clone())?;
    for a in &script.actions[..step] {
        let v = r.step(a, &Oracles::NONE);
        if !v.is_empty() || r.poisoned {
            return Err(format!("script prefix failed: {:?}", v));
        }
    }
    let pre = r.model.clone();
    let pre_full = std::fs::read(path).map_err(|e| e.to_string())?;
    let pre_len = pre_full.len() as u64;
    // keep only the prefix that can be non-zero
    let hw = pre_full.iter().rposition(|b| *b != 0).map(|p| p + 1).unwrap_or(0);
    let (v, events) = iosim::logged(|| r.step(&script.actions[step], &Oracles::NONE));
    if !v.is_empty() || r.poisoned {
        return Err(format!("target step failed: {:?}", v));
    }
    let post = r.model.clone();
    let mut epochs: Vec<Vec<FOp>> = vec![vec![]];
    for ev in events {
        match ev {
            IoEvent::Write { off, data } => epochs.last_mut().unwrap().push(FOp::Write { off, data }),
            IoEvent::Fallocate { off, len } => epochs.last_mut().unwrap().push(FOp::Extend { len: off + len }),
            IoEvent::Ftruncate { len } => epochs.last_mut().unwrap().push(FOp::Extend { len }),
            IoEvent::Fsync => epochs.push(vec![]),
            _ => {}
        }
    }
    // ops after the last fsync (none in a correct commit) stay as a trailing, never-synced epoch
    if epochs.last().map(|e| e.is_empty()).unwrap_or(false) {
        epochs.pop();
    } else {
        // mark: trailing unsynced ops exist; they are enumerated like any epoch
    }
    if epochs.is_empty() {
        epochs.push(vec![]);
    }
    Ok(CommitTrace { pre_image: pre_full[..hw].to_vec(), pre_len, epochs, pre, post, pagesize: script.cfg.pagesize })
}

pub fn write_image(path: &str, st: &FileState) {
    use std::os::unix::fs::FileExt;
    let _ = std::fs::remove_file(path);
    let f = std::fs::File::create(path).unwrap();
    let n = (st.bytes.len() as u64).min(st.len) as usize;
    f.write_all_at(&st.bytes[..n], 0).unwrap();
    f.set_len(st.len).unwrap();
}

/// Opens the image with the real library and judges it.
pub fn judge(cfg: &Cfg, path: &str, st: &FileState, pre: &BucketM, post: &BucketM, must_be_post: bool) -> Option<(String, String)> {
    write_image(path, st);
    let r = guarded(|| -> Result<(BucketM, Result<(), String>), String> {
        let db = cfg.open(path).map_err(|e| format!("open returned {:?}", e))?;
        let tx = db.tx(false).map_err(|e| format!("tx: {:?}", e))?;
        let d = real::dump_tx(&tx)?;
        drop(tx);
        let chk = db.check().map_err(|e| format!("{:?}", e));
        Ok((d, chk))
    });
    match r {
        Ok(Ok((got, chk))) => {
            let is_pre = got.same_contents(pre);
            let is_post = got.same_contents(post);
            if must_be_post && !is_post {
                return Some(("durability".into(), format!("the commit had returned (all syncs completed) but the reopened file shows {}: {}", if is_pre { "the previous state" } else { "neither state" }, got.diff(post).unwrap_or_default())));
            }
            if !is_pre && !is_post {
                return Some(("mixed_state".into(), format!("reopened contents equal neither the state before nor after the interrupted commit; vs before: {}; vs after: {}", got.diff(pre).unwrap_or_default(), got.diff(post).unwrap_or_default())));
            }
            if let Err(e) = chk {
                return Some(("dbcheck".into(), format!("contents are a committed state but DB::check() says {}", e)));
            }
            // structural soundness for the header a correct implementation selects
            let bytes = &st.bytes[..(st.bytes.len() as u64).min(st.len) as usize];
            let mut padded;
            let needed = fileck::choose_meta(bytes, cfg.pagesize).map(|m| m.num_pages.saturating_mul(cfg.pagesize)).unwrap_or(0);
            let view: &[u8] = if (bytes.len() as u64) < needed && needed <= st.len && needed < (256 << 20) {
                padded = bytes.to_vec();
                padded.resize(needed as usize, 0);
                &padded
            } else {
                bytes
            };
            match fileck::check(view, cfg.pagesize) {
                Ok(rep) => {
                    if !rep.ok() {
                        return Some(("fileck".into(), format!("contents are a committed state but the file is not well-formed: {}", rep.errors[0])));
                    }
                    if !rep.contents.same_contents(&got) {
                        return Some(("fileck_contents".into(), "the independent reader sees different contents than the library".into()));
                    }
                }
                Err(e) => return Some(("fileck".into(), e)),
            }
            None
        }
        Ok(Err(e)) => Some((if e.starts_with("open returned") { "open_error".into() } else { "read_error".into() }, e)),
        Err(p) => Some((crate::runner::panic_class("open_panic", &p), p)),
    }
}

/// Second-level crashes: crash inside this commit with the header write torn front-to-back or
/// back-to-front, recover with the real library, run one more commit, crash again in every way of
/// the bounded model, recover again.  The second recovery must show the state before or after that
/// second commit.
/// Recovers `st` with the real library (must show `pre` or `post`), runs `follow` on it with its
/// I/O logged and returns the trace of that commit.
fn commit_on_image(sc: &Script, path: &str, st: &FileState, pre: &BucketM, post: &BucketM, follow: &Action) -> Result<Option<CommitTrace>, String> {
    write_image(path, st);
    let cfg = sc.cfg.clone();
    let state1 = match guarded(|| -> Result<BucketM, String> {
        let db = cfg.open(path).map_err(|e| format!("{:?}", e))?;
        let tx = db.tx(false).map_err(|e| format!("{:?}", e))?;
        real::dump_tx(&tx)
    }) {
        Ok(Ok(m)) => m,
        _ => return Ok(None), // reported by the enumeration one level up
    };
    let model1 = if state1.same_contents(pre) {
        pre.clone()
    } else if state1.same_contents(post) {
        post.clone()
    } else {
        return Ok(None);
    };
    write_image(path, st);
    let mut r = match Runner::adopt(path, sc.cfg.clone(), model1.clone()) {
        Ok(r) => r,
        Err(_) => return Ok(None),
    };
    let pre_full = std::fs::read(path).unwrap_or_default();
    let pre_len = pre_full.len() as u64;
    let hw = pre_full.iter().rposition(|b| *b != 0).map(|p| p + 1).unwrap_or(0);
    let (v, events) = iosim::logged(|| r.step(follow, &Oracles::NONE));
    if !v.is_empty() || r.poisoned {
        return Err(format!("{:?}", v.iter().map(|x| x.class.clone()).collect::<Vec<_>>()));
    }
    let post2 = r.model.clone();
    drop(r);
    let mut epochs: Vec<Vec<FOp>> = vec![vec![]];
    for ev in events {
        match ev {
            IoEvent::Write { off, data } => epochs.last_mut().unwrap().push(FOp::Write { off, data }),
            IoEvent::Fallocate { off, len } => epochs.last_mut().unwrap().push(FOp::Extend { len: off + len }),
            IoEvent::Ftruncate { len } => epochs.last_mut().unwrap().push(FOp::Extend { len }),
            IoEvent::Fsync => epochs.push(vec![]),
            _ => {}
        }
    }
    if epochs.last().map(|e| e.is_empty()).unwrap_or(false) {
        epochs.pop();
    }
    if epochs.is_empty() {
        return Ok(None);
    }
    Ok(Some(CommitTrace { pre_image: pre_full[..hw].to_vec(), pre_len, epochs, pre: model1, post: post2, pagesize: sc.cfg.pagesize }))
}

fn header_tear_only(sp: &ImageSpec) -> bool {
    sp.class == "torn-header-words" && sp.present.iter().enumerate().all(|(i, p)| *p || sp.torn.as_ref().map(|t| t.0 == i).unwrap_or(false))
}

/// Three power losses in a row: (1) a header write torn from the front or from the back (the slot
/// is invalid afterwards, so the next commit wipes it before writing); (2) after recovery and one
/// more commit, the header written over the wiped slot is torn with exactly one of its words
/// missing, or contiguously; (3) after another recovery and commit, every header tear / subset.
fn level3(sc: &Script, trace: &CommitTrace, path: &str, part: usize, parts: usize, emit: &mut dyn FnMut(&str)) -> Value {
    let (specs, _) = trace.enumerate();
    let contiguous = |units: &Vec<bool>| -> bool {
        let idx: Vec<usize> = units.iter().enumerate().filter(|(_, u)| **u).map(|(i, _)| i).collect();
        !idx.is_empty() && idx.len() == idx[idx.len() - 1] - idx[0] + 1
    };
    // (1): two representatives, the front half and the back half of the differing words
    let mut firsts: Vec<&ImageSpec> = vec![];
    for want_front in [true, false] {
        let mut best: Option<&ImageSpec> = None;
        for sp in specs.iter().filter(|sp| header_tear_only(sp)) {
            if let Some((_, _, units)) = &sp.torn {
                let idx: Vec<usize> = units.iter().enumerate().filter(|(_, u)| **u).map(|(i, _)| i).collect();
                let all: Vec<usize> = specs.iter().filter(|x| header_tear_only(x)).filter_map(|x| x.torn.as_ref()).flat_map(|t| t.2.iter().enumerate().filter(|(_, u)| **u).map(|(i, _)| i).collect::<Vec<_>>()).collect();
                let (lo, hi) = (all.iter().min().copied().unwrap_or(0), all.iter().max().copied().unwrap_or(0));
                if !contiguous(units) || idx.len() < 2 {
                    continue;
                }
                let front = idx[0] == lo && idx[idx.len() - 1] < hi;
                let back = idx[idx.len() - 1] == hi && idx[0] > lo;
                if (want_front && front || !want_front && back) && best.map(|b| b.torn.as_ref().unwrap().2.iter().filter(|u| **u).count() < idx.len() && idx.len() <= 6).unwrap_or(true) {
                    best = Some(sp);
                }
            }
        }
        if let Some(b) = best {
            firsts.push(b);
        }
    }
    let follow_a = Action::Tx { ops: vec![OpSpec::bucket("goc", &[], "l2"), OpSpec::put(&["l2"], "k", "w*300"), OpSpec::put(&["l2"], "k2", "v*20")], commit: true };
    let follow_b = Action::Tx { ops: vec![OpSpec::bucket("goc", &[], "l3"), OpSpec::put(&["l3"], "m", "y*310"), OpSpec::put(&["l3"], "m2", "v*25")], commit: true };
    let mut viols = vec![];
    let mut generated = 0u64;
    let mut probed = 0u64;
    let mut seconds = 0u64;
    let mut seen: HashSet<u128> = HashSet::new();
    for sp1 in firsts.iter() {
        let st1 = trace.image(sp1);
        let t2 = match commit_on_image(sc, path, &st1, &trace.pre, &trace.post, &follow_a) {
            Ok(Some(t)) => t,
            _ => continue, // level 2 reports it
        };
        let (specs2, _) = t2.enumerate();
        for sp2 in specs2.iter().filter(|sp| header_tear_only(sp)) {
            let units = &sp2.torn.as_ref().unwrap().2;
            let present = units.iter().filter(|u| **u).count();
            let total = specs2.iter().filter(|x| header_tear_only(x)).filter_map(|x| x.torn.as_ref()).map(|t| t.2.iter().filter(|u| **u).count()).max().unwrap_or(0) + 1;
            if !(present + 1 == total || contiguous(units)) {
                continue;
            }
            seconds += 1;
            if seconds as usize % parts != part {
                continue;
            }
            let st2 = t2.image(sp2);
            let t3 = match commit_on_image(sc, path, &st2, &t2.pre, &t2.post, &follow_b) {
                Ok(Some(t)) => t,
                Ok(None) => continue,
                Err(e) => {
                    if viols.len() < 50 {
                        viols.push(json!([0, "third_level:commit_after_recovery", format!("after two torn headers and two recoveries the next commit failed: {}", e), json!({"first": sp1.to_json(), "second": sp2.to_json()})]));
                    }
                    continue;
                }
            };
            let (specs3, _) = t3.enumerate();
            for (k, sp3) in specs3.iter().enumerate() {
                if !(sp3.class == "torn-header-words" || sp3.class == "complete" || sp3.class == "subset") {
                    continue;
                }
                generated += 1;
                let st3 = t3.image(sp3);
                let mut hb = st3.bytes.clone();
                hb.extend_from_slice(&st3.len.to_le_bytes());
                let must_be_post = sp3.class == "complete";
                if !seen.insert(hash128(&hb) ^ must_be_post as u128) {
                    continue;
                }
                if probed % 64 == 0 {
                    emit(&format!("l3 {}", k));
                }
                probed += 1;
                if let Some((c, d)) = judge(&sc.cfg, path, &st3, &t3.pre, &t3.post, must_be_post) {
                    if viols.len() < 50 {
                        viols.push(json!([k, format!("third_crash:{}", c), format!("first crash: header write torn ({}); recovered; one more commit, its header torn ({}); recovered; one more commit; third crash image class {}: {}", sp1.to_json()["torn"], sp2.to_json()["torn"], sp3.class, d), json!({"first": sp1.to_json(), "second": sp2.to_json(), "third": sp3.to_json()})]));
                    }
                }
            }
        }
    }
    let mut classes = serde_json::Map::new();
    classes.insert("third-level".into(), json!(generated));
    json!({"generated": generated, "probed": probed, "capped": false, "v": viols, "ops_per_epoch": trace.epochs.iter().map(|e| e.len()).collect::<Vec<_>>(), "saw_pre": 0, "saw_post": 0, "classes": classes, "level3_second_images": seconds})
}

fn level2(sc: &Script, trace: &CommitTrace, path: &str, part: usize, parts: usize, emit: &mut dyn FnMut(&str)) -> Value {
    let (specs, _) = trace.enumerate();
    let mut firsts: Vec<&ImageSpec> = vec![];
    for sp in &specs {
        if sp.class != "torn-header-words" || !sp.present.iter().enumerate().all(|(i, p)| *p || sp.torn.as_ref().map(|t| t.0 == i).unwrap_or(false)) {
            continue;
        }
        if let Some((_, _, units)) = &sp.torn {
            // contiguous from the front or from the back over the words that differ
            let idx: Vec<usize> = units.iter().enumerate().filter(|(_, u)| **u).map(|(i, _)| i).collect();
            let set: Vec<usize> = (0..units.len()).collect();
            let _ = set;
            let first = *idx.first().unwrap_or(&0);
            let last = *idx.last().unwrap_or(&0);
            let contiguous = idx.len() == last - first + 1;
            if contiguous {
                firsts.push(sp);
            }
        }
    }
    let follow = Action::Tx { ops: vec![OpSpec::bucket("goc", &[], "l2"), OpSpec::put(&["l2"], "k", "w*300"), OpSpec::put(&["l2"], "k2", "v*20")], commit: true };
    let mut viols = vec![];
    let mut generated = 0u64;
    let mut probed = 0u64;
    let mut seen: HashSet<u128> = HashSet::new();
    for (fi, sp1) in firsts.iter().enumerate() {
        if fi % parts != part {
            continue;
        }
        let st1 = trace.image(sp1);
        write_image(path, &st1);
        // recover and find out which state it is
        let cfg = sc.cfg.clone();
        let state1 = match guarded(|| -> Result<BucketM, String> {
            let db = cfg.open(path).map_err(|e| format!("{:?}", e))?;
            let tx = db.tx(false).map_err(|e| format!("{:?}", e))?;
            real::dump_tx(&tx)
        }) {
            Ok(Ok(m)) => m,
            _ => continue, // reported by the first-level enumeration
        };
        let model1 = if state1.same_contents(&trace.pre) {
            trace.pre.clone()
        } else if state1.same_contents(&trace.post) {
            trace.post.clone()
        } else {
            continue;
        };
        // one more commit on the recovered file, with its I/O logged
        write_image(path, &st1);
        let mut r = match Runner::adopt(path, sc.cfg.clone(), model1.clone()) {
            Ok(r) => r,
            Err(_) => continue,
        };
        let pre_full = std::fs::read(path).unwrap_or_default();
        let pre_len = pre_full.len() as u64;
        let hw = pre_full.iter().rposition(|b| *b != 0).map(|p| p + 1).unwrap_or(0);
        let (v, events) = iosim::logged(|| r.step(&follow, &Oracles::NONE));
        if !v.is_empty() || r.poisoned {
            viols.push(json!([fi, "commit_after_recovery", format!("after recovering from a torn header the next commit failed: {:?}", v.iter().map(|x| x.class.clone()).collect::<Vec<_>>()), sp1.to_json()]));
            continue;
        }
        let post2 = r.model.clone();
        drop(r);
        let mut epochs: Vec<Vec<FOp>> = vec![vec![]];
        for ev in events {
            match ev {
                IoEvent::Write { off, data } => epochs.last_mut().unwrap().push(FOp::Write { off, data }),
                IoEvent::Fallocate { off, len } => epochs.last_mut().unwrap().push(FOp::Extend { len: off + len }),
                IoEvent::Ftruncate { len } => epochs.last_mut().unwrap().push(FOp::Extend { len }),
                IoEvent::Fsync => epochs.push(vec![]),
                _ => {}
            }
        }
        if epochs.last().map(|e| e.is_empty()).unwrap_or(false) {
            epochs.pop();
        }
        if epochs.is_empty() {
            continue;
        }
        let t2 = CommitTrace { pre_image: pre_full[..hw].to_vec(), pre_len, epochs, pre: model1, post: post2, pagesize: sc.cfg.pagesize };
        let (specs2, _) = t2.enumerate();
        for (k, sp2) in specs2.iter().enumerate() {
            if !(sp2.class == "torn-header-words" || sp2.class == "complete" || sp2.class == "subset") {
                continue;
            }
            generated += 1;
            let st2 = t2.image(sp2);
            let mut hb = st2.bytes.clone();
            hb.extend_from_slice(&st2.len.to_le_bytes());
            let must_be_post = sp2.class == "complete";
            if !seen.insert(hash128(&hb) ^ must_be_post as u128) {
                continue;
            }
            emit(&format!("l2 {} {}", fi, k));
            probed += 1;
            if let Some((c, d)) = judge(&sc.cfg, path, &st2, &t2.pre, &t2.post, must_be_post) {
                if viols.len() < 50 {
                    viols.push(json!([k, format!("second_crash:{}", c), format!("first crash: header write torn ({}); recovered; one more commit; second crash image class {}: {}", sp1.to_json()["torn"], sp2.class, d), json!({"first": sp1.to_json(), "second": sp2.to_json()})]));
                }
            }
        }
    }
    let mut classes = serde_json::Map::new();
    classes.insert("second-level".into(), json!(generated));
    json!({"generated": generated, "probed": probed, "capped": false, "v": viols, "ops_per_epoch": trace.epochs.iter().map(|e| e.len()).collect::<Vec<_>>(), "saw_pre": 0, "saw_post": 0, "classes": classes, "level2_first_images": firsts.len()})
}

pub fn worker(idx: usize) {
    real::install_quiet_panic_hook();
    let scratch = report::scratch_dir();
    iosim::set_track_prefix(&scratch);
    let dir = format!("{}/c{}", scratch, idx);
    std::fs::create_dir_all(&dir).ok();
    let path = format!("{}/crashx.db", dir);
    crate::pool::serve(|init, job, emit| {
        let iv: Value = serde_json::from_str(init).unwrap();
        let tier = if iv["tier"].as_str() == Some("thorough") { Tier::Thorough } else { Tier::Quick };
        QUICK_TIER.store(tier == Tier::Quick, std::sync::atomic::Ordering::Relaxed);
        let scs = scripts(tier);
        let j: Value = serde_json::from_str(job).unwrap();
        let si = j["script"].as_u64().unwrap() as usize;
        let step = j["step"].as_u64().unwrap() as usize;
        let part = j["part"].as_u64().unwrap() as usize;
        let parts = j["parts"].as_u64().unwrap() as usize;
        let sc = &scs[si];
        // traces are computed on a fresh thread so that hash-map orders (and with them page
        // numbers) are the same in every worker and in a replay
        let path2 = path.clone();
        let trace = crate::fresh::on_fresh_thread(move || {
            let scs = scripts(tier);
            trace_commit(&scs[si], &path2, step)
        });
        let trace = match trace {
            Ok(Ok(t)) => t,
            Ok(Err(e)) => return json!({"err": e}).to_string(),
            Err(_) => return json!({"err": "trace thread panicked"}).to_string(),
        };
        if j["shortok"].as_bool().unwrap_or(false) {
            // not a crash: every write of this commit answered short once (no error); the commit must
            // succeed and its effects must be complete (they "survive" only if they were written)
            let v = crate::faultx::benign_short_writes(sc, &path, step);
            let viols: Vec<Value> = v.iter().map(|(ci, c, d)| json!([ci, c, d, json!({"short_ok": true})])).collect();
            return json!({"generated": v.len(), "probed": v.len(), "capped": false, "v": viols, "ops_per_epoch": [], "saw_pre": 0, "saw_post": 0, "classes": {"short-write-ok": 1}}).to_string();
        }
        if j["level2"].as_bool().unwrap_or(false) {
            return level2(sc, &trace, &path, part, parts, emit).to_string();
        }
        if j["level3"].as_bool().unwrap_or(false) {
            return level3(sc, &trace, &path, part, parts, emit).to_string();
        }
        let (specs, capped) = trace.enumerate();
        let last_epoch = trace.epochs.len() - 1;
        let mut seen: HashSet<u128> = HashSet::new();
        let mut viols = vec![];
        let mut probed = 0u64;
        let mut generated = 0u64;
        let mut outcomes = [0u64; 2];
        let mut classes: std::collections::BTreeMap<&str, u64> = Default::default();
        for (k, spec) in specs.iter().enumerate() {
            if k % parts != part {
                continue;
            }
            generated += 1;
            *classes.entry(spec.class).or_insert(0) += 1;
            let st = trace.image(spec);
            let mut hb = st.bytes.clone();
            hb.extend_from_slice(&st.len.to_le_bytes());
            let must_be_post = spec.class == "complete";
            if !seen.insert(hash128(&hb) ^ must_be_post as u128) {
                continue;
            }
            emit(&k.to_string());
            probed += 1;
            let _ = last_epoch;
            match judge(&sc.cfg, &path, &st, &trace.pre, &trace.post, must_be_post) {
                Some((c, d)) => viols.push(json!([k, c, d, spec.to_json()])),
                None => {
                    // which state was shown? (re-derive cheaply from the header the checker selects)
                    let b = &st.bytes;
                    if let Ok(m) = fileck::choose_meta(b, sc.cfg.pagesize) {
                        let pre_tx = fileck::choose_meta(&trace.pre_image, sc.cfg.pagesize).map(|m| m.tx_id).unwrap_or(0);
                        outcomes[(m.tx_id > pre_tx) as usize] += 1;
                    }
                }
            }
        }
        json!({"generated": generated, "probed": probed, "capped": capped, "v": viols, "ops_per_epoch": trace.epochs.iter().map(|e| e.len()).collect::<Vec<_>>(), "saw_pre": outcomes[0], "saw_post": outcomes[1], "classes": classes}).to_string()
    });
}

pub fn run(check: &mut Check) {
    let tier = check.tier;
    let scs = scripts(tier);
    let scratch = report::scratch_dir();
    std::env::set_var("VCHECK_ENTROPY_SEED", check.seed.max(1).to_string());
    let init = json!({"tier": tier.name()}).to_string();
    let mut pool = Pool::new("crashx", &init, report::ncpu(), &scratch);
    // generous: a job that runs into this limit is reported as a hang of the library, and on a busy
    // machine the largest commits' jobs took more than the default two minutes
    pool.job_timeout = std::time::Duration::from_secs(900);
    let parts = 8usize;
    let mut jobs = vec![];
    let mut meta = vec![];
    let only = std::env::var("VCHECK_ONLY_SCRIPT").ok();
    for (si, sc) in scs.iter().enumerate() {
        if only.as_ref().map(|o| !sc.name.contains(o.as_str())).unwrap_or(false) {
            continue;
        }
        for (step, a) in sc.actions.iter().enumerate() {
            if !matches!(a, Action::Tx { commit: true, .. }) {
                continue;
            }
            if sc.name.starts_with("flb-") && step < 2 {
                continue;
            }
            if sc.name.starts_with("flb-") && tier == Tier::Quick {
                // quick: every commit of the walk with each of its writes cut short once (the commit
                // must succeed and leave a sound file); crash images for the commits around the exact fit
                jobs.push(json!({"script": si, "step": step, "part": 0, "parts": 1, "shortok": true}).to_string());
                meta.push((si, step, 970));
                if (14..=22).contains(&step) {
                    for part in 0..2 {
                        jobs.push(json!({"script": si, "step": step, "part": part, "parts": 2}).to_string());
                        meta.push((si, step, part));
                    }
                }
                continue;
            }
            for part in 0..parts {
                jobs.push(json!({"script": si, "step": step, "part": part, "parts": parts}).to_string());
                meta.push((si, step, part));
            }
            if !(sc.name.starts_with("kv2-") || sc.name.starts_with("p5000-g") || sc.name.starts_with("p4096")) || tier == Tier::Thorough {
                for part in 0..4 {
                    jobs.push(json!({"script": si, "step": step, "part": part, "parts": 4, "level2": true}).to_string());
                    meta.push((si, step, 980 + part));
                }
            }
            // three crashes in a row: for the update chain (quick) / every non-pair script (thorough)
            if !sc.name.starts_with("kv2-") {
                jobs.push(json!({"script": si, "step": step, "part": 0, "parts": 1, "shortok": true}).to_string());
                meta.push((si, step, 970));
            }
            if std::env::var("VCHECK_NO_L3").is_ok() {
                continue;
            }
            if (tier == Tier::Quick && sc.name == "update-chain-page-reuse" && step <= 3) || (tier == Tier::Thorough && !sc.name.starts_with("kv2-")) {
                for part in 0..6 {
                    jobs.push(json!({"script": si, "step": step, "part": part, "parts": 6, "level3": true}).to_string());
                    meta.push((si, step, 990 + part));
                }
            }
        }
    }
    let mut generated = 0u64;
    let mut probed = 0u64;
    let mut capped = false;
    let mut saw = [0u64; 2];
    let mut commits: std::collections::BTreeMap<(usize, usize), Value> = Default::default();
    let mut found: Vec<(usize, usize, usize, String, String, Value)> = vec![];
    let mut errs = vec![];
    let mut classes: std::collections::BTreeMap<String, u64> = Default::default();
    pool.run(jobs, |ji, o| {
        let (si, step, _part) = meta[ji];
        match o {
            Outcome::Done(r) => {
                let v: Value = serde_json::from_str(&r).unwrap_or(Value::Null);
                if let Some(e) = v["err"].as_str() {
                    errs.push(format!("{} step {}: {}", scs[si].name, step, e));
                    return;
                }
                generated += v["generated"].as_u64().unwrap_or(0);
                probed += v["probed"].as_u64().unwrap_or(0);
                capped |= v["capped"].as_bool().unwrap_or(false);
                saw[0] += v["saw_pre"].as_u64().unwrap_or(0);
                saw[1] += v["saw_post"].as_u64().unwrap_or(0);
                commits.insert((si, step), v["ops_per_epoch"].clone());
                if let Some(m) = v["classes"].as_object() {
                    for (k, c) in m {
                        *classes.entry(k.clone()).or_insert(0) += c.as_u64().unwrap_or(0);
                    }
                }
                for x in v["v"].as_array().cloned().unwrap_or_default() {
                    found.push((si, step, x[0].as_u64().unwrap() as usize, x[1].as_str().unwrap().to_string(), x[2].as_str().unwrap().to_string(), x[3].clone()));
                }
            }
            Outcome::Crashed { last_marker, status, stderr_tail } => {
                found.push((si, step, last_marker.and_then(|m| m.parse().ok()).unwrap_or(0), "process_death".into(), format!("probe process died ({}) while opening a crash image; stderr: {}", status, stderr_tail), Value::Null));
            }
            Outcome::Timeout { last_marker } => {
                found.push((si, step, last_marker.and_then(|m| m.parse().ok()).unwrap_or(0), "hang".into(), "probe process hung while opening a crash image".into(), Value::Null));
            }
        }
    });
    for e in errs {
        check.machinery_error(e);
    }
    found.sort_by(|a, b| (a.0, a.1, a.2).cmp(&(b.0, b.1, b.2)));
    for (si, step, k, class, detail, spec) in found {
        let sc = &scs[si];
        let image_class = spec["class"].as_str().unwrap_or("?").to_string();
        let header_without_data = spec_header_without_data(&spec);
        check.violation(&class, &format!("[script {} commit at step {} image #{} class {}{}] {}", sc.name, step, k, image_class, if header_without_data { " header-persisted-before-data" } else { "" }, detail), || {
            json!({"engine": "crashx", "tier": tier.name(), "seed": check_seed(), "script": sc.name, "script_index": si, "step": step, "image_index": k, "image": spec, "actions": sc.actions.iter().map(|a| a.to_json()).collect::<Vec<_>>()})
        });
    }
    check.sample(json!({"script": scs[0].name, "actions": scs[0].actions.iter().map(|a| a.to_json()).collect::<Vec<_>>(), "image": {"epoch": 0, "present": [1, 0, 1, 1], "torn": null, "meaning": "ops 0,2,3 of the first epoch reached the device, op 1 did not"}}));
    check.sample(json!({"image": {"epoch": 1, "present": [0], "torn": {"op": 0, "unit": 8, "units_present": "mask over the 8-byte words of the header write that differ from the old header"}}}));
    check.cov("evaluations", json!(generated));
    check.cov("distinct_nontrivial", json!(probed));
    check.cov("rule", json!("one evaluation = one crash image of one commit: durable state of completed epochs + a subset of the ops issued since the last completed fsync (all 2^n for n <= 14, else all within 2 deviations of none/all plus every prefix), or one write torn at 512-byte sectors (every prefix, suffix, single missing / single present sector; process-kill prefixes with later ops absent), or the header write torn at 8-byte words (all mixes of old and new differing words) in the contexts all/none/each-one-missing of the other ops; distinct = distinct image bytes+length actually reopened with the real library"));
    check.cov("commits_traced", json!(commits.len()));
    check.cov("ops_per_epoch_by_commit", json!(commits.iter().map(|((s, st), v)| json!({"script": scs[*s].name, "step": st, "ops_per_epoch": v})).collect::<Vec<_>>()));
    check.cov("images_by_class", json!(classes));
    check.cov("recovered_to_pre_state", json!(saw[0]));
    check.cov("recovered_to_post_state", json!(saw[1]));
    check.cov("subset_cap_hit", json!(capped));
    check.cov("exhaustive", json!(!capped));
    check.cov("worker_restarts", json!(pool.restarts));
}

fn spec_header_without_data(spec: &Value) -> bool {
    // heuristic label only (used in messages): the last op of the epoch is present while an earlier one is not
    if let Some(p) = spec["present"].as_array() {
        let n = p.len();
        if n >= 2 {
            return p[n - 1].as_u64() == Some(1) && p[..n - 1].iter().any(|x| x.as_u64() == Some(0));
        }
    }
    false
}

fn check_seed() -> u64 {
    std::env::var("VERIF_SEED").ok().and_then(|s| s.parse().ok()).unwrap_or(1)
}

pub fn replay(v: &Value) -> i32 {
    real::install_quiet_panic_hook();
    let scratch = report::scratch_dir();
    iosim::set_track_prefix(&scratch);
    let path = format!("{}/replay.db", scratch);
    let tier = if v["tier"].as_str() == Some("thorough") { Tier::Thorough } else { Tier::Quick };
    QUICK_TIER.store(tier == Tier::Quick, std::sync::atomic::Ordering::Relaxed);
    let si = v["script_index"].as_u64().unwrap_or(0) as usize;
    let step = v["step"].as_u64().unwrap_or(0) as usize;
    let path2 = path.clone();
    let trace = crate::fresh::on_fresh_thread(move || {
        let scs = scripts(tier);
        trace_commit(&scs[si], &path2, step)
    });
    let scs = scripts(tier);
    let code = match trace {
        Ok(Ok(t)) => {
            println!("commit at step {} of script {}: ops per epoch {:?}", step, scs[si].name, t.epochs.iter().map(|e| e.len()).collect::<Vec<_>>());
            for (e, ops) in t.epochs.iter().enumerate() {
                for (i, op) in ops.iter().enumerate() {
                    match op {
                        FOp::Write { off, data } => println!("  epoch {} op {}: write off={} len={}", e, i, off, data.len()),
                        FOp::Extend { len } => println!("  epoch {} op {}: extend to {}", e, i, len),
                    }
                }
            }
            if v["image"].get("short_ok").is_some() {
                let found = crate::faultx::benign_short_writes(&scs[si], &path, step);
                for (ci, c, d) in &found {
                    println!("   !! [write #{}] {}: {}", ci, c, d);
                }
                report::cleanup_scratch(&scratch);
                return if found.is_empty() { 0 } else { 1 };
            }
            // chained cases: {"first", "second"[, "third"]}
            let (t, image_json) = if v["image"].get("first").is_some() {
                let follow_a = Action::Tx { ops: vec![OpSpec::bucket("goc", &[], "l2"), OpSpec::put(&["l2"], "k", "w*300"), OpSpec::put(&["l2"], "k2", "v*20")], commit: true };
                let follow_b = Action::Tx { ops: vec![OpSpec::bucket("goc", &[], "l3"), OpSpec::put(&["l3"], "m", "y*310"), OpSpec::put(&["l3"], "m2", "v*25")], commit: true };
                let st1 = t.image(&ImageSpec::from_json(&v["image"]["first"]));
                let t2 = match commit_on_image(&scs[si], &path, &st1, &t.pre, &t.post, &follow_a) {
                    Ok(Some(t2)) => t2,
                    other => {
                        println!("the first recovery / follow-up commit did not work: {:?}", other.map(|x| x.is_some()));
                        report::cleanup_scratch(&scratch);
                        return 1;
                    }
                };
                if v["image"].get("third").is_some() {
                    let st2 = t2.image(&ImageSpec::from_json(&v["image"]["second"]));
                    match commit_on_image(&scs[si], &path, &st2, &t2.pre, &t2.post, &follow_b) {
                        Ok(Some(t3)) => (t3, v["image"]["third"].clone()),
                        other => {
                            println!("the second recovery / follow-up commit did not work: {:?}", other.map(|x| x.is_some()));
                            report::cleanup_scratch(&scratch);
                            return 1;
                        }
                    }
                } else {
                    (t2, v["image"]["second"].clone())
                }
            } else {
                (t, v["image"].clone())
            };
            let spec = ImageSpec::from_json(&image_json);
            let st = t.image(&spec);
            let must_be_post = image_json["class"].as_str() == Some("complete");
            match judge(&scs[si].cfg, &path, &st, &t.pre, &t.post, must_be_post) {
                Some((c, d)) => {
                    println!("   !! {}: {}", c, d);
                    1
                }
                None => {
                    println!("no violation");
                    0
                }
            }
        }
        other => {
            println!("could not trace the commit: {:?}", other.map(|r| r.err()));
            2
        }
    };
    report::cleanup_scratch(&scratch);
    code
}
