//! In-process interposition of the libc calls jammdb (through std, memmap2 and fs4/rustix) uses on
//! its database file.  The definitions below win over libc's at link time because they live in the
//! executable itself.  Each one forwards with a raw `syscall`, after consulting a per-thread plan.
//!
//! With no plan installed every call is a pure pass-through.
#![allow(clippy::missing_safety_doc)]

use std::cell::RefCell;
use std::sync::atomic::{AtomicU64, AtomicU8, Ordering};
use std::sync::Mutex;

use libc::{c_int, c_long, c_void, off64_t, size_t, ssize_t};

/// One observed I/O call on a tracked (database) descriptor.
#[derive(Debug, Clone, PartialEq, Eq)]
pub enum IoEvent {
    Open { create: bool },
    Write { off: u64, data: Vec<u8> },
    Fsync,
    Fallocate { off: u64, len: u64 },
    Ftruncate { len: u64 },
    Flock { op: i32 },
    Mmap { len: u64 },
    Munmap,
    Close,
    Lseek,
    Stat,
}

/// Kind of call, used for fault selection and scheduling points.
#[derive(Debug, Clone, Copy, PartialEq, Eq, Hash, PartialOrd, Ord)]
pub enum Kind {
    Open,
    Write,
    Fsync,
    Fallocate,
    Flock,
    Mmap,
    Close,
    Lseek,
    Ftruncate,
    Sleep,
    Munmap,
    Stat,
}

impl Kind {
    pub fn name(self) -> &'static str {
        match self {
            Kind::Open => "open",
            Kind::Write => "write",
            Kind::Fsync => "fsync",
            Kind::Fallocate => "fallocate",
            Kind::Flock => "flock",
            Kind::Mmap => "mmap",
            Kind::Close => "close",
            Kind::Lseek => "lseek",
            Kind::Ftruncate => "ftruncate",
            Kind::Sleep => "sleep",
            Kind::Munmap => "munmap",
            Kind::Stat => "stat",
        }
    }
    pub fn from_name(s: &str) -> Option<Kind> {
        Some(match s {
            "open" => Kind::Open,
            "write" => Kind::Write,
            "fsync" => Kind::Fsync,
            "fallocate" => Kind::Fallocate,
            "flock" => Kind::Flock,
            "mmap" => Kind::Mmap,
            "close" => Kind::Close,
            "lseek" => Kind::Lseek,
            "stat" => Kind::Stat,
            "ftruncate" => Kind::Ftruncate,
            "sleep" => Kind::Sleep,
            _ => return None,
        })
    }
}

/// How an injected fault behaves.
#[derive(Debug, Clone, Copy, PartialEq, Eq)]
pub enum FaultMode {
    /// fail with this errno, nothing done
    Errno(i32),
    /// (write only) perform a short write of this many bytes; the *next* write fails with errno
    ShortThenErrno(usize, i32),
    /// (write only) the call transfers only this many bytes and reports that, no error follows: a
    /// legal answer of write(2) that the caller has to continue from
    ShortOk(usize),
}

#[derive(Debug, Clone, Copy)]
pub struct Fault {
    /// index (0-based) among all tracked calls counted since the plan was armed - or, with `kind`
    /// set, among the calls of that kind
    pub call_index: u64,
    pub mode: FaultMode,
    pub kind: Option<Kind>,
}

impl Fault {
    pub fn at(call_index: u64, mode: FaultMode) -> Fault {
        Fault { call_index, mode, kind: None }
    }
    /// the n-th (0-based) call of `kind` fails with `errno`
    pub fn nth(kind: Kind, n: u64, errno: i32) -> Fault {
        Fault { call_index: n, mode: FaultMode::Errno(errno), kind: Some(kind) }
    }
    /// the first write that follows the first sync since the plan was armed fails (in a commit: the
    /// write of the header page, or the wipe of its slot)
    pub fn first_write_after_sync(errno: i32) -> Fault {
        Fault { call_index: u64::MAX, mode: FaultMode::Errno(errno), kind: Some(Kind::Write) }
    }
}

/// Callback for scheduling points: called *before* the call is executed.
pub trait IoSched {
    /// `ino` identifies the file (for flock modelling); the callback may block.  A returned errno
    /// makes the call fail with it instead of being executed (an interrupted blocking call).
    fn io_point(&self, kind: Kind, fd: i32, ino: u64, arg: i64) -> Option<i32>;
    /// called after a call that changes lock state completed (flock / close)
    fn io_done(&self, kind: Kind, fd: i32, ino: u64, arg: i64, ok: bool);
}

#[derive(Default)]
pub struct Plan {
    pub log: bool,
    pub events: Vec<IoEvent>,
    /// number of tracked calls seen since arm (only kinds in `count_kinds`)
    pub calls: u64,
    pub call_kinds: Vec<Kind>,
    pub armed: bool,
    pub fault: Option<Fault>,
    pub pending_errno: Option<i32>,
    pub fault_fired: bool,
    /// a `ShortOk` answer was given (not an error: `fault_fired` stays false)
    pub benign_fired: bool,
    pub sched: Option<&'static dyn IoSched>,
}

thread_local! {
    static PLAN: RefCell<Option<Plan>> = const { RefCell::new(None) };
}

static TRACKED: [AtomicU8; 4096] = [const { AtomicU8::new(0) }; 4096];
static TRACK_PREFIX: Mutex<Vec<u8>> = Mutex::new(Vec::new());
static DET_SEED: AtomicU64 = AtomicU64::new(0);
static POISON_UNMAP: AtomicU8 = AtomicU8::new(0);
static DB_MAPS: Mutex<Vec<(usize, usize, bool)>> = Mutex::new(Vec::new());

/// Descriptors opened on paths starting with this prefix are tracked as database files.
pub fn set_track_prefix(p: &str) {
    *TRACK_PREFIX.lock().unwrap() = p.as_bytes().to_vec();
}

/// Makes `getrandom` deterministic (seed != 0) for every thread started afterwards.
pub fn set_entropy_seed(seed: u64) {
    DET_SEED.store(seed, Ordering::SeqCst);
}

/// When on, `munmap` of a database mapping turns it into PROT_NONE instead of unmapping.
pub fn set_poison_unmap(on: bool) {
    POISON_UNMAP.store(on as u8, Ordering::SeqCst);
}

/// Really unmaps every poisoned region (call between cases).
pub fn reap_poisoned() {
    let mut maps = DB_MAPS.lock().unwrap();
    maps.retain(|&(addr, len, poisoned)| {
        if poisoned {
            unsafe { libc::syscall(libc::SYS_munmap, addr, len) };
            false
        } else {
            true
        }
    });
}

pub fn install_plan(p: Plan) {
    PLAN.with(|c| *c.borrow_mut() = Some(p));
}

pub fn take_plan() -> Option<Plan> {
    PLAN.with(|c| c.borrow_mut().take())
}

pub fn with_plan<R>(f: impl FnOnce(&mut Plan) -> R) -> Option<R> {
    PLAN.with(|c| c.borrow_mut().as_mut().map(f))
}

fn is_tracked(fd: c_int) -> bool {
    fd >= 0 && (fd as usize) < TRACKED.len() && TRACKED[fd as usize].load(Ordering::Relaxed) != 0
}

unsafe fn set_errno(e: i32) {
    *libc::__errno_location() = e;
}

fn fd_ino(fd: c_int) -> u64 {
    unsafe {
        let mut st: libc::stat64 = std::mem::zeroed();
        if libc::syscall(libc::SYS_fstat, fd, &mut st as *mut _) == 0 {
            st.st_ino
        } else {
            0
        }
    }
}

enum Decision {
    Go,
    Fail(i32),
    Short(usize),
}

/// Common pre-call logic: scheduling point, call counting, fault decision.
fn pre(kind: Kind, fd: c_int, arg: i64) -> Decision {
    // scheduling point first (outside the RefCell borrow: the callback may block for long)
    let sched = PLAN
        .try_with(|c| c.try_borrow().ok().and_then(|p| p.as_ref().and_then(|p| p.sched)))
        .ok()
        .flatten();
    if let Some(s) = sched {
        if let Some(e) = s.io_point(kind, fd, if fd >= 0 { fd_ino(fd) } else { 0 }, arg) {
            return Decision::Fail(e);
        }
    }
    PLAN.try_with(|c| {
        let mut b = match c.try_borrow_mut() {
            Ok(b) => b,
            Err(_) => return Decision::Go,
        };
        let p = match b.as_mut() {
            Some(p) => p,
            None => return Decision::Go,
        };
        if !p.armed {
            return Decision::Go;
        }
        if let Some(e) = p.pending_errno {
            if kind == Kind::Write {
                p.pending_errno = None;
                p.calls += 1;
                p.call_kinds.push(kind);
                return Decision::Fail(e);
            }
        }
        let idx = p.calls;
        p.calls += 1;
        p.call_kinds.push(kind);
        if let Some(f) = p.fault {
            let hit = match f.kind {
                Some(k) if f.call_index == u64::MAX => {
                    let n = p.call_kinds.len();
                    kind == k && p.call_kinds.iter().position(|x| *x == Kind::Fsync).map(|fs| !p.call_kinds[fs..n - 1].contains(&k)).unwrap_or(false)
                }
                Some(k) => kind == k && p.call_kinds.iter().filter(|x| **x == k).count() as u64 == f.call_index + 1,
                None => f.call_index == idx,
            };
            if hit && matches!(f.mode, FaultMode::ShortOk(_)) {
                if let (FaultMode::ShortOk(n), Kind::Write, false) = (f.mode, kind, p.benign_fired) {
                    p.benign_fired = true;
                    return Decision::Short(n);
                }
                return Decision::Go;
            }
            if hit && !p.fault_fired {
                p.fault_fired = true;
                match f.mode {
                    FaultMode::Errno(e) => return Decision::Fail(e),
                    FaultMode::ShortOk(_) => {}
                    FaultMode::ShortThenErrno(n, e) => {
                        if kind == Kind::Write {
                            p.pending_errno = Some(e);
                            return Decision::Short(n);
                        } else {
                            return Decision::Fail(e);
                        }
                    }
                }
            }
        }
        Decision::Go
    })
    .unwrap_or(Decision::Go)
}

fn log_event(ev: impl FnOnce() -> IoEvent) {
    let _ = PLAN.try_with(|c| {
        if let Ok(mut b) = c.try_borrow_mut() {
            if let Some(p) = b.as_mut() {
                if p.log {
                    p.events.push(ev());
                }
            }
        }
    });
}

fn post(kind: Kind, fd: c_int, ino: u64, arg: i64, ok: bool) {
    let sched = PLAN
        .try_with(|c| c.try_borrow().ok().and_then(|p| p.as_ref().and_then(|p| p.sched)))
        .ok()
        .flatten();
    if let Some(s) = sched {
        s.io_done(kind, fd, ino, arg, ok);
    }
}

unsafe fn track_open(path: *const libc::c_char, fd: c_int, flags: c_int) {
    if fd < 0 || (fd as usize) >= TRACKED.len() || path.is_null() {
        return;
    }
    let bytes = std::ffi::CStr::from_ptr(path).to_bytes();
    let tracked = match TRACK_PREFIX.try_lock() {
        Ok(pref) => !pref.is_empty() && bytes.starts_with(&pref),
        Err(_) => false,
    };
    TRACKED[fd as usize].store(tracked as u8, Ordering::Relaxed);
    if tracked {
        log_event(|| IoEvent::Open {
            create: flags & libc::O_CREAT != 0,
        });
    }
}

unsafe fn path_tracked(path: *const libc::c_char) -> bool {
    if path.is_null() {
        return false;
    }
    let bytes = std::ffi::CStr::from_ptr(path).to_bytes();
    match TRACK_PREFIX.try_lock() {
        Ok(pref) => !pref.is_empty() && bytes.starts_with(&pref),
        Err(_) => false,
    }
}

#[no_mangle]
pub unsafe extern "C" fn open64(path: *const libc::c_char, flags: c_int, mode: libc::mode_t) -> c_int {
    let tracked = path_tracked(path);
    if tracked {
        if let Decision::Fail(e) = pre(Kind::Open, -1, flags as i64) {
            set_errno(e);
            return -1;
        }
    }
    let fd = libc::syscall(libc::SYS_openat, libc::AT_FDCWD, path, flags | libc::O_LARGEFILE, mode as c_long) as c_int;
    track_open(path, fd, flags);
    if tracked {
        post(Kind::Open, fd, if fd >= 0 { fd_ino(fd) } else { 0 }, flags as i64, fd >= 0);
    }
    fd
}

#[no_mangle]
pub unsafe extern "C" fn open(path: *const libc::c_char, flags: c_int, mode: libc::mode_t) -> c_int {
    open64(path, flags, mode)
}

#[no_mangle]
pub unsafe extern "C" fn close(fd: c_int) -> c_int {
    let tracked = is_tracked(fd);
    let mut ino = 0;
    if tracked {
        ino = fd_ino(fd);
        let _ = pre(Kind::Close, fd, 0);
        TRACKED[fd as usize].store(0, Ordering::Relaxed);
        log_event(|| IoEvent::Close);
    }
    let r = libc::syscall(libc::SYS_close, fd) as c_int;
    if tracked {
        post(Kind::Close, fd, ino, 0, r == 0);
    }
    r
}

#[no_mangle]
pub unsafe extern "C" fn write(fd: c_int, buf: *const c_void, count: size_t) -> ssize_t {
    if is_tracked(fd) {
        let mut n = count;
        match pre(Kind::Write, fd, count as i64) {
            Decision::Fail(e) => {
                set_errno(e);
                return -1;
            }
            Decision::Short(k) => n = k.min(count),
            Decision::Go => {}
        }
        let off = libc::syscall(libc::SYS_lseek, fd, 0, libc::SEEK_CUR) as i64;
        let r = libc::syscall(libc::SYS_write, fd, buf, n) as ssize_t;
        if r > 0 {
            log_event(|| IoEvent::Write {
                off: off as u64,
                data: std::slice::from_raw_parts(buf as *const u8, r as usize).to_vec(),
            });
        }
        return r;
    }
    libc::syscall(libc::SYS_write, fd, buf, count) as ssize_t
}

#[no_mangle]
pub unsafe extern "C" fn lseek64(fd: c_int, off: off64_t, whence: c_int) -> off64_t {
    if is_tracked(fd) {
        if let Decision::Fail(e) = pre(Kind::Lseek, fd, off) {
            set_errno(e);
            return -1;
        }
        log_event(|| IoEvent::Lseek);
    }
    libc::syscall(libc::SYS_lseek, fd, off, whence) as off64_t
}

#[no_mangle]
pub unsafe extern "C" fn lseek(fd: c_int, off: off64_t, whence: c_int) -> off64_t {
    lseek64(fd, off, whence)
}

#[no_mangle]
pub unsafe extern "C" fn fsync(fd: c_int) -> c_int {
    if is_tracked(fd) {
        if let Decision::Fail(e) = pre(Kind::Fsync, fd, 0) {
            set_errno(e);
            return -1;
        }
        log_event(|| IoEvent::Fsync);
        // tmpfs: nothing to do, but keep the real call for fidelity
    }
    libc::syscall(libc::SYS_fsync, fd) as c_int
}

/// `File::metadata` of the standard library (statx with an empty path on the descriptor)
#[no_mangle]
pub unsafe extern "C" fn statx(dirfd: c_int, path: *const libc::c_char, flags: c_int, mask: libc::c_uint, buf: *mut libc::statx) -> c_int {
    if is_tracked(dirfd) && flags & libc::AT_EMPTY_PATH != 0 {
        if let Decision::Fail(e) = pre(Kind::Stat, dirfd, 0) {
            set_errno(e);
            return -1;
        }
        log_event(|| IoEvent::Stat);
    }
    libc::syscall(libc::SYS_statx, dirfd, path, flags, mask, buf) as c_int
}

#[no_mangle]
pub unsafe extern "C" fn fstat64(fd: c_int, buf: *mut libc::stat64) -> c_int {
    if is_tracked(fd) {
        if let Decision::Fail(e) = pre(Kind::Stat, fd, 0) {
            set_errno(e);
            return -1;
        }
        log_event(|| IoEvent::Stat);
    }
    libc::syscall(libc::SYS_fstat, fd, buf) as c_int
}

#[no_mangle]
pub unsafe extern "C" fn fstat(fd: c_int, buf: *mut libc::stat) -> c_int {
    fstat64(fd, buf as *mut libc::stat64)
}

#[no_mangle]
pub unsafe extern "C" fn fdatasync(fd: c_int) -> c_int {
    if is_tracked(fd) {
        if let Decision::Fail(e) = pre(Kind::Fsync, fd, 1) {
            set_errno(e);
            return -1;
        }
        log_event(|| IoEvent::Fsync);
    }
    libc::syscall(libc::SYS_fdatasync, fd) as c_int
}

#[no_mangle]
pub unsafe extern "C" fn fallocate64(fd: c_int, mode: c_int, off: off64_t, len: off64_t) -> c_int {
    if is_tracked(fd) {
        if let Decision::Fail(e) = pre(Kind::Fallocate, fd, len) {
            set_errno(e);
            return -1;
        }
        log_event(|| IoEvent::Fallocate {
            off: off as u64,
            len: len as u64,
        });
    }
    libc::syscall(libc::SYS_fallocate, fd, mode, off, len) as c_int
}

#[no_mangle]
pub unsafe extern "C" fn fallocate(fd: c_int, mode: c_int, off: off64_t, len: off64_t) -> c_int {
    fallocate64(fd, mode, off, len)
}

#[no_mangle]
pub unsafe extern "C" fn posix_fallocate64(fd: c_int, off: off64_t, len: off64_t) -> c_int {
    // posix_fallocate returns the error number instead of setting errno
    let r = fallocate64(fd, 0, off, len);
    if r == 0 {
        0
    } else {
        *libc::__errno_location()
    }
}

#[no_mangle]
pub unsafe extern "C" fn posix_fallocate(fd: c_int, off: off64_t, len: off64_t) -> c_int {
    posix_fallocate64(fd, off, len)
}

#[no_mangle]
pub unsafe extern "C" fn ftruncate64(fd: c_int, len: off64_t) -> c_int {
    if is_tracked(fd) {
        if let Decision::Fail(e) = pre(Kind::Ftruncate, fd, len) {
            set_errno(e);
            return -1;
        }
        log_event(|| IoEvent::Ftruncate { len: len as u64 });
    }
    libc::syscall(libc::SYS_ftruncate, fd, len) as c_int
}

#[no_mangle]
pub unsafe extern "C" fn ftruncate(fd: c_int, len: off64_t) -> c_int {
    ftruncate64(fd, len)
}

#[no_mangle]
pub unsafe extern "C" fn flock(fd: c_int, op: c_int) -> c_int {
    if is_tracked(fd) {
        let ino = fd_ino(fd);
        if let Decision::Fail(e) = pre(Kind::Flock, fd, op as i64) {
            set_errno(e);
            return -1;
        }
        log_event(|| IoEvent::Flock { op });
        let r = libc::syscall(libc::SYS_flock, fd, op) as c_int;
        post(Kind::Flock, fd, ino, op as i64, r == 0);
        return r;
    }
    libc::syscall(libc::SYS_flock, fd, op) as c_int
}

#[no_mangle]
pub unsafe extern "C" fn mmap64(
    addr: *mut c_void,
    len: size_t,
    prot: c_int,
    flags: c_int,
    fd: c_int,
    off: off64_t,
) -> *mut c_void {
    let tracked = is_tracked(fd);
    if tracked {
        if let Decision::Fail(e) = pre(Kind::Mmap, fd, len as i64) {
            set_errno(e);
            return libc::MAP_FAILED;
        }
        log_event(|| IoEvent::Mmap { len: len as u64 });
    }
    let r = libc::syscall(libc::SYS_mmap, addr, len, prot, flags, fd, off) as *mut c_void;
    if tracked && r != libc::MAP_FAILED {
        if let Ok(mut m) = DB_MAPS.try_lock() {
            m.push((r as usize, len, false));
        }
    }
    r
}

#[no_mangle]
pub unsafe extern "C" fn mmap(
    addr: *mut c_void,
    len: size_t,
    prot: c_int,
    flags: c_int,
    fd: c_int,
    off: off64_t,
) -> *mut c_void {
    mmap64(addr, len, prot, flags, fd, off)
}

#[no_mangle]
pub unsafe extern "C" fn munmap(addr: *mut c_void, len: size_t) -> c_int {
    let mut poison = false;
    if let Ok(mut m) = DB_MAPS.try_lock() {
        if let Some(i) = m.iter().position(|&(a, _, p)| a == addr as usize && !p) {
            log_event(|| IoEvent::Munmap);
            if POISON_UNMAP.load(Ordering::Relaxed) != 0 {
                m[i].2 = true;
                poison = true;
            } else {
                m.swap_remove(i);
                let _ = DB_MAP_JUST_REMOVED.try_with(|c| c.set(true));
            }
        }
    }
    let was_db_map = poison || DB_MAP_JUST_REMOVED.with(|c| c.replace(false));
    if poison {
        let r = {
        // Replace the file mapping by an inaccessible anonymous one at the same address: the
        // range stays reserved (a read through a dangling pointer faults deterministically),
        // while the reference to the open file (and with it its flock) is dropped as munmap would.
        libc::syscall(libc::SYS_mmap, addr, len, libc::PROT_NONE, libc::MAP_FIXED | libc::MAP_PRIVATE | libc::MAP_ANONYMOUS | libc::MAP_NORESERVE, -1, 0);
        0
        };
        post(Kind::Munmap, -1, 0, 0, true);
        return r;
    }
    let r = libc::syscall(libc::SYS_munmap, addr, len) as c_int;
    if was_db_map {
        // a mapping of the database file is gone: a lock it pinned may have gone with it
        post(Kind::Munmap, -1, 0, 0, true);
    }
    r
}

thread_local! {
    static DB_MAP_JUST_REMOVED: std::cell::Cell<bool> = const { std::cell::Cell::new(false) };
}

fn sleep_point() -> bool {
    let sched = PLAN
        .try_with(|c| c.try_borrow().ok().and_then(|p| p.as_ref().and_then(|p| p.sched)))
        .ok()
        .flatten();
    match sched {
        Some(s) => {
            // time is owned by the scheduler: a sleep is a scheduling point that returns at once
            let _ = s.io_point(Kind::Sleep, -1, 0, 0);
            true
        }
        None => false,
    }
}

#[no_mangle]
pub unsafe extern "C" fn nanosleep(req: *const libc::timespec, rem: *mut libc::timespec) -> c_int {
    if sleep_point() {
        return 0;
    }
    libc::syscall(libc::SYS_nanosleep, req, rem) as c_int
}

#[no_mangle]
pub unsafe extern "C" fn clock_nanosleep(clock: libc::clockid_t, flags: c_int, req: *const libc::timespec, rem: *mut libc::timespec) -> c_int {
    if sleep_point() {
        return 0;
    }
    // clock_nanosleep returns the error number directly
    let r = libc::syscall(libc::SYS_clock_nanosleep, clock, flags, req, rem);
    if r == 0 {
        0
    } else {
        *libc::__errno_location()
    }
}

#[no_mangle]
pub unsafe extern "C" fn getrandom(buf: *mut c_void, len: size_t, flags: libc::c_uint) -> ssize_t {
    let seed = DET_SEED.load(Ordering::Relaxed);
    if seed != 0 {
        let out = std::slice::from_raw_parts_mut(buf as *mut u8, len);
        let mut x = seed;
        for b in out.iter_mut() {
            // splitmix64
            x = x.wrapping_add(0x9E37_79B9_7F4A_7C15);
            let mut z = x;
            z = (z ^ (z >> 30)).wrapping_mul(0xBF58_476D_1CE4_E5B9);
            z = (z ^ (z >> 27)).wrapping_mul(0x94D0_49BB_1331_11EB);
            *b = (z ^ (z >> 31)) as u8;
        }
        return len as ssize_t;
    }
    libc::syscall(libc::SYS_getrandom, buf, len, flags) as ssize_t
}

/// Runs `f` with logging on and returns the events recorded on this thread.
pub fn logged<R>(f: impl FnOnce() -> R) -> (R, Vec<IoEvent>) {
    let prev = take_plan();
    install_plan(Plan {
        log: true,
        ..Default::default()
    });
    let r = f();
    let p = take_plan().unwrap();
    if let Some(prev) = prev {
        install_plan(prev);
    }
    (r, p.events)
}
