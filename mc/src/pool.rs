//! Pool of worker subprocesses (`vcheck worker <engine>`).  One job at a time per worker; the
//! worker may emit marker lines (`M ...`) before the result line (`R ...`).  A worker that dies
//! or hangs is attributed to the job it was running (with its last marker) and is restarted.

use std::collections::VecDeque;
use std::io::{BufRead, BufReader, Write};
use std::process::{Child, ChildStdin, Command, Stdio};
use std::sync::mpsc::{channel, Receiver, RecvTimeoutError};
use std::sync::Mutex;
use std::time::Duration;

#[derive(Debug, Clone)]
pub enum Outcome {
    Done(String),
    Crashed { last_marker: Option<String>, status: String, stderr_tail: String },
    Timeout { last_marker: Option<String> },
}

struct Proc {
    child: Child,
    stdin: ChildStdin,
    lines: Receiver<String>,
    err_path: String,
}

pub struct Pool {
    engine: String,
    init: String,
    procs: Vec<Option<Proc>>,
    pub job_timeout: Duration,
    pub restarts: u64,
    scratch: String,
}

fn spawn(engine: &str, init: &str, scratch: &str, idx: usize) -> Proc {
    let exe = std::env::current_exe().expect("current_exe");
    let err_path = format!("{}/worker-{}-{}.err", scratch, engine, idx);
    let errf = std::fs::File::create(&err_path).expect("worker stderr file");
    let mut child = Command::new(exe)
        .arg("worker")
        .arg(engine)
        .arg(idx.to_string())
        .env("VCHECK_SCRATCH", scratch)
        .stdin(Stdio::piped())
        .stdout(Stdio::piped())
        .stderr(Stdio::from(errf))
        .spawn()
        .expect("spawn worker");
    let mut stdin = child.stdin.take().unwrap();
    let stdout = child.stdout.take().unwrap();
    let (tx, rx) = channel();
    std::thread::spawn(move || {
        let r = BufReader::with_capacity(1 << 16, stdout);
        for line in r.lines() {
            match line {
                Ok(l) => {
                    if tx.send(l).is_err() {
                        break;
                    }
                }
                Err(_) => break,
            }
        }
    });
    writeln!(stdin, "{}", init.replace('\n', " ")).expect("send init");
    stdin.flush().ok();
    Proc { child, stdin, lines: rx, err_path }
}

fn tail_of(path: &str) -> String {
    let s = std::fs::read_to_string(path).unwrap_or_default();
    let lines: Vec<&str> = s.lines().collect();
    let n = lines.len();
    lines[n.saturating_sub(8)..].join(" | ")
}

impl Pool {
    pub fn new(engine: &str, init: &str, workers: usize, scratch: &str) -> Pool {
        let mut procs = Vec::new();
        for i in 0..workers {
            procs.push(Some(spawn(engine, init, scratch, i)));
        }
        Pool { engine: engine.to_string(), init: init.to_string(), procs, job_timeout: Duration::from_secs(120), restarts: 0, scratch: scratch.to_string() }
    }

    pub fn workers(&self) -> usize {
        self.procs.len()
    }

    /// Runs all jobs; `on_result(job_index, outcome)` is called on the calling thread.
    pub fn run(&mut self, jobs: Vec<String>, mut on_result: impl FnMut(usize, Outcome)) {
        let queue: Mutex<VecDeque<(usize, String)>> = Mutex::new(jobs.into_iter().enumerate().collect());
        let (rtx, rrx) = channel::<(usize, Outcome)>();
        let engine = self.engine.clone();
        let init = self.init.clone();
        let scratch = self.scratch.clone();
        let timeout = self.job_timeout;
        let restarts = Mutex::new(0u64);
        std::thread::scope(|s| {
            for (wi, slot) in self.procs.iter_mut().enumerate() {
                let queue = &queue;
                let rtx = rtx.clone();
                let engine = engine.clone();
                let init = init.clone();
                let scratch = scratch.clone();
                let restarts = &restarts;
                s.spawn(move || loop {
                    let job = queue.lock().unwrap().pop_front();
                    let (ji, job) = match job {
                        Some(j) => j,
                        None => break,
                    };
                    if slot.is_none() {
                        *slot = Some(spawn(&engine, &init, &scratch, wi));
                    }
                    let p = slot.as_mut().unwrap();
                    let mut last_marker = None;
                    let sent = writeln!(p.stdin, "{}", job).and_then(|_| p.stdin.flush());
                    let outcome = if sent.is_err() {
                        None
                    } else {
                        loop {
                            match p.lines.recv_timeout(timeout) {
                                Ok(l) => {
                                    if let Some(r) = l.strip_prefix("R ") {
                                        break Some(Outcome::Done(r.to_string()));
                                    } else if let Some(m) = l.strip_prefix("M ") {
                                        last_marker = Some(m.to_string());
                                    }
                                }
                                Err(RecvTimeoutError::Timeout) => {
                                    break Some(Outcome::Timeout { last_marker: last_marker.clone() });
                                }
                                Err(RecvTimeoutError::Disconnected) => break None,
                            }
                        }
                    };
                    let outcome = match outcome {
                        Some(Outcome::Done(r)) => Outcome::Done(r),
                        other => {
                            // dead or hung worker: collect status, restart lazily
                            let mut p = slot.take().unwrap();
                            let _ = p.child.kill();
                            let status = p.child.wait().map(|s| format!("{:?}", s)).unwrap_or_default();
                            let tail = tail_of(&p.err_path);
                            *restarts.lock().unwrap() += 1;
                            let file_marker = std::fs::read_to_string(format!("{}/marker-{}-{}", scratch, engine, wi)).ok().map(|s| s.trim().to_string()).filter(|s| !s.is_empty());
                            let last_marker = file_marker.or(last_marker);
                            match other {
                                Some(Outcome::Timeout { .. }) => Outcome::Timeout { last_marker },
                                _ => Outcome::Crashed { last_marker, status, stderr_tail: tail },
                            }
                        }
                    };
                    if rtx.send((ji, outcome)).is_err() {
                        break;
                    }
                });
            }
            drop(rtx);
            for (ji, o) in rrx.iter() {
                on_result(ji, o);
            }
        });
        self.restarts += *restarts.lock().unwrap();
    }
}

impl Drop for Pool {
    fn drop(&mut self) {
        for p in self.procs.iter_mut() {
            if let Some(mut p) = p.take() {
                drop(p.stdin);
                let _ = p.child.kill();
                let _ = p.child.wait();
            }
        }
    }
}

/// Worker side: reads the init line, then serves jobs with `handler(init, job, emit_marker)`.
pub fn serve(mut handler: impl FnMut(&str, &str, &mut dyn FnMut(&str)) -> String) {
    use std::os::unix::fs::FileExt;
    let args: Vec<String> = std::env::args().collect();
    let marker_path = format!("{}/marker-{}-{}", std::env::var("VCHECK_SCRATCH").unwrap_or_else(|_| "/dev/shm".into()), args.get(2).cloned().unwrap_or_default(), args.get(3).cloned().unwrap_or_default());
    let marker_file = std::fs::OpenOptions::new().create(true).write(true).truncate(true).open(&marker_path).ok();
    let stdin = std::io::stdin();
    let mut lines = stdin.lock().lines();
    let init = match lines.next() {
        Some(Ok(l)) => l,
        _ => return,
    };
    let stdout = std::io::stdout();
    for line in lines {
        let job = match line {
            Ok(l) => l,
            Err(_) => break,
        };
        let mut emit = |m: &str| {
            // fixed-width record at offset 0: no wake-ups in the parent, survives a crash
            if let Some(f) = &marker_file {
                let mut rec = format!("{:<63}\n", m.replace('\n', " "));
                rec.truncate(64);
                let _ = f.write_all_at(rec.as_bytes(), 0);
            }
        };
        let r = handler(&init, &job, &mut emit);
        let mut o = stdout.lock();
        let _ = writeln!(o, "R {}", r.replace('\n', " "));
        let _ = o.flush();
    }
}
