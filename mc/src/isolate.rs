//! Runs a closure in a forked copy of the (single-threaded) calling process, so that memory
//! corruption or an abort in the code under test ends the copy and not the check.

/// Returns what the closure returned, or a description of how the child died.
pub fn run_in_child(timeout_s: u64, f: impl FnOnce() -> String) -> Result<String, String> {
    let mut fds = [0i32; 2];
    unsafe {
        if libc::pipe(fds.as_mut_ptr()) != 0 {
            return Err("pipe failed".into());
        }
        let pid = libc::fork();
        if pid < 0 {
            return Err("fork failed".into());
        }
        if pid == 0 {
            libc::prctl(libc::PR_SET_PDEATHSIG, libc::SIGKILL);
            libc::syscall(libc::SYS_close, fds[0]);
            let out = f();
            let b = out.as_bytes();
            let mut off = 0;
            while off < b.len() {
                let r = libc::syscall(libc::SYS_write, fds[1], b[off..].as_ptr(), b.len() - off);
                if r <= 0 {
                    break;
                }
                off += r as usize;
            }
            libc::_exit(0);
        }
        libc::syscall(libc::SYS_close, fds[1]);
        let mut buf: Vec<u8> = vec![];
        let deadline = std::time::Instant::now() + std::time::Duration::from_secs(timeout_s);
        let mut timed_out = false;
        loop {
            let left = deadline.saturating_duration_since(std::time::Instant::now());
            if left.is_zero() {
                timed_out = true;
                break;
            }
            let mut pfd = libc::pollfd { fd: fds[0], events: libc::POLLIN, revents: 0 };
            let r = libc::poll(&mut pfd, 1, left.as_millis().min(1000) as i32);
            if r < 0 {
                if *libc::__errno_location() == libc::EINTR {
                    continue;
                }
                break;
            }
            if r == 0 {
                continue;
            }
            let mut tmp = [0u8; 65536];
            let n = libc::syscall(libc::SYS_read, fds[0], tmp.as_mut_ptr(), tmp.len());
            if n <= 0 {
                break;
            }
            buf.extend_from_slice(&tmp[..n as usize]);
        }
        libc::syscall(libc::SYS_close, fds[0]);
        if timed_out {
            libc::kill(pid, libc::SIGKILL);
        }
        let mut st = 0;
        libc::waitpid(pid, &mut st, 0);
        if timed_out {
            return Err(format!("no answer within {} s (killed)", timeout_s));
        }
        if libc::WIFSIGNALED(st) {
            return Err(format!("died with signal {}", libc::WTERMSIG(st)));
        }
        if libc::WIFEXITED(st) && libc::WEXITSTATUS(st) != 0 {
            return Err(format!("exited with status {}", libc::WEXITSTATUS(st)));
        }
        Ok(String::from_utf8_lossy(&buf).to_string())
    }
}
