//! E4 optx (C16): the same histories under the product of open options; every return value and
//! every post-commit dump must equal the reference model (hence all configurations agree), strict
//! mode never rejects a valid commit, files grow through several extension steps, and every page
//! size the builder accepts either works or is refused cleanly.

use serde_json::{json, Value};

use crate::iosim;
use crate::pool::{Outcome, Pool};
use crate::real;
use crate::refmodel::OpSpec;
use crate::report::{self, Check, Tier};
use crate::runner::{Action, Cfg, History, Oracles, Runner};

pub const PAGE_SIZES: [u64; 9] = [1024, 1032, 2048, 3000, 4096, 5000, 16384, 65536, 1 << 20];
pub const INIT_PAGES: [usize; 3] = [4, 32, 1000];

pub fn configs() -> Vec<Cfg> {
    let mut v = vec![];
    for &ps in &PAGE_SIZES {
        for &np in &INIT_PAGES {
            for strict in [false, true] {
                for populate in [false, true] {
                    v.push(Cfg { pagesize: ps, num_pages: np, strict, populate, owned_args: false, direct: false });
                }
            }
        }
    }
    v
}

fn tx(ops: Vec<OpSpec>) -> Action {
    Action::Tx { ops, commit: true }
}

/// Histories with key and value sizes expressed as fractions of the page size `p`, so that the
/// split / merge thresholds are hit at every page size.
pub fn histories(p: u64, tier: Tier, heavy: bool) -> Vec<Vec<Action>> {
    let f = |num: u64, den: u64| -> u64 { (p * num / den).max(1) };
    let small = format!("v*{}", f(1, 128).max(8));
    let third = format!("w*{}", f(3, 10)); // 0.3 P: six of them split into three leaves
    let over = format!("x*{}", f(3, 2)); // 1.5 P: one overflow page
    let big = format!("L*{}", f(5, 1)); // 5 P
    let keys = ["k0", "k1", "k2", "k3", "k4", "k5"];
    let base = tx({
        let mut v = vec![OpSpec::bucket("create", &[], "b")];
        for k in keys {
            v.push(OpSpec::put(&["b"], k, &third));
        }
        v
    });
    let mut out: Vec<Vec<Action>> = vec![];
    // kv alphabet on the two-level base: every single-op second commit, a reopen, then one more
    let mut ops = vec![];
    for k in keys {
        for v in [&small, &third, &over] {
            ops.push(OpSpec::put(&["b"], k, v));
        }
        ops.push(OpSpec::del(&["b"], k));
    }
    let stride = if heavy { 6 } else if tier == Tier::Quick { 2 } else { 1 };
    for (i, o) in ops.iter().enumerate().step_by(stride) {
        // (the reopen asks for another initial page count every other time: it only matters at creation)
        let reopen = match (i / stride) % 4 { 1 => Action::ReopenNumPages(1000), 3 => Action::ReopenNumPages(40), _ => Action::Reopen };
        out.push(vec![base.clone(), tx(vec![o.clone()]), reopen, tx(vec![ops[(i * 7 + 3) % ops.len()].clone(), ops[(i * 5 + 11) % ops.len()].clone()])]);
    }
    // shape-dependent deletions: empty the first leaves, everything, every other key
    for (mi, mask) in [0b001111u32, 0b111111, 0b010101, 0b110000, 0b000011].into_iter().enumerate() {
        let dels: Vec<OpSpec> = keys.iter().enumerate().filter(|(i, _)| mask >> i & 1 == 1).map(|(_, k)| OpSpec::del(&["b"], k)).collect();
        // (continued by a handle opened with strict mode and / or map-populate toggled)
        out.push(vec![base.clone(), tx(dels), Action::ReopenFlags(1 + (mi as u8 % 3)), tx(vec![OpSpec::put(&["b"], "k9", &third)]), tx(vec![OpSpec::del(&["b"], "k9"), OpSpec::put(&["b"], "k0", &over)])]);
    }
    // three-level tree: 14 keys of 0.2 P, delete a prefix, re-insert
    let klen = f(1, 5);
    let mut t3 = vec![OpSpec::bucket("create", &[], "t")];
    for i in 0..14 {
        t3.push(OpSpec::put(&["t"], &format!("s{:02}*{}", 2 * i + 1, klen), &small));
    }
    let del6: Vec<OpSpec> = (0..6).map(|i| OpSpec::del(&["t"], &format!("s{:02}*{}", 2 * i + 1, klen))).collect();
    out.push(vec![tx(t3.clone()), tx(del6), Action::Reopen, tx(vec![OpSpec::put(&["t"], &format!("s00*{}", klen), &small)])]);
    // the three-level tree losing almost everything in one transaction (an inner branch is left
    // with a single child and becomes the root), then shrinking further
    let keeps = [vec![13usize], vec![0], vec![6], vec![12, 13], vec![0, 13], vec![5, 6, 7]];
    for keep in keeps.iter().take(if heavy { 1 } else if p >= 65536 { 3 } else { 6 }) {
        let dels: Vec<OpSpec> = (0..14).filter(|i| !keep.contains(i)).map(|i| OpSpec::del(&["t"], &format!("s{:02}*{}", 2 * i + 1, klen))).collect();
        out.push(vec![tx(t3.clone()), tx(dels), tx(vec![OpSpec::put(&["t"], &format!("s00*{}", klen), &small)]), Action::Reopen, tx(vec![OpSpec::del(&["t"], &format!("s{:02}*{}", 2 * keep[0] + 1, klen))])]);
    }
    // long keys (0.4 P): branch pages that need an overflow page; the bucket is deleted / emptied
    {
        let kl = f(2, 5);
        let mut mk = vec![OpSpec::bucket("create", &[], "lk"), OpSpec::bucket("create", &["lk"], "in")];
        for i in 0..8 {
            mk.push(OpSpec::put(&["lk"], &format!("K{}*{}", i, kl), &small));
            mk.push(OpSpec::put(&["lk", "in"], &format!("N{}*{}", i, kl), &small));
        }
        out.push(vec![tx(mk.clone()), tx(vec![OpSpec::bucket("delb", &["lk"], "in")]), tx(vec![OpSpec::bucket("delb", &[], "lk")]), Action::Reopen, tx(vec![OpSpec::bucket("create", &[], "lk"), OpSpec::put(&["lk"], "a", &third)])]);
        if !heavy {
            out.push(vec![tx(mk), tx(vec![OpSpec::bucket("delb", &[], "lk")]), tx((0..4).map(|i| OpSpec::put(&["b2"], &format!("K{}*{}", i, kl), &small)).chain(std::iter::once(OpSpec::bucket("goc", &[], "b2"))).rev().collect())]);
        }
    }
    // legitimately unusual trees under every option set (strict mode must accept them): everything
    // deleted (an empty root leaf), a bucket whose only child is an empty bucket, a value with exactly
    // one overflow page, all of it removed again
    {
        let exact = format!("e*{}", 2 * p - 40 - 32 - 1);
        out.push(vec![
            base.clone(),
            tx(keys.iter().map(|k| OpSpec::del(&["b"], k)).collect()),
            tx(vec![OpSpec::bucket("create", &["b"], "only"), OpSpec::bucket("create", &["b", "only"], "empty")]),
            Action::Reopen,
            tx(vec![OpSpec::put(&["b", "only", "empty"], "o", &exact)]),
            tx(vec![OpSpec::del(&["b", "only", "empty"], "o")]),
            tx(vec![OpSpec::bucket("delb", &["b", "only"], "empty"), OpSpec::bucket("delb", &["b"], "only")]),
            tx(vec![OpSpec::bucket("delb", &[], "b")]),
            Action::Reopen,
            tx(vec![OpSpec::bucket("create", &[], "b"), OpSpec::put(&["b"], "again", &small)]),
        ]);
    }
    // a root branch page of three separators that fills its page to the byte (and one to four bytes
    // less / more): six keys of about a third of a page; strict mode must accept all of them
    if p <= 16384 && !heavy {
        let exact = (p - 40) / 3 - 24;
        for d in 0..9u64 {
            let kl = exact + d - 4;
            let mut mk = vec![OpSpec::bucket("create", &[], "ef")];
            for i in 0..6 {
                mk.push(OpSpec::put(&["ef"], &format!("E{}*{}", i, kl), &small));
            }
            out.push(vec![tx(mk), tx(vec![OpSpec::put(&["ef"], &format!("E6*{}", kl), &small), OpSpec::del(&["ef"], &format!("E0*{}", kl))]), Action::ReopenFlags(1), tx(vec![OpSpec::put(&["ef"], &format!("E0*{}", kl), &small)])]);
        }
    }
    // nested buckets, error kinds, delete nested then ancestor
    out.push(vec![
        tx(vec![OpSpec::bucket("create", &[], "x"), OpSpec::bucket("create", &["x"], "y"), OpSpec::put(&["x", "y"], "in", &third), OpSpec::put(&["x"], "y", &small), OpSpec::bucket("create", &[], "x"), OpSpec::bucket("getb", &["x"], "nope")]),
        tx(vec![OpSpec::bucket("delb", &["x"], "y"), OpSpec::bucket("delb", &[], "x"), OpSpec::bucket("goc", &[], "x"), OpSpec::put(&["x"], "again", &over)]),
        Action::Tx { ops: vec![OpSpec::bucket("delb", &[], "x")], commit: false },
        Action::Reopen,
        tx(vec![OpSpec::put(&["x"], "again", &small), OpSpec::del(&["x"], "nope")]),
    ]);
    // the empty key in a multi-leaf bucket (the first separator of its branch page is "")
    {
        let mut ops = vec![OpSpec::bucket("create", &[], "ek"), OpSpec::put(&["ek"], "", &third)];
        for k in keys {
            ops.push(OpSpec::put(&["ek"], k, &third));
        }
        out.push(vec![tx(ops), tx(vec![OpSpec::put(&["ek"], "k9", &third)]), Action::Reopen, tx(vec![OpSpec::put(&["ek"], "", &small), OpSpec::del(&["ek"], "k0")]), tx(vec![OpSpec::bucket("goc", &[], "other"), OpSpec::put(&["other"], "x", &small)])]);
    }
    // edge sizes: empty key, key longer than a page, values of 0, 1 and 5 pages
    let longkey = format!("K*{}", f(11, 10));
    out.push(vec![
        tx(vec![OpSpec::bucket("create", &[], "e"), OpSpec::put(&["e"], "", ""), OpSpec::put(&["e"], "a", "z"), OpSpec::put(&["e"], &longkey, &big)]),
        tx(vec![OpSpec::put(&["e"], "", &big), OpSpec::del(&["e"], "a"), OpSpec::bucket("create", &["e"], "")]),
        Action::Reopen,
        tx(vec![OpSpec::del(&["e"], &longkey), OpSpec::put(&["e"], "a", &third)]),
    ]);
    out
}

/// A run whose persisted free list climbs one or two ids per commit across the capacity of one
/// page (the list then occupies an overflow page, or is left with one page more than it needs once
/// it has given up its own pages), with a reopen after every commit.
pub fn freelist_boundary_history(p: u64) -> Vec<Action> {
    freelist_boundary_walk(p, 0)
}

/// `variant` 0: delete ascending; 1: delete descending (other pages end up next to the list page);
/// 2: every single delete comes with a put of a fresh one-page value (the commit allocates from the
/// free list it has just loaded); 3: as 2, descending.
pub fn freelist_boundary_walk(p: u64, variant: u8) -> Vec<Action> {
    let cap = (p - 32) / 8;
    let n = cap + 24;
    let val = format!("F*{}", p * 6 / 10);
    let name = |i: u64| -> String { if variant % 2 == 1 { format!("f{:05}", n - 1 - i) } else { format!("f{:05}", i) } };
    let mut ops = vec![OpSpec::bucket("create", &[], "f")];
    for i in 0..n {
        ops.push(OpSpec::put(&["f"], &format!("f{:05}", i), &val));
    }
    let mut acts = vec![tx(ops)];
    let bulk = cap.saturating_sub(14);
    acts.push(tx((0..bulk).map(|i| OpSpec::del(&["f"], &name(i))).collect()));
    acts.push(Action::Reopen);
    for i in bulk..(bulk + 30).min(n) {
        let mut t = vec![OpSpec::del(&["f"], &name(i))];
        if variant >= 2 && i % 2 == 0 {
            t.push(OpSpec::put(&["f"], &format!("g{:05}", i), &val));
        }
        acts.push(tx(t));
        acts.push(Action::Reopen);
    }
    acts.push(tx(vec![OpSpec::put(&["f"], "after", "v*8")]));
    acts
}

/// A free list of more than one page while a reader pins everything (nothing can be taken from the
/// free set, so every new list page is allocated at the end of the file), then released.
/// Needs a pre-sized file: the thread that holds the reader cannot grow the file.
pub fn pinned_freelist_history(p: u64) -> Vec<Action> {
    let cap = (p - 32) / 8;
    let n = cap + 60;
    let val = format!("F*{}", p * 6 / 10);
    let mut ops = vec![OpSpec::bucket("create", &[], "f")];
    for i in 0..n {
        ops.push(OpSpec::put(&["f"], &format!("f{:05}", i), &val));
    }
    let mut acts = vec![tx(ops), tx(vec![OpSpec::put(&["f"], "f00000", &val)]), Action::OpenReader];
    let mut next = 0u64;
    for chunk in [cap + 10, 5, 5, 12] {
        acts.push(tx((next..next + chunk).map(|i| OpSpec::del(&["f"], &format!("f{:05}", i))).collect()));
        next += chunk;
    }
    acts.push(Action::CloseReader(0));
    acts.push(tx(vec![OpSpec::put(&["f"], "after", "v*8")]));
    acts.push(tx(vec![OpSpec::put(&["f"], "after2", &val)]));
    acts.push(Action::Reopen);
    acts.push(tx(vec![OpSpec::put(&["f"], "after3", &val), OpSpec::del(&["f"], "after")]));
    acts
}

/// A run that has to extend the file several times, starting from the configured initial size.
pub fn growth_history(p: u64) -> Vec<Action> {
    // each commit adds about 9 MiB, so every commit crosses at least one 8 MiB extension step
    let per_value = (p * 5).max(64 * 1024);
    let per_commit = (9u64 << 20) / per_value + 1;
    let mut acts = vec![];
    let mut n = 0;
    for c in 0..4 {
        let mut ops = vec![OpSpec::bucket("goc", &[], "g")];
        for _ in 0..per_commit {
            ops.push(OpSpec::put(&["g"], &format!("g{:05}", n), &format!("G{}*{}", n % 7, per_value)));
            n += 1;
        }
        if c == 2 {
            ops.push(OpSpec::del(&["g"], "g00000"));
        }
        acts.push(tx(ops));
    }
    acts.push(Action::Reopen);
    acts.push(tx(vec![OpSpec::put(&["g"], "after", "v*8")]));
    acts
}

fn run_history(path: &str, cfg: &Cfg, acts: &[Action], or: &Oracles) -> (Vec<(String, String)>, u64, u64) {
    let mut out = vec![];
    let mut r = match Runner::new(path, cfg.clone()) {
        Ok(r) => r,
        Err(e) => return (vec![("create_failed".into(), e)], 0, 0),
    };
    for (i, a) in acts.iter().enumerate() {
        for v in r.step(a, or) {
            let class = if cfg.strict && v.class.starts_with("commit_error") { format!("strict_rejects_valid_commit:{}", v.class) } else { v.class };
            out.push((class, format!("step {}: {}", i, v.detail)));
        }
        if r.poisoned {
            break;
        }
    }
    (out, r.stats.commits, r.stats.ops)
}

pub fn worker(idx: usize) {
    real::install_quiet_panic_hook();
    let scratch = report::scratch_dir();
    iosim::set_track_prefix(&scratch);
    let dir = format!("{}/o{}", scratch, idx);
    std::fs::create_dir_all(&dir).ok();
    let path = format!("{}/optx.db", dir);
    crate::pool::serve(|init, job, emit| {
        let iv: Value = serde_json::from_str(init).unwrap();
        let tier = if iv["tier"].as_str() == Some("thorough") { Tier::Thorough } else { Tier::Quick };
        let j: Value = serde_json::from_str(job).unwrap();
        let or = Oracles { rets: true, dump_after: true, fileck: true, dbcheck: true, ..Oracles::NONE };
        if let Some(ps) = j["odd"].as_u64() {
            // one create-commit-reopen history at an unusual page size (or, with "np", an unusually small
            // initial page count); a clean refusal is fine
            emit(&format!("odd {}", ps));
            let np = j["np"].as_u64().unwrap_or(8) as usize;
            let refused = real::guarded(|| jammdb::OpenOptions::new().pagesize(ps).num_pages(np));
            let cfg = Cfg { pagesize: ps, num_pages: np, ..Cfg::default() };
            if refused.is_err() {
                return json!({"odd": ps, "outcome": "refused-by-builder", "v": []}).to_string();
            }
            let _ = std::fs::remove_file(&path);
            match real::guarded(|| cfg.open(&path)) {
                Err(_) | Ok(Err(_)) => return json!({"odd": ps, "outcome": "refused-by-open", "v": []}).to_string(),
                Ok(Ok(db)) => drop(db),
            }
            let hs = histories(ps, Tier::Quick, true);
            let mut viols = vec![];
            for h in hs.iter().take(6) {
                let (v, _, _) = run_history(&path, &cfg, h, &or);
                for (c, d) in v {
                    viols.push(json!([c, d, History { cfg: cfg.clone(), actions: h.clone() }.to_json()]));
                }
            }
            return json!({"odd": ps, "outcome": "works", "v": viols}).to_string();
        }
        if let Some(ps) = j["gsweep"].as_u64() {
            // two commits on a fresh 4-page file: the first grows it by one step, the second ends within
            // a few pages of the (possibly partial) last page of the grown file; swept over value sizes
            emit(&format!("gsweep {}", ps));
            let cfg = Cfg { pagesize: ps, num_pages: 4, strict: j["strict"].as_bool().unwrap_or(false), ..Cfg::default() };
            let l1 = 4 * ps + (8u64 << 20);
            let total = l1 / ps;
            let v1 = (total / 2) * ps;
            let (lo, hi) = (j["lo"].as_u64().unwrap(), j["hi"].as_u64().unwrap());
            let mut viols = vec![];
            let mut nh = 0u64;
            let mut commits = 0u64;
            if let Some(steps) = j["single"].as_u64() {
                // ONE commit on the fresh 4-page file that ends from 12 pages below to 4 pages above the
                // end of the file grown by `steps` growth steps, in half-page steps
                let total = (4 * ps + steps * (8u64 << 20)) / ps;
                for k in lo..hi {
                    let v = (total - 12 - 4) * ps + k * ps / 2;
                    let h = vec![tx(vec![OpSpec::bucket("create", &[], "g"), OpSpec::put(&["g"], "only", &format!("A*{}", v))]), tx(vec![OpSpec::put(&["g"], "after", "v*8")]), Action::Reopen, tx(vec![OpSpec::put(&["g"], "third", "v*8")])];
                    let (v, c, _) = run_history(&path, &cfg, &h, &or);
                    nh += 1;
                    commits += c;
                    for (cl, d) in v {
                        if viols.len() < 20 {
                            viols.push(json!([cl, d, History { cfg: cfg.clone(), actions: h.clone() }.to_json()]));
                        }
                    }
                }
                let _ = std::fs::remove_file(&path);
                return json!({"histories": nh, "commits": commits, "v": viols}).to_string();
            }
            for k in lo..hi {
                // k counts half pages from 24 pages below the boundary
                let v2 = (total - total / 2 - 24) * ps + k * ps / 2;
                // (two buckets: the second value must not make the first one's leaf be rewritten)
                let h = vec![tx(vec![OpSpec::bucket("create", &[], "g"), OpSpec::put(&["g"], "first", &format!("A*{}", v1))]), tx(vec![OpSpec::bucket("create", &[], "h"), OpSpec::put(&["h"], "second", &format!("B*{}", v2))]), Action::Reopen, tx(vec![OpSpec::put(&["h"], "third", "v*8")])];
                let _ = std::fs::write(&marker_hint(&path), format!("gsweep {} {}", ps, k));
                let (v, c, _) = run_history(&path, &cfg, &h, &or);
                nh += 1;
                commits += c;
                for (cl, d) in v {
                    if viols.len() < 20 {
                        viols.push(json!([cl, d, History { cfg: cfg.clone(), actions: h.clone() }.to_json()]));
                    }
                }
            }
            let _ = std::fs::remove_file(&path);
            return json!({"histories": nh, "commits": commits, "v": viols}).to_string();
        }
        let ci = j["cfg"].as_u64().unwrap() as usize;
        let cfg = configs()[ci].clone();
        let heavy = cfg.pagesize * cfg.num_pages as u64 >= (256 << 20);
        let mut viols = vec![];
        let mut commits = 0u64;
        let mut nh = 0u64;
        let mut hs = histories(cfg.pagesize, tier, heavy);
        if j["growth"].as_bool().unwrap_or(false) {
            hs = vec![growth_history(cfg.pagesize)];
        }
        if j["flb"].as_bool().unwrap_or(false) {
            hs = vec![freelist_boundary_history(cfg.pagesize)];
        }
        for (hi, h) in hs.iter().enumerate() {
            emit(&format!("cfg {} history {}", ci, hi));
            let (v, c, _) = run_history(&path, &cfg, h, &or);
            commits += c;
            nh += 1;
            for (cl, d) in v {
                if viols.len() < 20 {
                    viols.push(json!([cl, d, History { cfg: cfg.clone(), actions: h.clone() }.to_json()]));
                }
            }
        }
        let _ = std::fs::remove_file(&path);
        json!({"histories": nh, "commits": commits, "v": viols}).to_string()
    });
}

fn marker_hint(path: &str) -> String {
    format!("{}.case", path)
}

pub fn odd_sizes() -> Vec<u64> {
    let mut v: Vec<u64> = (1024..=1100).collect();
    v.extend(4095..=4104);
    v.retain(|p| *p >= 1024);
    v
}

pub fn run(check: &mut Check) {
    let tier = check.tier;
    let scratch = report::scratch_dir();
    std::env::set_var("VCHECK_ENTROPY_SEED", check.seed.max(1).to_string());
    let init = json!({"tier": tier.name()}).to_string();
    let cfgs = configs();
    // the 1 GiB files (1 MiB pages x 1000) are run one at a time after everything else
    let is_huge = |c: &Cfg| c.pagesize * c.num_pages as u64 >= (512 << 20);
    let mut jobs = vec![];
    let mut meta: Vec<(String, Option<usize>)> = vec![];
    for (ci, c) in cfgs.iter().enumerate() {
        if is_huge(c) {
            continue;
        }
        jobs.push(json!({"cfg": ci}).to_string());
        meta.push((format!("cfg {}", ci), Some(ci)));
        // growth from the configured initial size: for the minimum initial size at every page size,
        // and for every initial size at the two smallest page sizes
        if (c.num_pages == 4 || c.pagesize <= 1032) && !c.populate {
            jobs.push(json!({"cfg": ci, "growth": true}).to_string());
            meta.push((format!("cfg {} growth", ci), Some(ci)));
        }
    }
    // free list across the one-page capacity, reopened after every commit
    let mut flb_runs = 0u64;
    for (ci, c) in cfgs.iter().enumerate() {
        let max_ps = if tier == Tier::Quick { 5000 } else { 16384 };
        if c.pagesize <= max_ps && !c.populate && (c.num_pages == 32 || (tier == Tier::Thorough && c.pagesize <= 5000)) {
            jobs.push(json!({"cfg": ci, "flb": true}).to_string());
            meta.push((format!("cfg {} free-list-boundary", ci), Some(ci)));
            flb_runs += 1;
        }
    }
    // growth boundary: page sizes that do not divide the 8 MiB growth step (the grown file ends in a
    // partial page) and one that does
    let mut gsweep_runs = 0u64;
    // ... and single commits that grow the fresh file by one and by two steps
    for ps in [1032u64, 3000, 4600, 5000, 4096] {
        for steps in [1u64, 2] {
            if tier == Tier::Quick && steps == 2 && ps == 4096 {
                continue;
            }
            for chunk in 0..2u64 {
                jobs.push(json!({"gsweep": ps, "single": steps, "strict": false, "lo": chunk * 16, "hi": (chunk + 1) * 16}).to_string());
                meta.push((format!("growth-boundary single-commit sweep page size {} steps {} chunk {}", ps, steps, chunk), None));
                gsweep_runs += 16;
            }
        }
    }
    for ps in [1032u64, 3000, 5000, 4096] {
        for strict in [false, true] {
            if strict && tier == Tier::Quick && ps != 3000 {
                continue;
            }
            for chunk in 0..4u64 {
                jobs.push(json!({"gsweep": ps, "strict": strict, "lo": chunk * 15, "hi": (chunk + 1) * 15}).to_string());
                meta.push((format!("growth-boundary sweep page size {} chunk {}", ps, chunk), None));
                gsweep_runs += 15;
            }
        }
    }
    for ps in odd_sizes() {
        jobs.push(json!({"odd": ps}).to_string());
        meta.push((format!("odd {}", ps), None));
    }
    // initial page counts below the four pages every database needs
    for ps in [1024u64, 4096] {
        for np in 0..4u64 {
            jobs.push(json!({"odd": ps, "np": np}).to_string());
            meta.push((format!("odd {} (num_pages {})", ps, np), None));
        }
    }
    let mut histories_run = 0u64;
    let mut commits = 0u64;
    let mut odd_outcomes: std::collections::BTreeMap<String, Vec<u64>> = Default::default();
    let mut found: Vec<(String, String, String, Value)> = vec![];
    let mut configs_done = 0u64;
    let mut growth_runs = 0u64;
    let mut handle = |label: &str, o: Outcome, found: &mut Vec<(String, String, String, Value)>| match o {
        Outcome::Done(r) => {
            let v: Value = serde_json::from_str(&r).unwrap_or(Value::Null);
            histories_run += v["histories"].as_u64().unwrap_or(0);
            commits += v["commits"].as_u64().unwrap_or(0);
            if let Some(ps) = v["odd"].as_u64() {
                odd_outcomes.entry(v["outcome"].as_str().unwrap_or("?").to_string()).or_default().push(ps);
            } else if label.ends_with("growth") || label.ends_with("boundary") || label.starts_with("growth-boundary") {
                growth_runs += label.ends_with("growth") as u64;
            } else {
                configs_done += 1;
            }
            for x in v["v"].as_array().cloned().unwrap_or_default() {
                found.push((label.to_string(), x[0].as_str().unwrap_or("").into(), x[1].as_str().unwrap_or("").into(), x[2].clone()));
            }
        }
        Outcome::Crashed { last_marker, status, stderr_tail } => {
            found.push((label.to_string(), "process_death".into(), format!("process died ({}) at {:?}; stderr: {}", status, last_marker, stderr_tail), Value::Null));
        }
        Outcome::Timeout { last_marker } => {
            found.push((label.to_string(), "hang".into(), format!("no answer at {:?}", last_marker), Value::Null));
        }
    };
    {
        let mut pool = Pool::new("optx", &init, report::ncpu(), &scratch);
        pool.job_timeout = std::time::Duration::from_secs(900);
        pool.run(jobs, |ji, o| handle(&meta[ji].0, o, &mut found));
    }
    {
        let mut pool = Pool::new("optx", &init, 1, &scratch);
        pool.job_timeout = std::time::Duration::from_secs(1800);
        let mut jobs = vec![];
        let mut meta2 = vec![];
        for (ci, c) in cfgs.iter().enumerate() {
            // (quick: the two 1 GiB configurations with map-populate, which prefault the whole file at
            // every open, are left to the thorough tier)
            if is_huge(c) && !(tier == Tier::Quick && c.populate) {
                jobs.push(json!({"cfg": ci}).to_string());
                meta2.push(format!("cfg {}", ci));
            }
        }
        pool.run(jobs, |ji, o| handle(&meta2[ji], o, &mut found));
    }
    for (label, class, detail, hist) in found {
        let odd = label.starts_with("odd");
        let ps = hist["cfg"]["pagesize"].as_u64().or_else(|| label.strip_prefix("odd ").and_then(|s| s.parse().ok())).unwrap_or(0);
        let tag = if odd { format!("page size {} (multiple of 8: {})", ps, ps % 8 == 0) } else { format!("{} {}", label, hist["cfg"]) };
        check.violation(&class, &format!("[{}] {}", tag, detail), || if hist.is_null() { json!({"engine": "optx", "odd": ps}) } else { json!({"engine": "seqx", "seed": 1, "history": hist}) });
    }
    check.sample(json!({"config": cfgs[37].to_json(), "history": histories(cfgs[37].pagesize, tier, false)[3].iter().map(|a| a.to_json()).collect::<Vec<_>>()}));
    check.cov("evaluations", json!(histories_run));
    check.cov("distinct_nontrivial", json!(configs_done));
    check.cov("rule", json!("one evaluation = one history executed from a fresh file under one configuration with every return value, every post-commit dump, the independent file check and DB::check() compared with the reference model; distinct_nontrivial = configurations of the product page size x initial pages x strict x populate that ran their full history set (all of them distinct, all non-default except one)"));
    check.cov("configurations", json!(cfgs.len()));
    check.cov("configurations_run", json!(configs_done));
    check.cov("growth_runs_crossing_extension_steps", json!(growth_runs));
    check.cov("free_list_boundary_runs", json!(flb_runs));
    check.cov("growth_boundary_sweep_runs", json!(gsweep_runs));
    check.cov("commits", json!(commits));
    check.cov("odd_page_sizes", json!(odd_outcomes));
    check.cov("exhaustive", json!(true));
}

pub fn replay_odd(v: &Value) -> i32 {
    println!("odd page size {}: re-run `vcheck check C16`; the case runs in a probe process because it may abort", v["odd"]);
    1
}
