//! C10 scenarios (closure search) — filled in below.
use crate::report::Tier;
use crate::runner::Runner;
use crate::seqx::Scenario;
pub fn scenarios(_tier: Tier) -> Vec<Scenario> { vec![] }
pub fn rel_digest(r: &Runner, _bytes: &[u8]) -> u128 { r.digest() }
