//! C10: freed space is reused.  (a) closure search: the complete reachable state graph of small
//! cyclic workloads, keyed by a digest without absolute transaction ids; a fixpoint proves the page
//! high-water mark bounded for all infinite runs over that alphabet.  (b) long deterministic laps.

use serde_json::{json, Value};

use crate::fileck;
use crate::iosim;
use crate::pool::{Outcome, Pool};
use crate::real;
use crate::refmodel::{BucketM, Item, OpSpec};
use crate::report::{self, Check, Tier};
use crate::runner::{hash128, Action, Cfg, Oracles, Runner};
use crate::seqx::Scenario;

fn tx(ops: Vec<OpSpec>) -> Action {
    Action::Tx { ops, commit: true }
}

fn render_masked(m: &BucketM, out: &mut String) {
    out.push('{');
    for (k, it) in &m.items {
        match it {
            Item::Kv(v) => {
                out.push_str(&format!("{:x}={:x} ", hash128(k) as u64, hash128(v) as u64));
            }
            Item::Bucket(s) => {
                out.push_str(&format!("{:x}:", hash128(k) as u64));
                render_masked(s, out);
            }
        }
    }
    out.push('}');
}

/// Digest of a state without anything that grows with the number of transactions.
pub fn rel_digest(r: &Runner, bytes: &[u8]) -> u128 {
    let (file_part, cur_tx) = match fileck::check(bytes, r.cfg.pagesize) {
        Ok(rep) => (rep.rel_hash ^ ((rep.errors.len() as u128) << 100), rep.tx_id),
        Err(_) => (hash128(bytes), 0),
    };
    let s = r.db().verif_snapshot();
    let mut extra = format!("free{:?}", s.free);
    // pending lists keyed by age relative to the current header
    for (id, pages) in &s.pending {
        let mut p = pages.clone();
        p.sort_unstable();
        p.dedup();
        extra.push_str(&format!("p{}:{:?}", cur_tx as i64 - *id as i64, p));
    }
    for id in &s.open_ro {
        extra.push_str(&format!("r{}", cur_tx as i64 - *id as i64));
    }
    for (m, age) in r.reader_models() {
        extra.push_str(&format!("R{}", age));
        render_masked(m, &mut extra);
    }
    file_part ^ hash128(extra.as_bytes()).rotate_left(17)
}

pub fn scenarios(tier: Tier) -> Vec<Scenario> {
    let q = tier == Tier::Quick;
    let mut out = vec![];
    let keys = ["a", "b", "c"];
    let base = |vals: &str| -> Vec<Action> {
        let mut ops = vec![OpSpec::bucket("create", &[], "w")];
        for k in keys {
            ops.push(OpSpec::put(&["w"], k, vals));
        }
        vec![tx(ops), Action::Reopen]
    };
    let or = Oracles::NONE;
    let cfg = Cfg { num_pages: 64, ..Cfg::default() };
    let mk = |name: &str, setup: Vec<Action>, alpha: Vec<Action>, depth: usize, cap: usize| {
        let mut sc = Scenario::new(name, cfg.clone(), setup, Box::new(alpha), depth, or);
        sc.rel_digest = true;
        sc.state_cap = cap;
        sc.max_readers = 1;
        sc.reader_commit_limit = Some(3);
        sc
    };
    // W1: overwrite each of 3 keys with one fixed size, reopen
    let mut a1: Vec<Action> = vec![Action::Reopen];
    for k in keys {
        a1.push(tx(vec![OpSpec::put(&["w"], k, "p*100")]));
    }
    out.push(mk("overwrite-fixed-size", base("p*100"), a1.clone(), 64, 50_000));
    // W2: two sizes
    let mut a2: Vec<Action> = vec![Action::Reopen];
    for k in keys {
        for v in ["p*100", "q*400"] {
            a2.push(tx(vec![OpSpec::put(&["w"], k, v)]));
        }
    }
    out.push(mk("overwrite-two-sizes", base("p*100"), a2.clone(), 64, if q { 60_000 } else { 400_000 }));
    // W2b: fixed-size overwrites mixed with rolled-back transactions (abandoned work must not cost pages)
    let mut a2b: Vec<Action> = vec![Action::Reopen];
    for k in keys {
        a2b.push(tx(vec![OpSpec::put(&["w"], k, "p*100")]));
    }
    a2b.push(Action::Tx { ops: vec![OpSpec::put(&["w"], "a", "q*400"), OpSpec::put(&["w"], "zz", "x*1500")], commit: false });
    a2b.push(Action::Tx { ops: vec![OpSpec::bucket("delb", &[], "w")], commit: false });
    out.push(mk("overwrite-with-rollbacks", base("p*100"), a2b, 64, if q { 60_000 } else { 400_000 }));
    // W3: delete / re-insert (insertion counters masked in the key)
    let mut a3: Vec<Action> = vec![Action::Reopen];
    for k in keys {
        a3.push(tx(vec![OpSpec::del(&["w"], k)]));
        a3.push(tx(vec![OpSpec::put(&["w"], k, "p*100")]));
    }
    out.push(mk("delete-reinsert", base("p*100"), a3, 64, if q { 60_000 } else { 400_000 }));
    // W4: delete and recreate a bucket next to a stable one
    let a4: Vec<Action> = vec![
        Action::Reopen,
        tx(vec![OpSpec::bucket("delb", &[], "w")]),
        tx(vec![OpSpec::bucket("goc", &[], "w"), OpSpec::put(&["w"], "a", "p*100"), OpSpec::put(&["w"], "b", "q*400")]),
        tx(vec![OpSpec::bucket("goc", &[], "w"), OpSpec::put(&["w"], "c", "p*100")]),
        tx(vec![OpSpec::bucket("goc", &[], "keep"), OpSpec::put(&["keep"], "x", "p*100")]),
    ];
    out.push(mk("bucket-delete-recreate", base("p*100"), a4, 64, if q { 60_000 } else { 400_000 }));
    // W5: fixed-size overwrites with one reader that may stay open across at most 3 commits
    let mut a5: Vec<Action> = vec![Action::OpenReader, Action::CloseReader(0)];
    for k in keys {
        a5.push(tx(vec![OpSpec::put(&["w"], k, "p*100")]));
    }
    let mut sc = mk("overwrite-with-pinned-reader", base("p*100"), a5, 64, if q { 60_000 } else { 400_000 });
    sc.cfg.num_pages = 512;
    out.push(sc);
    {
        // W6: an overflow value coming and going
        let mut a6: Vec<Action> = vec![Action::Reopen];
        for k in ["a", "b"] {
            for v in ["p*100", "x*1500"] {
                a6.push(tx(vec![OpSpec::put(&["w"], k, v)]));
            }
        }
        out.push(mk("overflow-come-and-go", base("p*100"), a6, 64, 400_000));
    }
    if !q {
        // W7: two sizes with a pinned reader
        let mut a7: Vec<Action> = vec![Action::OpenReader, Action::CloseReader(0)];
        for k in ["a", "b"] {
            for v in ["p*100", "q*400"] {
                a7.push(tx(vec![OpSpec::put(&["w"], k, v)]));
            }
        }
        let mut sc = mk("two-sizes-with-pinned-reader", base("p*100"), a7, 64, 400_000);
        sc.cfg.num_pages = 512;
        out.push(sc);
    }
    out
}

// ---------------------------------------------------------------------------------------------
// (b) long deterministic laps

pub struct Lap {
    /// every `period` transactions: open three readers on three different snapshots, then close
    /// them oldest first, newest next, middle last (0 = never)
    pub three_readers_every: usize,
    pub name: &'static str,
    pub reopen_every: usize,
    /// (start, length) in transactions of a stretch during which one reader is held open
    pub reader_stretch: Option<(usize, usize)>,
    pub kind: u8,
}

pub fn laps() -> Vec<Lap> {
    vec![
        Lap { three_readers_every: 0, name: "fixed-size-overwrite", reopen_every: 0, reader_stretch: None, kind: 0 },
        Lap { three_readers_every: 0, name: "fixed-size-overwrite-reopen-every-50", reopen_every: 50, reader_stretch: None, kind: 0 },
        Lap { three_readers_every: 0, name: "variable-size-overwrite", reopen_every: 0, reader_stretch: None, kind: 1 },
        Lap { three_readers_every: 0, name: "variable-size-overwrite-reopen-every-37", reopen_every: 37, reader_stretch: None, kind: 1 },
        Lap { three_readers_every: 0, name: "delete-reinsert-and-bucket-delete", reopen_every: 0, reader_stretch: None, kind: 2 },
        Lap { three_readers_every: 0, name: "delete-reinsert-and-bucket-delete-reopen-every-101", reopen_every: 101, reader_stretch: None, kind: 2 },
        Lap { three_readers_every: 0, name: "variable-size-with-reader-held-for-a-stretch", reopen_every: 0, reader_stretch: Some((300, 40)), kind: 1 },
        Lap { three_readers_every: 0, name: "bucket-delete-with-reader-held-for-a-stretch", reopen_every: 0, reader_stretch: Some((500, 25)), kind: 2 },
        Lap { three_readers_every: 0, name: "fill-320-keys-delete-all-reopen (free list longer than one page)", reopen_every: 2, reader_stretch: None, kind: 3 },
        Lap { three_readers_every: 0, name: "fill-320-keys-delete-all-reopen-every-7", reopen_every: 7, reader_stretch: None, kind: 3 },
        Lap { three_readers_every: 0, name: "fixed-size-overwrite-reopen-every-997 (thorough: 70 000 transactions, ids beyond 2^16)", reopen_every: 997, reader_stretch: None, kind: 0 },
        Lap { three_readers_every: 0, name: "modify-delete-recreate-refill-a-bucket-in-one-transaction", reopen_every: 50, reader_stretch: None, kind: 4 },
        Lap { three_readers_every: 0, name: "long-keys-overwrite (multi-page branch and leaf pages)", reopen_every: 0, reader_stretch: None, kind: 5 },
        Lap { three_readers_every: 0, name: "long-keys-overwrite-reopen-every-40", reopen_every: 40, reader_stretch: None, kind: 5 },
        Lap { three_readers_every: 0, name: "one-9-MiB-value-overwritten (24 transactions)", reopen_every: 0, reader_stretch: None, kind: 6 },
        Lap { three_readers_every: 0, name: "nested-bucket-then-ancestor-deleted-and-rebuilt", reopen_every: 0, reader_stretch: None, kind: 7 },
        Lap { three_readers_every: 3000, name: "fixed-size-overwrite-with-a-reader-dropped-by-a-panic-every-25", reopen_every: 0, reader_stretch: None, kind: 0 },
        Lap { three_readers_every: 4000, name: "fixed-size-with-a-failed-final-sync-then-a-short-reader-every-50", reopen_every: 0, reader_stretch: None, kind: 0 },
        Lap { three_readers_every: 2000, name: "reopen-then-reader-before-the-first-writer-every-round", reopen_every: 0, reader_stretch: None, kind: 1 },
        Lap { three_readers_every: 1037, name: "variable-size-with-two-readers-of-the-same-snapshot-every-37 (first one closed early)", reopen_every: 0, reader_stretch: None, kind: 1 },
        Lap { three_readers_every: 60, name: "variable-size-with-three-overlapping-readers-every-60", reopen_every: 0, reader_stretch: None, kind: 1 },
        Lap { three_readers_every: 45, name: "fixed-size-with-three-overlapping-readers-every-45", reopen_every: 0, reader_stretch: None, kind: 0 },
    ]
}

fn lap_ops(kind: u8, i: usize) -> Vec<OpSpec> {
    let k = format!("key{:02}", (i * 7) % 20);
    if kind == 3 {
        // even: insert a block of 320 x 300 B (about 130 pages); odd: delete it again
        return if i % 2 == 0 { (0..320).map(|j| OpSpec::put(&["lap"], &format!("blk{:03}", j), "b*300")).collect() } else { (0..320).map(|j| OpSpec::del(&["lap"], &format!("blk{:03}", j))).collect() };
    }
    if kind == 6 {
        // a single value larger than one growth step, rewritten by every transaction
        return vec![OpSpec::put(&["lap"], "huge", if i % 2 == 0 { "P*9437184" } else { "Q*9437184" })];
    }
    if kind == 7 {
        // even: build anc/inner with a few pages each; odd: delete the nested bucket, then its ancestor
        return if i % 2 == 0 {
            let mut v = vec![OpSpec::bucket("create", &["lap"], "anc"), OpSpec::bucket("create", &["lap", "anc"], "inner")];
            for j in 0..6 {
                v.push(OpSpec::put(&["lap", "anc"], &format!("a{}", j), "b*300"));
                v.push(OpSpec::put(&["lap", "anc", "inner"], &format!("n{}", j), "b*300"));
            }
            v
        } else {
            vec![OpSpec::bucket("delb", &["lap", "anc"], "inner"), OpSpec::bucket("delb", &["lap"], "anc")]
        };
    }
    if kind == 4 {
        // a committed bucket is modified, deleted, created again under the same name and refilled,
        // all in one transaction
        let mut v = vec![OpSpec::bucket("goc", &["lap"], "sub"), OpSpec::put(&["lap", "sub"], "touch", "t*40"), OpSpec::bucket("delb", &["lap"], "sub"), OpSpec::bucket("create", &["lap"], "sub")];
        for j in 0..8 {
            v.push(OpSpec::put(&["lap", "sub"], &format!("r{}", j), if (i + j) % 3 == 0 { "c*900" } else { "b*300" }));
        }
        return v;
    }
    if kind == 5 {
        // 24 keys of 600 bytes (page size 1024): leaves and branches that occupy several pages
        if i == 0 {
            return (0..24).map(|j| OpSpec::put(&["lap"], &format!("L{:02}*600", j), "b*300")).collect();
        }
        return vec![OpSpec::put(&["lap"], &format!("L{:02}*600", (i * 7) % 24), if i % 2 == 0 { "b*300" } else { "h*310" }), OpSpec::put(&["lap"], &format!("L{:02}*600", (i * 5 + 3) % 24), "b*300")];
    }
    match kind {
        0 => vec![OpSpec::put(&["lap"], &k, "f*200"), OpSpec::put(&["lap"], &format!("key{:02}", (i * 3 + 1) % 20), "f*200")],
        1 => {
            let sizes = ["a*40", "b*300", "c*900", "d*1500", "e*3200", "g*120"];
            vec![OpSpec::put(&["lap"], &k, sizes[i % sizes.len()]), OpSpec::put(&["lap"], &format!("key{:02}", (i * 11 + 5) % 20), sizes[(i / 3) % sizes.len()])]
        }
        _ => match i % 5 {
            0 => vec![OpSpec::del(&["lap"], &k)],
            1 => vec![OpSpec::put(&["lap"], &k, "b*300"), OpSpec::put(&["lap"], &format!("key{:02}", (i + 1) % 20), "b*300")],
            2 => vec![OpSpec::bucket("goc", &["lap"], "sub"), OpSpec::put(&["lap", "sub"], &k, "c*900"), OpSpec::put(&["lap", "sub"], "more", "b*300")],
            3 => vec![OpSpec::bucket("delb", &["lap"], "sub")],
            _ => vec![OpSpec::put(&["lap"], &k, "a*40"), OpSpec::del(&["lap"], &format!("key{:02}", (i * 13) % 20))],
        },
    }
}

pub fn run_lap(lap: &Lap, n: usize, path: &str) -> Value {
    // a reader held by the same thread forbids growth (documented self-deadlock): pre-size the file
    let cfg = Cfg { num_pages: if lap.reader_stretch.is_some() || lap.three_readers_every > 0 { 4096 } else { 32 }, ..Cfg::default() };
    let mut viols: Vec<Value> = vec![];
    let mut r = match Runner::new(path, cfg.clone()) {
        Ok(r) => r,
        Err(e) => return json!({"err": e}),
    };
    let mut setup = vec![OpSpec::bucket("create", &[], "lap")];
    for i in 0..20 {
        setup.push(OpSpec::put(&["lap"], &format!("key{:02}", i), "f*200"));
    }
    r.step(&tx(setup), &Oracles::NONE);
    let mut max_live = 0u64;
    let mut hw_series: Vec<u64> = vec![];
    let mut max_first_half = 0u64;
    let mut max_second_half = 0u64;
    let mut reader_closed_at: Option<(usize, u64)> = None;
    let mut file_len_max = 0u64;
    let check_every = 1usize;
    let n = if lap.kind == 6 { 24 } else if lap.kind == 3 { n / 5 } else if lap.name.contains("beyond 2^16") && n >= 20_000 { 70_000 } else { n };
    for i in 0..n {
        if lap.reopen_every > 0 && i % lap.reopen_every == lap.reopen_every - 1 && r.num_readers() == 0 {
            r.step(&Action::Reopen, &Oracles::NONE);
        }
        if let Some((s, len)) = lap.reader_stretch {
            if i == s {
                r.step(&Action::OpenReader, &Oracles::NONE);
            }
            if i == s + len {
                r.step(&Action::CloseReader(0), &Oracles::NONE);
            }
        }
        if lap.three_readers_every == 4000 {
            // every 50 transactions: a commit whose final sync fails (it reports the error; its header
            // is in the file), then a reader that begins and ends before the next writer
            if i % 50 == 20 {
                r.step(&Action::TxFail { ops: lap_ops(lap.kind, i + 5), call: 1001 }, &Oracles::NONE);
                if !r.poisoned {
                    r.step(&Action::OpenReader, &Oracles::NONE);
                    r.step(&Action::CloseReader(0), &Oracles::NONE);
                }
            }
        } else if lap.three_readers_every == 3000 {
            if i % 25 == 7 {
                r.step(&Action::PanicWithReader, &Oracles::NONE);
            }
        } else if lap.three_readers_every == 2000 {
            // every round: close and reopen the handle, open a reader, one commit, close the reader
            if r.num_readers() > 0 {
                r.step(&Action::CloseReader(0), &Oracles::NONE);
            }
            r.step(&Action::Reopen, &Oracles::NONE);
            r.step(&Action::OpenReader, &Oracles::NONE);
        } else if lap.three_readers_every > 1000 && i < n / 2 {
            // two readers of the same snapshot; the first is closed after four commits, the second
            // stays for ten more and must still see its snapshot (re-dumped after every commit)
            match i % (lap.three_readers_every - 1000) {
                10 => {
                    r.step(&Action::OpenReader, &Oracles::NONE);
                    r.step(&Action::OpenReader, &Oracles::NONE);
                }
                14 => {
                    r.step(&Action::CloseReader(0), &Oracles::NONE);
                }
                24 => {
                    r.step(&Action::CloseReader(0), &Oracles::NONE);
                }
                _ => {}
            }
        } else if lap.three_readers_every > 0 && i < n / 2 {
            // readers on three different snapshots; closed oldest, newest, middle; nothing pinned afterwards
            match i % lap.three_readers_every {
                10 | 12 | 14 => {
                    r.step(&Action::OpenReader, &Oracles::NONE);
                }
                16 => {
                    r.step(&Action::CloseReader(0), &Oracles::NONE);
                }
                18 => {
                    r.step(&Action::CloseReader(1), &Oracles::NONE);
                }
                20 => {
                    r.step(&Action::CloseReader(0), &Oracles::NONE);
                }
                _ => {}
            }
        }
        if i % 10 == 9 {
            // every tenth transaction is abandoned: it must not cost any page afterwards
            let mut ops = if lap.kind == 3 || lap.kind == 6 || lap.kind == 7 { vec![] } else { lap_ops(lap.kind, i + 3) };
            ops.push(OpSpec::put(&["lap"], "abandoned", "e*3200"));
            r.step(&Action::Tx { ops, commit: false }, &Oracles::NONE);
        }
        let ops = lap_ops(lap.kind, i);
        let or = if lap.three_readers_every > 1000 && lap.three_readers_every < 2000 && r.num_readers() > 0 { Oracles { readers_frozen: true, ..Oracles::NONE } } else if i % 97 == 0 { Oracles { dump_after: true, ..Oracles::NONE } } else { Oracles::NONE };
        let v = r.step(&tx(ops), &or);
        for x in v {
            if viols.len() < 5 {
                viols.push(json!([format!("lap:{}", x.class), format!("transaction {}: {}", i, x.detail)]));
            }
        }
        if r.poisoned {
            break;
        }
        // a leaking build is certain long before the end of the lap: stop as soon as the mark is
        // beyond anything a reusing store can need (also keeps the file from outgrowing its pre-sizing)
        let allowance = lap.reader_stretch.map(|(_, len)| len as u64 * 64).unwrap_or(0) + if lap.three_readers_every > 0 { 160 } else { 0 };
        if hw_series.last().copied().unwrap_or(0) > 4 * max_live + 16 + allowance && i > 50 {
            break;
        }
        if i % check_every == 0 {
            let bytes = r.file_bytes();
            if let Ok(rep) = fileck::check(&bytes, cfg.pagesize) {
                max_live = max_live.max(rep.live_pages);
                hw_series.push(rep.num_pages);
                if i < n / 2 {
                    max_first_half = max_first_half.max(rep.num_pages);
                } else {
                    max_second_half = max_second_half.max(rep.num_pages);
                }
                if !rep.ok() && viols.len() < 5 {
                    viols.push(json!(["lap:fileck", format!("transaction {}: {}", i, rep.errors[0])]));
                }
                if let Some((s, len)) = lap.reader_stretch {
                    if i == s + len {
                        reader_closed_at = Some((i, rep.num_pages));
                    }
                }
            }
            file_len_max = file_len_max.max(std::fs::metadata(path).map(|m| m.len()).unwrap_or(0));
        }
    }
    let hw = hw_series.iter().copied().max().unwrap_or(0);
    let budget = 4 * max_live + 16;
    // (while a reader pins a snapshot everything freed after it is legitimately retained, so the
    // absolute budget applies to the laps without a reader; those with one are judged by the
    // plateau and the settle-after-close rules below)
    let allowance = lap.reader_stretch.map(|(_, len)| len as u64 * 64).unwrap_or(0) + if lap.three_readers_every > 0 { 160 } else { 0 };
    if hw > budget + allowance {
        viols.push(json!(["unbounded_growth", format!("high-water mark {} pages exceeds 4 x the largest snapshot ({} pages) + 16{} after {} transactions", hw, max_live, if allowance > 0 { format!(" + {} for the pinned stretch", allowance) } else { String::new() }, hw_series.len())]));
    }
    if max_second_half > max_first_half && lap.reader_stretch.map(|(s, l)| s + l < n / 2).unwrap_or(true) && n >= 1000 {
        viols.push(json!(["no_plateau", format!("the high-water mark still rose in the second half of the run: {} pages in the first half, {} in the second", max_first_half, max_second_half)]));
    }
    if let Some((at, hw_at)) = reader_closed_at {
        // after the pinned reader closes, the mark must stop rising within max_live further commits
        let settle = at + max_live as usize + 2;
        if settle < hw_series.len() {
            let after = hw_series[settle..].iter().copied().max().unwrap_or(0);
            let at_settle = hw_series[..=settle].iter().copied().max().unwrap_or(0);
            if after > at_settle {
                viols.push(json!(["no_reuse_after_reader_closed", format!("reader closed at transaction {} (mark {}), but the mark kept rising after transaction {}: {} -> {}", at, hw_at, settle, at_settle, after)]));
            }
        }
    }
    let len_budget = ((hw * cfg.pagesize) / (8 << 20) + 2) * (8 << 20) + cfg.pagesize * cfg.num_pages as u64;
    if file_len_max > len_budget {
        viols.push(json!(["file_length", format!("file length {} exceeds the high-water mark rounded up by the growth step ({})", file_len_max, len_budget)]));
    }
    json!({"v": viols, "transactions": n, "high_water": hw, "largest_snapshot_pages": max_live, "first_half_max": max_first_half, "second_half_max": max_second_half, "file_len_max": file_len_max})
}

pub fn lap_worker(idx: usize) {
    real::install_quiet_panic_hook();
    let scratch = report::scratch_dir();
    iosim::set_track_prefix(&scratch);
    let dir = format!("{}/l{}", scratch, idx);
    std::fs::create_dir_all(&dir).ok();
    let path = format!("{}/lap.db", dir);
    crate::pool::serve(|init, job, emit| {
        let iv: Value = serde_json::from_str(init).unwrap();
        let n = iv["n"].as_u64().unwrap_or(2000) as usize;
        let i: usize = job.trim().parse().unwrap();
        emit(&i.to_string());
        let ls = laps();
        match real::guarded(|| run_lap(&ls[i], n, &path)) {
            Ok(v) => v.to_string(),
            Err(p) => json!({"v": [["lap:harness_panic", p]]}).to_string(),
        }
    });
}

pub fn run_laps(check: &mut Check) -> (u64, Vec<Value>) {
    let tier = check.tier;
    let n = if tier == Tier::Quick { 2000 } else { 20000 };
    let scratch = report::scratch_dir();
    let init = json!({"n": n}).to_string();
    let mut pool = Pool::new("c10laps", &init, report::ncpu().min(laps().len()), &scratch);
    pool.job_timeout = std::time::Duration::from_secs(1800);
    let ls = laps();
    let mut rows = vec![];
    let mut found = vec![];
    let mut total = 0u64;
    pool.run((0..ls.len()).map(|i| i.to_string()).collect(), |ji, o| match o {
        Outcome::Done(r) => {
            let v: Value = serde_json::from_str(&r).unwrap_or(Value::Null);
            total += v["transactions"].as_u64().unwrap_or(0);
            rows.push(json!({"lap": ls[ji].name, "transactions": v["transactions"], "high_water_pages": v["high_water"], "largest_snapshot_pages": v["largest_snapshot_pages"], "first_half_max": v["first_half_max"], "second_half_max": v["second_half_max"]}));
            for x in v["v"].as_array().cloned().unwrap_or_default() {
                found.push((ji, x[0].as_str().unwrap_or("").to_string(), x[1].as_str().unwrap_or("").to_string()));
            }
        }
        other => found.push((ji, "process_death".into(), format!("{:?}", other))),
    });
    for (ji, c, d) in found {
        check.violation(&c, &format!("[lap {}] {}", ls[ji].name, d), || json!({"engine": "c10laps", "lap": ji, "lap_name": ls[ji].name, "n": n}));
    }
    (total, rows)
}

pub fn replay_lap(v: &Value) -> i32 {
    real::install_quiet_panic_hook();
    let scratch = report::scratch_dir();
    iosim::set_track_prefix(&scratch);
    let ls = laps();
    let i = v["lap"].as_u64().unwrap_or(0) as usize;
    let n = v["n"].as_u64().unwrap_or(2000) as usize;
    let r = run_lap(&ls[i], n, &format!("{}/replay.db", scratch));
    println!("{}", serde_json::to_string_pretty(&r).unwrap());
    report::cleanup_scratch(&scratch);
    if r["v"].as_array().map(|a| a.is_empty()).unwrap_or(true) {
        0
    } else {
        1
    }
}
