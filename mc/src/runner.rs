//! Executes histories (sequences of whole-transaction actions) on the real library next to the
//! reference model and evaluates the oracles after every step.

use std::os::unix::fs::FileExt;

use jammdb::{OpenOptions, Tx, DB};
use serde_json::{json, Value};

use crate::fileck;
use crate::real::{self, guarded, Mismatch, ProbeCfg, ProbeStats};
use crate::refmodel::{BucketM, Bytes, ErrKind, Op, OpSpec, Ret};

#[derive(Clone, Debug, PartialEq)]
pub struct Cfg {
    pub pagesize: u64,
    pub num_pages: usize,
    pub strict: bool,
    pub populate: bool,
    /// pass keys / values / names as owned `Vec<u8>` instead of slices
    pub owned_args: bool,
    /// OpenOptions::direct_writes (O_DIRECT on the database file)
    pub direct: bool,
}

impl Default for Cfg {
    fn default() -> Self {
        Cfg { pagesize: 1024, num_pages: 64, strict: false, populate: false, owned_args: false, direct: false }
    }
}

impl Cfg {
    pub fn to_json(&self) -> Value {
        json!({"pagesize": self.pagesize, "num_pages": self.num_pages, "strict": self.strict, "populate": self.populate, "owned_args": self.owned_args, "direct_writes": self.direct})
    }
    pub fn from_json(v: &Value) -> Cfg {
        Cfg {
            pagesize: v["pagesize"].as_u64().unwrap_or(1024),
            num_pages: v["num_pages"].as_u64().unwrap_or(256) as usize,
            strict: v["strict"].as_bool().unwrap_or(false),
            populate: v["populate"].as_bool().unwrap_or(false),
            owned_args: v["owned_args"].as_bool().unwrap_or(false),
            direct: v["direct_writes"].as_bool().unwrap_or(false),
        }
    }
    pub fn open(&self, path: &str) -> Result<DB, jammdb::Error> {
        OpenOptions::new().pagesize(self.pagesize).num_pages(self.num_pages).strict_mode(self.strict).mmap_populate(self.populate).direct_writes(self.direct).open(path)
    }
}

#[derive(Clone, Debug, PartialEq)]
pub enum Action {
    /// a write transaction: ops, then commit or drop
    Tx { ops: Vec<OpSpec>, commit: bool },
    /// a read-only transaction on which the ops (mutators) are attempted, then dropped
    RoTx { ops: Vec<OpSpec> },
    /// a read-only transaction on which `commit()` is called
    RoCommit,
    /// a write transaction whose commit is made to fail at its `call`-th I/O call (EIO); used with
    /// small `call` values, i.e. before anything reached the header
    TxFail { ops: Vec<OpSpec>, call: u64 },
    /// a write transaction during which (after its ops, before it ends) a long-lived reader is
    /// opened on the same thread; the reader must show the state committed before this transaction
    TxReaderInside { ops: Vec<OpSpec>, commit: bool },
    /// close the handle and open the file again
    Reopen,
    /// close the handle and open the file again asking for another initial page count (which only
    /// matters when a file is created): the state must be unchanged; the new handle is kept
    ReopenNumPages(usize),
    /// close the handle and open the file again with strict mode / map-populate toggled relative to
    /// the configuration (bit 0: strict, bit 1: populate); the state must be unchanged
    ReopenFlags(u8),
    /// close the handle, try to open the file with another page size (must be refused, by an error or
    /// the documented panic, without touching the file), open it again with its own page size
    OpenWrongPagesize(u64),
    /// a read-only transaction is opened and the code using it panics (the panic is caught, as a
    /// worker thread's would be): the transaction is dropped while unwinding and must be closed then
    PanicWithReader,
    /// with the handle closed: both headers are rewritten in the legacy (<= 0.10) format (same fields,
    /// SHA3 checksum), as a file last written by such a release carries them; then reopened
    LegacyHeaders,
    /// with the handle closed: if the two headers do not sit in the slots the pinned release would have
    /// put them into (transaction N in slot (N + 1) % 2), they are exchanged (slot fields and
    /// checksums adjusted).  A no-op on files written by the pinned alternation rule.
    PinnedLayout,
    /// the two header pages exchanged with the handle closed (slot numbers and checksums fixed up):
    /// a valid file whose newest header sits in the slot a parity rule would not expect
    SwapSlots,
    /// environment damage: with the handle closed, the last id is dropped from the persisted free
    /// list (that page is then neither reachable nor free: DB::check and strict-mode commits refuse)
    LeakFreePage,
    /// environment damage: with the handle closed, the header slot that is NOT the current one gets
    /// its transaction-id word overwritten (as a torn header write leaves it: checksum invalid); then
    /// the file is opened again.  The committed state is unchanged.
    TearOtherSlot,
    /// open a long-lived reader (kept until closed)
    OpenReader,
    /// close the i-th open reader (in opening order)
    CloseReader(usize),
}

impl Action {
    pub fn to_json(&self) -> Value {
        match self {
            Action::Tx { ops, commit } => json!({"tx": ops.iter().map(|o| o.to_json()).collect::<Vec<_>>(), "end": if *commit { "commit" } else { "drop" }}),
            Action::TxReaderInside { ops, commit } => json!({"tx": ops.iter().map(|o| o.to_json()).collect::<Vec<_>>(), "end": if *commit { "commit" } else { "drop" }, "reader_opened_inside": true}),
            Action::RoTx { ops } => json!({"rotx": ops.iter().map(|o| o.to_json()).collect::<Vec<_>>()}),
            Action::RoCommit => json!("ro-commit"),
            Action::TxFail { ops, call } => json!({"txfail": ops.iter().map(|o| o.to_json()).collect::<Vec<_>>(), "failing_io_call": call}),
            Action::Reopen => json!("reopen"),
            Action::TearOtherSlot => json!("tear-other-header-slot"),
            Action::PinnedLayout => json!("headers-into-pinned-slots"),
            Action::SwapSlots => json!("header-slots-exchanged"),
            Action::LegacyHeaders => json!("headers-into-legacy-format"),
            Action::PanicWithReader => json!("panic-while-a-reader-is-open"),
            Action::LeakFreePage => json!("drop-last-id-from-free-list"),
            Action::OpenWrongPagesize(ps) => json!({"open-with-pagesize": ps}),
            Action::ReopenNumPages(np) => json!({"reopen-with-num-pages": np}),
            Action::ReopenFlags(f) => json!({"reopen-toggling": {"strict": f & 1 != 0, "populate": f & 2 != 0}}),
            Action::OpenReader => json!("open-reader"),
            Action::CloseReader(i) => json!({"close-reader": i}),
        }
    }
    pub fn from_json(v: &Value) -> Action {
        if let Some(s) = v.as_str() {
            return match s {
                "reopen" => Action::Reopen,
                "tear-other-header-slot" => Action::TearOtherSlot,
                "headers-into-pinned-slots" => Action::PinnedLayout,
                "header-slots-exchanged" => Action::SwapSlots,
                "headers-into-legacy-format" => Action::LegacyHeaders,
                "panic-while-a-reader-is-open" => Action::PanicWithReader,
                "drop-last-id-from-free-list" => Action::LeakFreePage,
                "open-reader" => Action::OpenReader,
                "ro-commit" => Action::RoCommit,
                _ => panic!("unknown action {}", s),
            };
        }
        if let (Some(ops), Some(true)) = (v.get("tx"), v.get("reader_opened_inside").and_then(|b| b.as_bool())) {
            return Action::TxReaderInside { ops: ops.as_array().unwrap().iter().map(OpSpec::from_json).collect(), commit: v["end"].as_str() == Some("commit") };
        }
        if let Some(ops) = v.get("tx") {
            return Action::Tx { ops: ops.as_array().unwrap().iter().map(OpSpec::from_json).collect(), commit: v["end"].as_str() == Some("commit") };
        }
        if let Some(ops) = v.get("txfail") {
            return Action::TxFail { ops: ops.as_array().unwrap().iter().map(OpSpec::from_json).collect(), call: v["failing_io_call"].as_u64().unwrap_or(0) };
        }
        if let Some(ops) = v.get("rotx") {
            return Action::RoTx { ops: ops.as_array().unwrap().iter().map(OpSpec::from_json).collect() };
        }
        if let Some(t) = v.get("reopen-toggling") {
            return Action::ReopenFlags((t["strict"].as_bool().unwrap_or(false) as u8) | ((t["populate"].as_bool().unwrap_or(false) as u8) << 1));
        }
        if let Some(np) = v.get("reopen-with-num-pages") {
            return Action::ReopenNumPages(np.as_u64().unwrap() as usize);
        }
        if let Some(ps) = v.get("open-with-pagesize") {
            return Action::OpenWrongPagesize(ps.as_u64().unwrap());
        }
        if let Some(i) = v.get("close-reader") {
            return Action::CloseReader(i.as_u64().unwrap() as usize);
        }
        panic!("unknown action {}", v)
    }
}

#[derive(Clone, Copy)]
pub struct Oracles {
    /// every return value / error kind equals the model's
    pub rets: bool,
    /// after commit / drop a fresh read tx dumps the model contents
    pub dump_after: bool,
    /// same after reopening a copy of the file
    pub reopen_copy: bool,
    /// full read API after every single op inside write transactions
    pub probe_each_op: Option<ProbeCfg>,
    /// full read API on a fresh read tx after each commit
    pub probe_after_commit: Option<ProbeCfg>,
    /// independent file check after each commit (structure + contents)
    pub fileck: bool,
    /// DB::check() after each commit
    pub dbcheck: bool,
    /// file bytes unchanged by drop / read-only use / reopen; no write calls
    pub no_trace: bool,
    /// every open reader re-dumped after every action
    pub readers_frozen: bool,
    /// with `fileck`: layout deviations no reader depends on are violations too (write-side conformance)
    pub strict_layout: bool,
    /// with `fileck`: after each commit the other header slot must hold the predecessor's valid header
    pub both_headers: bool,
    /// the write transaction itself is dumped (cursor scans of every bucket) right before commit / drop
    pub dump_in_tx: bool,
    /// full read API on the write transaction itself right before it commits / is dropped
    pub probe_in_tx_end: Option<ProbeCfg>,
    /// every put into a non-empty bucket is made while an already positioned cursor of that bucket is
    /// kept; the cursor must afterwards still reach every untouched entry that follows its position
    pub kept_cursor: bool,
}

impl Oracles {
    pub const NONE: Oracles = Oracles { rets: false, dump_after: false, reopen_copy: false, probe_each_op: None, probe_after_commit: None, fileck: false, dbcheck: false, no_trace: false, readers_frozen: false, strict_layout: false, both_headers: false, dump_in_tx: false, probe_in_tx_end: None, kept_cursor: false };
}

#[derive(Clone, Debug)]
pub struct Violation {
    pub class: String,
    pub detail: String,
}

impl Violation {
    pub fn new(class: impl Into<String>, detail: impl Into<String>) -> Violation {
        Violation { class: class.into(), detail: detail.into() }
    }
    pub fn to_json(&self) -> Value {
        json!({"class": self.class, "detail": self.detail})
    }
}

/// Normalises a panic message + location into a stable class string.
pub fn panic_class(prefix: &str, msg: &str) -> String {
    // msg looks like "text @ src/file.rs:123"; keep the file (not the line) and the leading words
    let (text, loc) = msg.rsplit_once(" @ ").unwrap_or((msg, ""));
    let file = loc.rsplit('/').next().unwrap_or("").split(':').next().unwrap_or("");
    let words: String = text.chars().filter(|c| !c.is_ascii_digit()).take(48).collect();
    format!("{}:{}:{}", prefix, file, words.trim())
}

pub struct Stats {
    pub commits: u64,
    pub ops: u64,
    pub reads: u64,
    pub reader_checks: u64,
}

pub struct Runner {
    pub path: String,
    pub cfg: Cfg,
    // NOTE: field order matters for drop order: readers first, then db, then the op arena.
    readers: Vec<(Tx<'static>, BucketM, u64)>,
    db: Option<Box<DB>>,
    arena: Vec<Box<Vec<Op>>>,
    pub model: BucketM,
    pub stats: Stats,
    pub extra_probes: Vec<Bytes>,
    /// set when the library panicked inside a write transaction (handle state is then undefined)
    pub poisoned: bool,
    pub last_shape: (u32, u32, u32),
    pub last_report: Option<fileck::Report>,
    /// fault to inject into the next commit (armed right before `commit()` is called)
    pub fault_next_commit: Option<crate::iosim::Fault>,
    /// count the I/O calls of the next commit without injecting anything
    pub count_next_commit: bool,
    /// the next write transaction opens a long-lived reader before it ends
    pub reader_inside_next_tx: bool,
    /// the next commit is expected to report an error of its own (strict mode on an inconsistent
    /// file): not a violation; the committed state must then be unchanged
    pub expect_commit_error: bool,
    pub commit_error_seen: bool,
    pub last_commit_kinds: Vec<crate::iosim::Kind>,
    pub last_fault_fired: bool,
    /// set when a commit with an injected fault returned an error: the state it would have produced
    pub pending_post: Option<BucketM>,
    pub last_commit_error: Option<String>,
}

impl Drop for Runner {
    fn drop(&mut self) {
        self.readers.clear();
        self.db = None;
    }
}

fn fast_hash(data: &[u8], seed: u64) -> u64 {
    let mut h = seed ^ 0x9E37_79B9_7F4A_7C15;
    let mut chunks = data.chunks_exact(8);
    for c in &mut chunks {
        let w = u64::from_le_bytes(c.try_into().unwrap());
        h = (h ^ w).wrapping_mul(0x2545_F491_4F6C_DD1D);
        h ^= h >> 29;
    }
    for &b in chunks.remainder() {
        h = (h ^ b as u64).wrapping_mul(0x0000_0100_0000_01b3);
    }
    h ^= data.len() as u64;
    h = (h ^ (h >> 32)).wrapping_mul(0xD6E8_FEB8_6659_FD93);
    h ^ (h >> 32)
}

pub fn hash128(data: &[u8]) -> u128 {
    ((fast_hash(data, 1) as u128) << 64) | fast_hash(data, 0xABCD_EF01_2345_6789) as u128
}

/// Reads the file up to its high-water mark (num_pages of the newest valid header).
pub fn read_db_file(path: &str, pagesize: u64) -> Vec<u8> {
    let f = match std::fs::File::open(path) {
        Ok(f) => f,
        Err(_) => return vec![],
    };
    let len = f.metadata().map(|m| m.len()).unwrap_or(0) as usize;
    let mut head = vec![0u8; (2 * pagesize as usize).min(len)];
    if f.read_exact_at(&mut head, 0).is_err() {
        return vec![];
    }
    let hw = match fileck::choose_meta(&head, pagesize) {
        Ok(m) => ((m.num_pages.saturating_mul(pagesize)) as usize).min(len),
        Err(_) => len,
    };
    let mut buf = vec![0u8; hw];
    if f.read_exact_at(&mut buf, 0).is_err() {
        return vec![];
    }
    buf
}

impl Runner {
    pub fn new(path: &str, cfg: Cfg) -> Result<Runner, String> {
        let _ = std::fs::remove_file(path);
        let db = match guarded(|| cfg.open(path)) {
            Ok(Ok(db)) => db,
            Ok(Err(e)) => return Err(format!("open failed: {:?}", e)),
            Err(p) => return Err(format!("open panicked: {}", p)),
        };
        Ok(Runner {
            path: path.to_string(),
            cfg,
            readers: vec![],
            db: Some(Box::new(db)),
            arena: vec![],
            model: BucketM::default(),
            stats: Stats { commits: 0, ops: 0, reads: 0, reader_checks: 0 },
            extra_probes: vec![],
            poisoned: false,
            last_shape: (0, 0, 0),
            last_report: None,
            fault_next_commit: None,
            count_next_commit: false,
            reader_inside_next_tx: false,
            expect_commit_error: false,
            commit_error_seen: false,
            last_commit_kinds: vec![],
            last_fault_fired: false,
            pending_post: None,
            last_commit_error: None,
        })
    }

    /// Adopts an existing file (already holding `model`) instead of creating a fresh one.
    pub fn adopt(path: &str, cfg: Cfg, model: BucketM) -> Result<Runner, String> {
        let db = match guarded(|| cfg.open(path)) {
            Ok(Ok(db)) => db,
            Ok(Err(e)) => return Err(format!("open failed: {:?}", e)),
            Err(p) => return Err(format!("open panicked: {}", p)),
        };
        Ok(Runner {
            path: path.to_string(),
            cfg,
            readers: vec![],
            db: Some(Box::new(db)),
            arena: vec![],
            model,
            stats: Stats { commits: 0, ops: 0, reads: 0, reader_checks: 0 },
            extra_probes: vec![],
            poisoned: false,
            last_shape: (0, 0, 0),
            last_report: None,
            fault_next_commit: None,
            count_next_commit: false,
            reader_inside_next_tx: false,
            expect_commit_error: false,
            commit_error_seen: false,
            last_commit_kinds: vec![],
            last_fault_fired: false,
            pending_post: None,
            last_commit_error: None,
        })
    }

    pub fn db(&self) -> &DB {
        self.db.as_ref().unwrap()
    }

    fn db_static(&self) -> &'static DB {
        // The Box keeps the DB at a stable address; every borrower (readers) is dropped before it.
        unsafe { &*(self.db.as_ref().unwrap().as_ref() as *const DB) }
    }

    pub fn num_readers(&self) -> usize {
        self.readers.len()
    }

    /// (entitled contents, commits completed since it was opened) of every open reader
    pub fn reader_models(&self) -> Vec<(&BucketM, u64)> {
        self.readers.iter().map(|(_, m, id)| (m, self.stats.commits - *id)).collect()
    }

    pub fn file_bytes(&self) -> Vec<u8> {
        read_db_file(&self.path, self.cfg.pagesize)
    }

    /// Canonical digest of the state: file below the high-water mark, shared in-memory
    /// bookkeeping, and what each open reader is entitled to see.
    pub fn digest(&self) -> u128 {
        let bytes = self.file_bytes();
        let file_part = match fileck::check(&bytes, self.cfg.pagesize) {
            Ok(rep) => rep.struct_hash ^ ((bytes.len() as u128) << 3) ^ ((rep.errors.len() as u128) << 100),
            _ => hash128(&bytes),
        };
        let mut extra = Vec::new();
        if let Some(db) = &self.db {
            let s = db.verif_snapshot();
            extra.extend_from_slice(format!("{:?}", s).as_bytes());
        }
        for (_, m, id) in &self.readers {
            extra.extend_from_slice(format!("R{}:{}", id, m.render()).as_bytes());
        }
        file_part ^ hash128(&extra).rotate_left(17)
    }

    fn check_committed_state(&mut self, or: &Oracles, what: &str, out: &mut Vec<Violation>) {
        if or.dump_after {
            let db = self.db_static();
            match guarded(|| db.tx(false).map(|tx| real::dump_tx(&tx))) {
                Ok(Ok(Ok(d))) => {
                    self.stats.reads += 1;
                    if let Some(diff) = d.diff(&self.model) {
                        out.push(Violation::new("dump_mismatch", format!("{}: fresh read tx differs from the model (left = observed): {}", what, diff)));
                    }
                }
                Ok(Ok(Err(e))) => out.push(Violation::new(if e.starts_with("panic") { panic_class("read_panic", &e) } else { "dump_error".into() }, format!("{}: {}", what, e))),
                Ok(Err(e)) => out.push(Violation::new("tx_begin_error", format!("{}: db.tx(false) failed: {:?}", what, e))),
                Err(p) => out.push(Violation::new(panic_class("read_panic", &p), format!("{}: {}", what, p))),
            }
        }
        if let Some(cfg) = or.probe_after_commit {
            let db = self.db_static();
            let mut ms: Vec<Mismatch> = vec![];
            let mut st = ProbeStats::default();
            let extra = self.extra_probes.clone();
            let model = self.model.clone();
            let r = guarded(|| {
                if let Ok(tx) = db.tx(false) {
                    real::probe_tx(&tx, &model, &extra, cfg, &mut st, &mut ms);
                }
            });
            self.stats.reads += st.reads;
            if let Err(p) = r {
                out.push(Violation::new(panic_class("read_panic", &p), format!("{}: {}", what, p)));
            }
            for m in ms {
                out.push(Violation::new(format!("read:{}", m.class), format!("{} (committed state): {}", what, m.detail)));
            }
        }
    }

    fn check_file(&mut self, or: &Oracles, what: &str, out: &mut Vec<Violation>) {
        if !(or.fileck || or.reopen_copy) {
            return;
        }
        let bytes = self.file_bytes();
        if or.fileck {
            match fileck::check(&bytes, self.cfg.pagesize) {
                Ok(rep) => {
                    self.last_shape = rep.shape;
                    for e in rep.errors.iter().take(3) {
                        out.push(Violation::new("fileck", format!("{}: independent file check: {}", what, e)));
                    }
                    // after a commit both header slots are valid: this commit's and its predecessor's
                    if or.both_headers && rep.tx_id >= 1 && rep.other_tx_id != Some(rep.tx_id - 1) {
                        out.push(Violation::new("header_slots", format!("{}: after the commit with transaction id {} the other header slot holds {} instead of the valid header of transaction {}", what, rep.tx_id, rep.other_tx_id.map(|t| format!("transaction {}", t)).unwrap_or_else(|| "no valid header".into()), rep.tx_id - 1)));
                    }
                    if or.strict_layout {
                        for e in rep.layout_notes.iter().take(3) {
                            out.push(Violation::new("fileck_layout", format!("{}: layout differs from the pinned one: {}", what, e)));
                        }
                    }
                    if rep.errors.is_empty() {
                        if let Some(diff) = rep.contents.diff(&self.model) {
                            out.push(Violation::new("fileck_contents", format!("{}: file parses to different contents (left = file): {}", what, diff)));
                        }
                    }
                    self.last_report = Some(rep);
                }
                Err(e) => out.push(Violation::new("fileck", format!("{}: {}", what, e))),
            }
        }
        if or.reopen_copy {
            let copy = format!("{}.copy", self.path);
            if std::fs::write(&copy, &bytes).is_ok() {
                let cfg = self.cfg.clone();
                let r = guarded(|| -> Result<BucketM, String> {
                    let db = cfg.open(&copy).map_err(|e| format!("open: {:?}", e))?;
                    let tx = db.tx(false).map_err(|e| format!("tx: {:?}", e))?;
                    real::dump_tx(&tx)
                });
                match r {
                    Ok(Ok(d)) => {
                        if let Some(diff) = d.diff(&self.model) {
                            out.push(Violation::new("reopen_mismatch", format!("{}: contents after reopening a copy differ (left = observed): {}", what, diff)));
                        }
                    }
                    Ok(Err(e)) => out.push(Violation::new("reopen_error", format!("{}: {}", what, e))),
                    Err(p) => out.push(Violation::new(panic_class("reopen_panic", &p), format!("{}: {}", what, p))),
                }
                let _ = std::fs::remove_file(&copy);
            }
        }
        if or.dbcheck {
            let db = self.db_static();
            match guarded(|| db.check()) {
                Ok(Ok(())) => {}
                Ok(Err(e)) => out.push(Violation::new("dbcheck", format!("{}: DB::check() says {:?}", what, e))),
                Err(p) => out.push(Violation::new(panic_class("dbcheck_panic", &p), format!("{}: {}", what, p))),
            }
        }
    }

    fn check_readers(&mut self, what: &str, out: &mut Vec<Violation>) {
        for (i, (tx, want, id)) in self.readers.iter().enumerate() {
            self.stats.reader_checks += 1;
            // the reader tries to modify what it sees: refused, and (dump below) without effect
            match real::reader_mutator_attempts(tx, want) {
                Ok(bad) => {
                    for b in bad {
                        out.push(Violation::new("reader_mutator_not_refused", format!("{}: reader #{} (opened as {}): {} returned Ok in a read-only transaction", what, i, id, b)));
                    }
                }
                Err(p) => out.push(Violation::new(panic_class("reader_panic", &p), format!("{}: reader #{}: a mutator called in a read-only transaction panicked: {}", what, i, p))),
            }
            match real::dump_tx(tx) {
                Ok(d) => {
                    if let Some(diff) = d.diff(want) {
                        out.push(Violation::new("reader_changed", format!("{}: reader #{} (opened as {}) no longer sees its snapshot (left = observed): {}", what, i, id, diff)));
                    }
                }
                Err(e) => out.push(Violation::new(if e.starts_with("panic") { panic_class("reader_panic", &e) } else { "reader_error".into() }, format!("{}: reader #{}: {}", what, i, e))),
            }
        }
    }

    /// Applies one action; returns the violations the enabled oracles found.
    pub fn step(&mut self, a: &Action, or: &Oracles) -> Vec<Violation> {
        let mut out = vec![];
        if self.poisoned {
            return out;
        }
        let what = a.to_json().to_string();
        let what = if what.len() > 160 { format!("{}..", what.chars().take(160).collect::<String>()) } else { what };
        match a {
            Action::Tx { ops, commit } => {
                let before = if or.no_trace && !*commit { Some(self.file_bytes()) } else { None };
                let ops_real: Box<Vec<Op>> = Box::new(ops.iter().map(|o| o.to_op()).collect());
                let ops_ref: &'static Vec<Op> = unsafe { &*(ops_ref_ptr(&ops_real)) };
                self.arena.push(ops_real);
                let db = self.db_static();
                let mut model = self.model.clone();
                let owned = self.cfg.owned_args;
                let tx = match guarded(|| db.tx(true)) {
                    Ok(Ok(tx)) => tx,
                    Ok(Err(e)) => {
                        out.push(Violation::new("tx_begin_error", format!("db.tx(true) failed: {:?}", e)));
                        return out;
                    }
                    Err(p) => {
                        out.push(Violation::new(panic_class("tx_begin_panic", &p), p));
                        self.poisoned = true;
                        return out;
                    }
                };
                let (log_needed, prev_plan) = if before.is_some() { (true, crate::iosim::take_plan()) } else { (false, None) };
                if log_needed {
                    crate::iosim::install_plan(crate::iosim::Plan { log: true, ..Default::default() });
                }
                let mut aborted = false;
                for (i, op) in ops_ref.iter().enumerate() {
                    self.stats.ops += 1;
                    let before_keys: Option<Vec<Vec<u8>>> = if or.kept_cursor && matches!(op, Op::Put { .. }) {
                        let mut cur = Some(&model);
                        for name in op.path() {
                            cur = match cur.and_then(|m| m.items.get(name)) {
                                Some(crate::refmodel::Item::Bucket(b)) => Some(b),
                                _ => None,
                            };
                        }
                        if op.path().is_empty() {
                            None
                        } else {
                            cur.map(|m| m.items.keys().cloned().collect())
                        }
                    } else {
                        None
                    };
                    let want = model.apply(op);
                    let kept = before_keys.and_then(|bk| real::put_with_kept_cursor(&tx, op, &bk, i + self.stats.commits as usize));
                    let got = match kept {
                        Some((ret, note)) => {
                            if let Some(n) = note {
                                out.push(Violation::new("read:kept_cursor_loses_entries", format!("op {} `{}`: {}", i, ops[i].to_json(), n)));
                            }
                            ret
                        }
                        None if or.kept_cursor && op.is_mutator() && !op.path().is_empty() => {
                            // iterators created before the operation, started after it
                            let after = model.resolve(op.path()).ok();
                            let (ret, note) = real::exec_op_with_unstarted_iters(&tx, op, owned, after);
                            if let Some(n) = note {
                                out.push(Violation::new("read:iterator_created_before_write", format!("op {} `{}`: {}", i, ops[i].to_json(), n)));
                            }
                            ret
                        }
                        None => real::exec_op(&tx, op, owned),
                    };
                    if let Ret::Panic(p) = &got {
                        out.push(Violation::new(panic_class("op_panic", p), format!("op {} `{}` panicked: {}", i, ops[i].to_json(), p)));
                        aborted = true;
                        break;
                    }
                    if or.rets && got != want {
                        out.push(Violation::new("ret_mismatch", format!("op {} `{}` returned {:?}, the model says {:?}", i, ops[i].to_json(), brief_ret(&got), brief_ret(&want))));
                    }
                    if let Some(cfg) = or.probe_each_op {
                        let mut ms = vec![];
                        let mut st = ProbeStats::default();
                        let r = guarded(|| real::probe_tx(&tx, &model, &self.extra_probes, cfg, &mut st, &mut ms));
                        self.stats.reads += st.reads;
                        if let Err(p) = r {
                            out.push(Violation::new(panic_class("read_panic", &p), p));
                        }
                        for m in ms {
                            out.push(Violation::new(format!("read:{}", m.class), format!("inside the write tx after op {} `{}`: {}", i, ops[i].to_json(), m.detail)));
                        }
                    }
                }
                if aborted {
                    // the transaction object may be in an undefined state: leak it and stop here
                    std::mem::forget(tx);
                    self.poisoned = true;
                    if log_needed {
                        crate::iosim::take_plan();
                        if let Some(p) = prev_plan {
                            crate::iosim::install_plan(p);
                        }
                    }
                    return out;
                }
                if std::mem::take(&mut self.reader_inside_next_tx) {
                    match guarded(|| db.tx(false)) {
                        Ok(Ok(rtx)) => {
                            let id = self.stats.commits;
                            self.readers.push((rtx, self.model.clone(), id));
                        }
                        Ok(Err(e)) => out.push(Violation::new("tx_begin_error", format!("read-only begin while a write transaction is open: {:?}", e))),
                        Err(p) => out.push(Violation::new(panic_class("tx_begin_panic", &p), p)),
                    }
                }
                if let Some(cfg) = or.probe_in_tx_end {
                    let mut ms = vec![];
                    let mut st = ProbeStats::default();
                    let r = guarded(|| real::probe_tx(&tx, &model, &self.extra_probes, cfg, &mut st, &mut ms));
                    self.stats.reads += st.reads;
                    if let Err(p) = r {
                        out.push(Violation::new(panic_class("read_panic", &p), p));
                    }
                    for m in ms {
                        out.push(Violation::new(format!("read:{}", m.class), format!("inside the write tx before it ends: {}", m.detail)));
                    }
                }
                if or.dump_in_tx {
                    match real::dump_tx(&tx) {
                        Ok(d) => {
                            self.stats.reads += 1;
                            if let Some(diff) = d.diff(&model) {
                                out.push(Violation::new("in_tx_dump_mismatch", format!("iterating inside the write transaction before it ends differs from the model (left = observed): {}", diff)));
                            }
                        }
                        Err(e) => out.push(Violation::new(if e.starts_with("panic") { panic_class("read_panic", &e) } else { "in_tx_dump_error".into() }, format!("iterating inside the write transaction before it ends: {}", e))),
                    }
                }
                if *commit {
                    let planned = self.fault_next_commit.is_some() || self.count_next_commit;
                    let saved_plan = if planned { crate::iosim::take_plan() } else { None };
                    if planned {
                        crate::iosim::install_plan(crate::iosim::Plan { armed: true, fault: self.fault_next_commit.take(), ..Default::default() });
                        self.count_next_commit = false;
                    }
                    let res = guarded(move || tx.commit());
                    self.last_fault_fired = false;
                    if planned {
                        if let Some(p) = crate::iosim::take_plan() {
                            self.last_commit_kinds = p.call_kinds;
                            self.last_fault_fired = p.fault_fired;
                        }
                        if let Some(p) = saved_plan {
                            crate::iosim::install_plan(p);
                        }
                    }
                    let fired = self.last_fault_fired;
                    match res {
                        Ok(Ok(())) if fired => {
                            out.push(Violation::new("commit_ok_despite_io_error", "an I/O call of this commit was made to fail, yet commit() returned Ok"));
                            self.model = model;
                            self.stats.commits += 1;
                        }
                        Ok(Err(e)) if fired => {
                            // expected: the outcome (pre or post) is resolved by the caller
                            self.last_commit_error = Some(format!("{:?}", e));
                            self.pending_post = Some(model);
                            return out;
                        }
                        Ok(Ok(())) => {
                            self.model = model;
                            self.stats.commits += 1;
                        }
                        Ok(Err(e)) if self.expect_commit_error => {
                            self.last_commit_error = Some(format!("{:?}", e));
                            self.commit_error_seen = true;
                            return out;
                        }
                        Ok(Err(e)) => {
                            out.push(Violation::new(format!("commit_error:{:?}", real::err_kind(&e)), format!("commit returned {:?}", e)));
                            self.poisoned = true;
                            return out;
                        }
                        Err(p) => {
                            out.push(Violation::new(panic_class("commit_panic", &p), format!("commit panicked: {}", p)));
                            self.poisoned = true;
                            return out;
                        }
                    }
                    self.check_committed_state(or, &what, &mut out);
                    self.check_file(or, &what, &mut out);
                } else {
                    if let Err(p) = guarded(move || drop(tx)) {
                        out.push(Violation::new(panic_class("drop_panic", &p), p));
                        self.poisoned = true;
                        return out;
                    }
                    if let Some(before) = before {
                        let plan = crate::iosim::take_plan();
                        if let Some(p) = prev_plan {
                            crate::iosim::install_plan(p);
                        }
                        let after = self.file_bytes();
                        if after != before {
                            out.push(Violation::new("drop_changed_file", "file bytes differ after a dropped write transaction"));
                        }
                        if let Some(plan) = plan {
                            let writes = plan.events.iter().filter(|e| matches!(e, crate::iosim::IoEvent::Write { .. } | crate::iosim::IoEvent::Fallocate { .. } | crate::iosim::IoEvent::Ftruncate { .. })).count();
                            if writes > 0 {
                                out.push(Violation::new("drop_wrote", format!("{} write/extend calls on the file during a dropped transaction", writes)));
                            }
                        }
                    }
                    self.check_committed_state(or, &what, &mut out);
                }
            }
            Action::TxFail { ops, call } => {
                // run as a committing transaction with an injected fault; it must return an error.
                // call < 1000: the call-th I/O call fails (used with small values: nothing reached
                // the header, the committed state must be exactly as before);
                // call >= 1000: the (call-1000)-th fsync fails: the outcome may be the pre- or the
                // post-state, whichever it is must be complete and later commits must work
                let before_model = self.model.clone();
                if *call == 9000 {
                    // no fault: the commit may refuse by itself (strict mode on a file with a leaked
                    // page); if it reports an error, nothing of it may be visible
                    self.expect_commit_error = true;
                    self.commit_error_seen = false;
                    let inner = self.step(&Action::Tx { ops: ops.clone(), commit: true }, &Oracles::NONE);
                    self.expect_commit_error = false;
                    out.extend(inner);
                    if self.poisoned {
                        return out;
                    }
                    if self.commit_error_seen {
                        self.model = before_model;
                        let db = self.db_static();
                        match guarded(|| db.tx(false).map(|tx| real::dump_tx(&tx))) {
                            Ok(Ok(Ok(d))) => {
                                if let Some(diff) = d.diff(&self.model) {
                                    out.push(Violation::new("error_but_changed", format!("commit returned {} yet the next transaction no longer sees the state from before it (left = observed): {}", self.last_commit_error.clone().unwrap_or_default(), diff)));
                                    self.poisoned = true;
                                }
                            }
                            other => {
                                out.push(Violation::new("error_but_changed", format!("after a commit that returned an error the state cannot be read: {:?}", other.map(|x| x.map(|y| y.map(|_| ()))))));
                                self.poisoned = true;
                            }
                        }
                    } else {
                        self.check_committed_state(or, &what, &mut out);
                    }
                    return out;
                }
                self.fault_next_commit = Some(if *call == 4000 {
                    // the write of the header page (or the wipe of its slot) fails: outcome pre-state
                    crate::iosim::Fault::first_write_after_sync(libc::EIO)
                } else if *call >= 3000 {
                    // the call is cut short after 72 bytes (inside the header record, if it is the header write) and then fails
                    crate::iosim::Fault::at(*call - 3000, crate::iosim::FaultMode::ShortThenErrno(72, libc::EIO))
                } else if *call >= 2000 {
                    // any call of the commit, outcome pre- or post-state (the call may lie after the header write)
                    crate::iosim::Fault::at(*call - 2000, crate::iosim::FaultMode::Errno(libc::EIO))
                } else if *call >= 1000 { crate::iosim::Fault::nth(crate::iosim::Kind::Fsync, *call - 1000, libc::EIO) } else { crate::iosim::Fault::at(*call, crate::iosim::FaultMode::Errno(libc::EIO)) });
                let inner = self.step(&Action::Tx { ops: ops.clone(), commit: true }, &Oracles::NONE);
                out.extend(inner);
                self.fault_next_commit = None;
                if self.poisoned {
                    return out;
                }
                let post = self.pending_post.take();
                if post.is_none() && self.last_fault_fired {
                    out.push(Violation::new("commit_ok_despite_io_error", "the failing commit did not return an error"));
                }
                if !self.last_fault_fired {
                    // the commit issues fewer calls than `call`: it simply committed
                    self.check_committed_state(or, &what, &mut out);
                    return out;
                }
                self.model = before_model.clone();
                if *call >= 1000 {
                    if let Some(post) = post {
                        let db = self.db_static();
                        match guarded(|| db.tx(false).map(|tx| real::dump_tx(&tx))) {
                            Ok(Ok(Ok(d))) if d.same_contents(&post) => self.model = post,
                            Ok(Ok(Ok(d))) if d.same_contents(&before_model) => {}
                            other => {
                                out.push(Violation::new("half_applied", format!("after the failed commit neither the pre- nor the post-state is shown: {:?}", other.map(|x| x.map(|y| y.map(|m| m.render().chars().take(200).collect::<String>()))))));
                                self.poisoned = true;
                                return out;
                            }
                        }
                    }
                }
                self.check_committed_state(or, &what, &mut out);
            }
            Action::RoTx { ops } => {
                let before = if or.no_trace { Some(self.file_bytes()) } else { None };
                let ops_real: Box<Vec<Op>> = Box::new(ops.iter().map(|o| o.to_op()).collect());
                let ops_ref: &'static Vec<Op> = unsafe { &*(ops_ref_ptr(&ops_real)) };
                self.arena.push(ops_real);
                let db = self.db_static();
                let owned = self.cfg.owned_args;
                let ((), events) = crate::iosim::logged(|| {
                    let tx = match guarded(|| db.tx(false)) {
                        Ok(Ok(tx)) => tx,
                        Ok(Err(e)) => {
                            out.push(Violation::new("tx_begin_error", format!("db.tx(false) failed: {:?}", e)));
                            return;
                        }
                        Err(p) => {
                            out.push(Violation::new(panic_class("tx_begin_panic", &p), p));
                            return;
                        }
                    };
                    for (i, op) in ops_ref.iter().enumerate() {
                        self.stats.ops += 1;
                        let want = self.model.apply_ro(op);
                        let got = real::exec_op(&tx, op, owned);
                        if got != want {
                            let class = if matches!(want, Ret::Err(ErrKind::ReadOnlyTx)) { "ro_mutator_not_refused" } else { "ret_mismatch" };
                            out.push(Violation::new(class, format!("read-only tx: op {} `{}` returned {:?}, expected {:?}", i, ops[i].to_json(), brief_ret(&got), brief_ret(&want))));
                        }
                        // the same through a handle obtained from the listing iterators
                        if let Some(got2) = real::exec_op_listed(&tx, op) {
                            if got2 != want {
                                let class = if matches!(want, Ret::Err(ErrKind::ReadOnlyTx)) { "ro_mutator_not_refused" } else { "ret_mismatch" };
                                out.push(Violation::new(class, format!("read-only tx: op {} `{}` through a bucket handle taken from buckets() returned {:?}, expected {:?}", i, ops[i].to_json(), brief_ret(&got2), brief_ret(&want))));
                            }
                        }
                    }
                    // the reader must still see the committed state after the refused mutators
                    match real::dump_tx(&tx) {
                        Ok(d) => {
                            if let Some(diff) = d.diff(&self.model) {
                                out.push(Violation::new("ro_tx_changed_view", format!("read-only tx sees different contents after refused mutators: {}", diff)));
                            }
                        }
                        Err(e) => out.push(Violation::new("dump_error", e)),
                    }
                });
                if let Some(before) = before {
                    if self.file_bytes() != before {
                        out.push(Violation::new("ro_changed_file", "file bytes differ after a read-only transaction"));
                    }
                    let writes = events.iter().filter(|e| matches!(e, crate::iosim::IoEvent::Write { .. } | crate::iosim::IoEvent::Fallocate { .. } | crate::iosim::IoEvent::Ftruncate { .. })).count();
                    if writes > 0 {
                        out.push(Violation::new("ro_wrote", format!("{} write/extend calls on the file during a read-only transaction", writes)));
                    }
                }
            }
            Action::RoCommit => {
                let before = if or.no_trace { Some(self.file_bytes()) } else { None };
                let db = self.db_static();
                match guarded(|| db.tx(false).map(|tx| tx.commit())) {
                    Ok(Ok(Err(jammdb::Error::ReadOnlyTx))) => {}
                    Ok(Ok(r)) => out.push(Violation::new("ro_mutator_not_refused", format!("commit() on a read-only tx returned {:?}", r))),
                    Ok(Err(e)) => out.push(Violation::new("tx_begin_error", format!("{:?}", e))),
                    Err(p) => out.push(Violation::new(panic_class("ro_commit_panic", &p), p)),
                }
                if let Some(before) = before {
                    if self.file_bytes() != before {
                        out.push(Violation::new("ro_changed_file", "file bytes differ after commit() on a read-only transaction"));
                    }
                }
            }
            Action::Reopen => {
                if !self.readers.is_empty() {
                    // cannot close the handle under open readers; treated as a no-op
                    return out;
                }
                let before = if or.no_trace { Some(self.file_bytes()) } else { None };
                self.db = None;
                let cfg = self.cfg.clone();
                let path = self.path.clone();
                let (r, events) = crate::iosim::logged(|| guarded(|| cfg.open(&path)));
                match r {
                    Ok(Ok(db)) => self.db = Some(Box::new(db)),
                    Ok(Err(e)) => {
                        out.push(Violation::new("reopen_error", format!("open failed: {:?}", e)));
                        self.poisoned = true;
                        return out;
                    }
                    Err(p) => {
                        out.push(Violation::new(panic_class("reopen_panic", &p), p));
                        self.poisoned = true;
                        return out;
                    }
                }
                if let Some(before) = before {
                    if self.file_bytes() != before {
                        out.push(Violation::new("open_changed_file", "file bytes differ after close + open"));
                    }
                    let writes = events.iter().filter(|e| matches!(e, crate::iosim::IoEvent::Write { .. } | crate::iosim::IoEvent::Fallocate { .. } | crate::iosim::IoEvent::Ftruncate { .. })).count();
                    if writes > 0 {
                        out.push(Violation::new("open_wrote", format!("{} write/extend calls while opening an existing database", writes)));
                    }
                }
                self.check_committed_state(or, &what, &mut out);
            }
            Action::ReopenFlags(f) => {
                if !self.readers.is_empty() {
                    return out;
                }
                self.db = None;
                let cfg = Cfg { strict: self.cfg.strict ^ (f & 1 != 0), populate: self.cfg.populate ^ (f & 2 != 0), ..self.cfg.clone() };
                let path = self.path.clone();
                match guarded(|| cfg.open(&path)) {
                    Ok(Ok(db)) => self.db = Some(Box::new(db)),
                    other => {
                        out.push(Violation::new("reopen_error", format!("open with other flags: {:?}", other.map(|x| x.map(|_| ())))));
                        self.poisoned = true;
                        return out;
                    }
                }
                self.check_committed_state(or, &what, &mut out);
            }
            Action::ReopenNumPages(np) => {
                if !self.readers.is_empty() {
                    return out;
                }
                self.db = None;
                let cfg = Cfg { num_pages: *np, ..self.cfg.clone() };
                let path = self.path.clone();
                match guarded(|| cfg.open(&path)) {
                    Ok(Ok(db)) => self.db = Some(Box::new(db)),
                    other => {
                        out.push(Violation::new("reopen_error", format!("open with num_pages {}: {:?}", np, other.map(|x| x.map(|_| ())))));
                        self.poisoned = true;
                        return out;
                    }
                }
                self.check_committed_state(or, &what, &mut out);
            }
            Action::OpenWrongPagesize(ps) => {
                if !self.readers.is_empty() || *ps == self.cfg.pagesize {
                    return out;
                }
                self.db = None;
                let before = std::fs::read(&self.path).unwrap_or_default();
                let wrong = Cfg { pagesize: *ps, ..self.cfg.clone() };
                let path = self.path.clone();
                let r = guarded(|| wrong.open(&path).map(|_| ()));
                if let Ok(Ok(())) = r {
                    out.push(Violation::new("pagesize_mismatch_accepted", format!("opening the database (page size {}) with page size {} was not refused", self.cfg.pagesize, ps)));
                }
                let after = std::fs::read(&self.path).unwrap_or_default();
                if after != before {
                    out.push(Violation::new("refused_open_modified_file", format!("an open with page size {} changed the file ({} -> {} bytes)", ps, before.len(), after.len())));
                    self.poisoned = true;
                    return out;
                }
                let cfg = self.cfg.clone();
                match guarded(|| cfg.open(&path)) {
                    Ok(Ok(db)) => self.db = Some(Box::new(db)),
                    other => {
                        out.push(Violation::new("reopen_error", format!("open with the right page size after a refused one: {:?}", other.map(|x| x.map(|_| ())))));
                        self.poisoned = true;
                        return out;
                    }
                }
                self.check_committed_state(or, &what, &mut out);
            }
            Action::PanicWithReader => {
                let db = self.db_static();
                let r = guarded(|| {
                    let tx = db.tx(false).expect("read-only begin");
                    let _ = real::dump_tx(&tx);
                    panic!("client code fails while it holds a read-only transaction");
                });
                if r.is_ok() {
                    out.push(Violation::new("harness", "the panicking reader did not panic"));
                }
                self.check_committed_state(or, &what, &mut out);
            }
            Action::LegacyHeaders => {
                if !self.readers.is_empty() {
                    return out;
                }
                self.db = None;
                let mut bytes = self.file_bytes();
                let ps = self.cfg.pagesize;
                crate::compatx::legacy_rehead(&mut bytes, ps, &[0, 1]);
                let r = std::fs::OpenOptions::new().write(true).open(&self.path).and_then(|f| {
                    use std::os::unix::fs::FileExt;
                    f.write_all_at(&bytes[..2 * ps as usize], 0)
                });
                if let Err(e) = r {
                    out.push(Violation::new("harness", format!("cannot rewrite the headers: {}", e)));
                    self.poisoned = true;
                    return out;
                }
                let cfg = self.cfg.clone();
                let path = self.path.clone();
                match guarded(|| cfg.open(&path)) {
                    Ok(Ok(db)) => self.db = Some(Box::new(db)),
                    other => {
                        out.push(Violation::new("reopen_error", format!("open of the file with legacy-format headers: {:?}", other.map(|x| x.map(|_| ())))));
                        self.poisoned = true;
                        return out;
                    }
                }
                self.check_committed_state(or, &what, &mut out);
            }
            Action::LeakFreePage => {
                if !self.readers.is_empty() {
                    return out;
                }
                self.db = None;
                let bytes = self.file_bytes();
                let ps = self.cfg.pagesize;
                if let Ok(m) = crate::fileck::choose_meta(&bytes, ps) {
                    let at = (m.freelist_page * ps) as usize;
                    // page header: id (8), type (1 + pad), count (8) at offset 16
                    let count = u64::from_le_bytes(bytes[at + 16..at + 24].try_into().unwrap());
                    if count > 0 {
                        let r = std::fs::OpenOptions::new().write(true).open(&self.path).and_then(|f| {
                            use std::os::unix::fs::FileExt;
                            f.write_all_at(&(count - 1).to_le_bytes(), at as u64 + 16)
                        });
                        if let Err(e) = r {
                            out.push(Violation::new("harness", format!("cannot edit the free list: {}", e)));
                            self.poisoned = true;
                            return out;
                        }
                    }
                }
                let cfg = self.cfg.clone();
                let path = self.path.clone();
                match guarded(|| cfg.open(&path)) {
                    Ok(Ok(db)) => self.db = Some(Box::new(db)),
                    other => {
                        out.push(Violation::new("reopen_error", format!("open after a page was dropped from the free list: {:?}", other.map(|x| x.map(|_| ())))));
                        self.poisoned = true;
                        return out;
                    }
                }
                self.check_committed_state(or, &what, &mut out);
            }
            Action::PinnedLayout | Action::SwapSlots => {
                if !self.readers.is_empty() {
                    return out;
                }
                let always = matches!(a, Action::SwapSlots);
                self.db = None;
                let bytes = self.file_bytes();
                let ps = self.cfg.pagesize;
                if let (Ok(m0), Ok(m1)) = (crate::fileck::read_meta(&bytes, ps, 0), crate::fileck::read_meta(&bytes, ps, 1)) {
                    if m0.tx_id != m1.tx_id && !m0.legacy && !m1.legacy && (always || (m0.tx_id + 1) % 2 != 0) {
                        // transaction m0.tx_id belongs into slot (tx + 1) % 2 = 1: exchange the two pages
                        let psz = ps as usize;
                        let mut p0 = bytes[psz..2 * psz].to_vec();
                        let mut p1 = bytes[..psz].to_vec();
                        crate::fileck::relocate_header(&mut p0, 0);
                        crate::fileck::relocate_header(&mut p1, 1);
                        let r = std::fs::OpenOptions::new().write(true).open(&self.path).and_then(|f| {
                            use std::os::unix::fs::FileExt;
                            f.write_all_at(&p0, 0)?;
                            f.write_all_at(&p1, ps)
                        });
                        if let Err(e) = r {
                            out.push(Violation::new("harness", format!("cannot rewrite the headers: {}", e)));
                            self.poisoned = true;
                            return out;
                        }
                    }
                }
                let cfg = self.cfg.clone();
                let path = self.path.clone();
                match guarded(|| cfg.open(&path)) {
                    Ok(Ok(db)) => self.db = Some(Box::new(db)),
                    other => {
                        out.push(Violation::new("reopen_error", format!("open after moving the headers into the pinned slots: {:?}", other.map(|x| x.map(|_| ())))));
                        self.poisoned = true;
                        return out;
                    }
                }
                self.check_committed_state(or, &what, &mut out);
            }
            Action::TearOtherSlot => {
                if !self.readers.is_empty() {
                    return out;
                }
                self.db = None;
                let bytes = self.file_bytes();
                let ps = self.cfg.pagesize;
                match crate::fileck::choose_meta(&bytes, ps) {
                    Ok(m) => {
                        let other = (1 - m.slot) * ps;
                        // the transaction-id word of the header record
                        let at = other + crate::fileck::REC_OFF as u64 + 56;
                        let r = std::fs::OpenOptions::new().write(true).open(&self.path).and_then(|f| {
                            use std::os::unix::fs::FileExt;
                            f.write_all_at(&[0xA5u8; 8], at)
                        });
                        if let Err(e) = r {
                            out.push(Violation::new("harness", format!("cannot damage the file: {}", e)));
                            self.poisoned = true;
                            return out;
                        }
                    }
                    Err(e) => {
                        out.push(Violation::new("fileck", format!("no valid header before the damage: {}", e)));
                        self.poisoned = true;
                        return out;
                    }
                }
                let cfg = self.cfg.clone();
                let path = self.path.clone();
                match guarded(|| cfg.open(&path)) {
                    Ok(Ok(db)) => self.db = Some(Box::new(db)),
                    Ok(Err(e)) => {
                        out.push(Violation::new("reopen_error", format!("open with one torn header slot failed: {:?}", e)));
                        self.poisoned = true;
                        return out;
                    }
                    Err(p) => {
                        out.push(Violation::new(panic_class("reopen_panic", &p), p));
                        self.poisoned = true;
                        return out;
                    }
                }
                self.check_committed_state(or, &what, &mut out);
            }
            Action::TxReaderInside { ops, commit } => {
                self.reader_inside_next_tx = true;
                let inner = self.step(&Action::Tx { ops: ops.clone(), commit: *commit }, or);
                self.reader_inside_next_tx = false;
                // (the inner step has already re-dumped the readers if asked to)
                return inner;
            }
            Action::OpenReader => {
                let db = self.db_static();
                match guarded(|| db.tx(false)) {
                    Ok(Ok(tx)) => {
                        let id = self.stats.commits;
                        self.readers.push((tx, self.model.clone(), id));
                    }
                    Ok(Err(e)) => out.push(Violation::new("tx_begin_error", format!("{:?}", e))),
                    Err(p) => out.push(Violation::new(panic_class("tx_begin_panic", &p), p)),
                }
            }
            Action::CloseReader(i) => {
                if *i < self.readers.len() {
                    let (tx, _, _) = self.readers.remove(*i);
                    if let Err(p) = guarded(move || drop(tx)) {
                        out.push(Violation::new(panic_class("drop_panic", &p), p));
                    }
                }
            }
        }
        if or.readers_frozen {
            self.check_readers(&what, &mut out);
        }
        out
    }
}

fn ops_ref_ptr(b: &Box<Vec<Op>>) -> *const Vec<Op> {
    b.as_ref() as *const Vec<Op>
}

pub fn brief_ret(r: &Ret) -> String {
    use crate::refmodel::show;
    match r {
        Ret::Unit => "Ok(())".into(),
        Ret::Prev(None) => "Ok(None)".into(),
        Ret::Prev(Some((k, v))) => format!("Ok(Some({}={}))", show(k), show(v)),
        Ret::Removed(k, v) => format!("Ok({}={})", show(k), show(v)),
        Ret::BucketOk(n) => format!("Ok(bucket next_int={})", n),
        Ret::Err(e) => format!("Err({:?})", e),
        Ret::Panic(p) => format!("panic({})", p),
    }
}

/// A complete replayable case: configuration + actions.
#[derive(Clone, Debug)]
pub struct History {
    pub cfg: Cfg,
    pub actions: Vec<Action>,
}

impl History {
    pub fn to_json(&self) -> Value {
        json!({"cfg": self.cfg.to_json(), "actions": self.actions.iter().map(|a| a.to_json()).collect::<Vec<_>>()})
    }
    pub fn from_json(v: &Value) -> History {
        History { cfg: Cfg::from_json(&v["cfg"]), actions: v["actions"].as_array().unwrap().iter().map(Action::from_json).collect() }
    }
}
