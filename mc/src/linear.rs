//! Long fixed histories (hundreds of actions) run step by step with oracles on, each in a forked
//! copy of the check (must be called while the check process is still single-threaded, i.e. before
//! any worker pool exists).

use serde_json::{json, Value};

use crate::report::Check;
use crate::runner::{Action, Cfg, History, Oracles, Runner};

pub fn run_histories(check: &mut Check, list: Vec<(String, Cfg, Vec<Action>, Oracles)>, cov_key: &str) {
    let scratch = crate::report::scratch_dir();
    crate::iosim::set_track_prefix(&scratch);
    let mut n = 0u64;
    let mut steps = 0u64;
    for (name, cfg, acts, or) in list {
        let hist = History { cfg: cfg.clone(), actions: acts.clone() };
        let path = format!("{}/linear.db", scratch);
        let res = crate::isolate::run_in_child(900, || {
            let mut vs: Vec<Value> = vec![];
            match Runner::new(&path, cfg.clone()) {
                Ok(mut r) => {
                    for (i, a) in acts.iter().enumerate() {
                        for v in r.step(a, &or) {
                            vs.push(json!([v.class, format!("step {}: {}", i, v.detail)]));
                        }
                        if r.poisoned || vs.len() > 5 {
                            break;
                        }
                    }
                }
                Err(e) => vs.push(json!(["create_failed", e])),
            }
            let _ = std::fs::remove_file(&path);
            Value::Array(vs).to_string()
        });
        n += 1;
        steps += acts.len() as u64;
        match res {
            Ok(out) => {
                for v in serde_json::from_str::<Value>(&out).ok().and_then(|v| v.as_array().cloned()).unwrap_or_default() {
                    check.violation(v[0].as_str().unwrap_or("long"), &format!("[{}] {}", name, v[1].as_str().unwrap_or("")), || json!({"engine": "seqx", "seed": 1, "history": hist.to_json()}));
                }
            }
            Err(e) => check.violation("process_death", &format!("[{}] the process running this history {}", name, e), || json!({"engine": "seqx", "seed": 1, "history": hist.to_json()})),
        }
    }
    check.cov(cov_key, json!(n));
    check.cov(&format!("{}_actions", cov_key), json!(steps));
}

/// The free-list boundary walk of `optx` with up to two rolling readers: a reader is opened every
/// third commit and closed three commits later; every open reader is re-dumped after every action.
pub fn boundary_walk_with_readers(p: u64, variant: u8) -> Vec<Action> {
    let base = crate::optx::freelist_boundary_walk(p, variant);
    let mut out = vec![];
    let mut commits = 0usize;
    let mut open_since: Vec<usize> = vec![];
    for a in base {
        match a {
            Action::Reopen => {} // a handle with readers cannot be reopened: the walk stays on one handle
            Action::Tx { .. } => {
                out.push(a);
                commits += 1;
                if commits >= 2 && commits % 3 == 0 && open_since.len() < 2 {
                    out.push(Action::OpenReader);
                    open_since.push(commits);
                }
                if let Some(&s) = open_since.first() {
                    if commits >= s + 4 {
                        out.push(Action::CloseReader(0));
                        open_since.remove(0);
                    }
                }
            }
            other => out.push(other),
        }
    }
    while !open_since.is_empty() {
        out.push(Action::CloseReader(0));
        open_since.remove(0);
    }
    // finally a reader on the last state while one transaction uses up the whole free list
    let cap = (p - 32) / 8;
    let val = format!("R*{}", p * 6 / 10);
    out.push(Action::OpenReader);
    out.push(Action::Tx { ops: (0..cap + 30).map(|i| crate::refmodel::OpSpec::put(&["f"], &format!("r{:05}", i), &val)).collect(), commit: true });
    out.push(Action::Tx { ops: vec![crate::refmodel::OpSpec::put(&["f"], "last", "v*8")], commit: true });
    out.push(Action::CloseReader(0));
    out
}
