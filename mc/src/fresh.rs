//! Runs a closure on a brand-new OS thread (fresh thread-locals, hence a fresh, seed-determined
//! `RandomState` sequence inside the library) without paying for a new stack mapping each time:
//! the thread is created with pthread_create on a caller-owned, reused stack.

use std::panic::{catch_unwind, AssertUnwindSafe};

const STACK: usize = 4 << 20;

thread_local! {
    static STACK_MEM: std::cell::Cell<*mut libc::c_void> = const { std::cell::Cell::new(std::ptr::null_mut()) };
}

struct Job<R> {
    f: Option<Box<dyn FnOnce() -> R + Send>>,
    out: Option<std::thread::Result<R>>,
}

extern "C" fn trampoline<R>(arg: *mut libc::c_void) -> *mut libc::c_void {
    let job = unsafe { &mut *(arg as *mut Job<R>) };
    let f = job.f.take().unwrap();
    job.out = Some(catch_unwind(AssertUnwindSafe(f)));
    std::ptr::null_mut()
}

/// Runs `f` on a new thread and waits for it.  One call at a time per calling thread.
pub fn on_fresh_thread<R: Send + 'static>(f: impl FnOnce() -> R + Send + 'static) -> std::thread::Result<R> {
    unsafe {
        let mut mem = STACK_MEM.with(|c| c.get());
        if mem.is_null() {
            mem = libc::mmap(std::ptr::null_mut(), STACK, libc::PROT_READ | libc::PROT_WRITE, libc::MAP_PRIVATE | libc::MAP_ANONYMOUS | libc::MAP_STACK, -1, 0);
            assert!(mem != libc::MAP_FAILED, "stack mmap failed");
            STACK_MEM.with(|c| c.set(mem));
        }
        let mut attr: libc::pthread_attr_t = std::mem::zeroed();
        libc::pthread_attr_init(&mut attr);
        libc::pthread_attr_setstack(&mut attr, mem, STACK);
        let mut job = Job { f: Some(Box::new(f)), out: None };
        let mut tid: libc::pthread_t = std::mem::zeroed();
        let rc = libc::pthread_create(&mut tid, &attr, trampoline::<R>, &mut job as *mut Job<R> as *mut libc::c_void);
        libc::pthread_attr_destroy(&mut attr);
        assert_eq!(rc, 0, "pthread_create failed");
        libc::pthread_join(tid, std::ptr::null_mut());
        job.out.take().expect("thread produced no result")
    }
}

/// Position of this thread in std's per-thread `RandomState` key sequence, as an opaque probe.
/// (Each `RandomState::new()` on a thread uses keys (k0 + n, k1); with the entropy seed fixed,
/// k0 and k1 are the same on every thread, so the probe identifies n.)
pub fn rs_probe() -> u64 {
    use std::hash::BuildHasher;
    std::collections::hash_map::RandomState::new().hash_one(0x5eed_u64)
}

/// Advances this thread's `RandomState` sequence until it is just past `probe`.
pub fn rs_seek(probe: u64) -> bool {
    use std::hash::BuildHasher;
    for _ in 0..(1u64 << 33) {
        if std::collections::hash_map::RandomState::new().hash_one(0x5eed_u64) == probe {
            return true;
        }
    }
    false
}
