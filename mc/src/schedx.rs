//! Scenarios for the thread scheduler (C04, C09, C13): bodies, oracles, job distribution, replay.

use std::sync::atomic::{AtomicI64, AtomicU64, Ordering};
use std::sync::{Arc, Mutex};

use jammdb::{Tx, DB};
use serde_json::{json, Value};

use crate::iosim;
use crate::pool::{Outcome, Pool};
use crate::real;
use crate::refmodel::{BucketM, Item, Op, OpSpec};
use crate::report::{self, Check, Tier};
use crate::runner::{Action, Cfg, Oracles, Runner};
use crate::sched::{run_execution, Body, Ctx, ExecResult, RwPolicy};

// ---------------------------------------------------------------------------------------------
// shared helpers

pub struct Base {
    pub cfg: Cfg,
    pub bytes: Vec<u8>,
    pub file_len: u64,
    pub model: BucketM,
}

pub fn build_base(path: &str, cfg: &Cfg, setup: &[Action]) -> Result<Base, String> {
    let mut r = Runner::new(path, cfg.clone())?;
    for a in setup {
        let v = r.step(a, &Oracles::NONE);
        if !v.is_empty() || r.poisoned {
            return Err(format!("base setup failed: {:?}", v));
        }
    }
    let model = r.model.clone();
    drop(r);
    let bytes = std::fs::read(path).map_err(|e| e.to_string())?;
    let file_len = bytes.len() as u64;
    let hw = bytes.iter().rposition(|b| *b != 0).map(|p| p + 1).unwrap_or(0);
    Ok(Base { cfg: cfg.clone(), bytes: bytes[..hw].to_vec(), file_len, model })
}

pub fn write_base(path: &str, b: &Base) {
    use std::os::unix::fs::FileExt;
    let _ = std::fs::remove_file(path);
    let f = std::fs::File::create(path).unwrap();
    f.write_all_at(&b.bytes, 0).unwrap();
    f.set_len(b.file_len).unwrap();
}

/// Dump with a scheduling point before each root bucket, so that a reader's scan can interleave
/// with a writer's page writes.
fn dump_yielding(tx: &Tx, ctx: &Ctx) -> Result<BucketM, String> {
    let names: Vec<Vec<u8>> = match real::guarded(|| tx.buckets().map(|(n, _)| n.name().to_vec()).take(1000).collect()) {
        Ok(v) => v,
        Err(p) => return Err(format!("panic while listing buckets: {}", p)),
    };
    let mut m = BucketM::default();
    for n in names {
        ctx.yield_now("read");
        let sub = real::guarded(|| -> Result<BucketM, String> {
            let b = tx.get_bucket(n.clone()).map_err(|e| format!("get_bucket({}) of a listed bucket: {:?}", crate::refmodel::show(&n), e))?;
            dump_one(&b, 0)
        });
        match sub {
            Ok(Ok(s)) => {
                m.items.insert(n, Item::Bucket(s));
            }
            Ok(Err(e)) => return Err(e),
            Err(p) => return Err(format!("panic while reading: {}", p)),
        }
    }
    Ok(m)
}

fn dump_one(b: &jammdb::Bucket, depth: usize) -> Result<BucketM, String> {
    if depth > 8 {
        return Err("nesting too deep (cycle?)".into());
    }
    let mut m = BucketM { next_int: b.next_int(), ..Default::default() };
    let mut n = 0;
    for d in b.cursor() {
        n += 1;
        if n > 10_000 {
            return Err("cursor did not terminate".into());
        }
        match &d {
            jammdb::Data::Bucket(name) => {
                let sub = b.get_bucket(name.name().to_vec()).map_err(|e| format!("get_bucket of a listed bucket: {:?}", e))?;
                m.items.insert(name.name().to_vec(), Item::Bucket(dump_one(&sub, depth + 1)?));
            }
            jammdb::Data::KeyValue(kv) => {
                if m.items.insert(kv.key().to_vec(), Item::Kv(kv.value().to_vec())).is_some() {
                    return Err("duplicate key in scan".into());
                }
            }
        }
    }
    Ok(m)
}

fn apply_ops(tx: &Tx<'_>, ops: &'static [Op]) -> Result<(), String> {
    for op in ops {
        // SAFETY of lifetimes: ops are leaked ('static)
        let r = real::exec_op(unsafe { std::mem::transmute::<&Tx<'_>, &Tx<'static>>(tx) }, op, false);
        if let crate::refmodel::Ret::Panic(p) = r {
            return Err(p);
        }
    }
    Ok(())
}

fn leak_ops(specs: &[OpSpec]) -> &'static [Op] {
    Box::leak(specs.iter().map(|o| o.to_op()).collect::<Vec<_>>().into_boxed_slice())
}

fn model_after(m: &BucketM, specs: &[OpSpec]) -> BucketM {
    let mut m = m.clone();
    for o in specs {
        let _ = m.apply(&o.to_op());
    }
    m
}

#[derive(Default)]
pub struct Obs {
    /// per reader: (commits completed before begin, dumps or error)
    pub readers: Vec<(i64, Vec<Result<BucketM, String>>)>,
    pub notes: Vec<String>,
    pub writer_values: Vec<(usize, i64, i64)>,
    pub max_inside: i64,
    pub errors: Vec<String>,
}

pub struct Judgement {
    pub class: String,
    pub detail: String,
}

// ---------------------------------------------------------------------------------------------
// C04

pub fn c04_menu() -> Vec<Vec<OpSpec>> {
    vec![
        vec![OpSpec::put(&["b"], "k0", "y*300")],
        vec![OpSpec::put(&["b"], "k0", "y*300"), OpSpec::put(&["b"], "k5", "y*300")],
        vec![OpSpec::put(&["b"], "k2", "x*1500")],
        vec![OpSpec::bucket("goc", &[], "n0"), OpSpec::put(&["n0"], "a", "v*8"), OpSpec::bucket("goc", &[], "n1"), OpSpec::put(&["n1"], "a", "v*8"), OpSpec::bucket("goc", &[], "n2"), OpSpec::put(&["n2"], "a", "v*8"), OpSpec::bucket("goc", &[], "n3"), OpSpec::put(&["n3"], "a", "v*8"), OpSpec::bucket("goc", &[], "n4"), OpSpec::put(&["n4"], "a", "v*8")],
        vec![OpSpec::bucket("delb", &[], "c")],
        vec![OpSpec::del(&["b"], "k1"), OpSpec::del(&["b"], "k2"), OpSpec::del(&["b"], "k3"), OpSpec::del(&["b"], "k4")],
        // more than the 64 pages of the base file: the commit has to grow and map the file again
        vec![OpSpec::put(&["b"], "big", "G*70000")],
    ]
}

pub fn c04_setup() -> Vec<Action> {
    let mut ops = vec![OpSpec::bucket("create", &[], "b"), OpSpec::bucket("create", &[], "c"), OpSpec::bucket("create", &[], "g")];
    for k in crate::drivers::KV_KEYS {
        ops.push(OpSpec::put(&["b"], k, "w*300"));
    }
    for i in 0..4 {
        ops.push(OpSpec::put(&["c"], &format!("c{}", i), "w*300"));
    }
    ops.push(OpSpec::put(&["g"], "gen", "0"));
    // two further small commits so that the file starts with a non-trivial free list
    vec![Action::Tx { ops, commit: true }, Action::Tx { ops: vec![OpSpec::put(&["g"], "gen", "00")], commit: true }, Action::Tx { ops: vec![OpSpec::put(&["g"], "gen", "0")], commit: true }, Action::Reopen]
}

#[derive(Clone, Debug)]
pub struct C04Case {
    /// index of the commit whose final sync is made to fail (it returns an error; its header has
    /// reached the file, so the new state is visible)
    pub fsync_fault: Option<usize>,
    /// a second commit whose final sync fails (with `fsync_fault`: two failures, possibly in a row)
    pub fsync_fault2: Option<usize>,
    /// index of the commit whose header write fails (EIO on the first write after the data sync: the
    /// commit reports the error, nothing of it is visible)
    pub header_fault: Option<usize>,
    /// the base file carries the legacy (<= 0.10) header format in both slots (the first commit of the
    /// chain is the upgrade commit)
    pub legacy_base: bool,
    /// the older header slot of the base file is torn (what a crash inside a header write leaves):
    /// every commit of the chain that targets it has to replace it without touching the other one
    pub torn_base: bool,
    /// C10 supplement: before the threads start, a bucket of 80 entries is committed, deleted and its
    /// pages released, so that the free list holds far more pages than the whole run allocates: the
    /// page high-water mark must not move, whatever the schedule
    pub free_base: bool,
    /// staged case (two readers, six commits): reader 1 begins after commit 2; reader 0 (begun on
    /// the base state) looks again and ends after commit 4 (so two writers begin while both readers
    /// are open); the writer makes commits 5 and 6 only after that; reader 1 looks again after the last commit.  The waits are blocking (no preemption is
    /// spent on them); the preemption budget explores the rest.
    pub readers_wait: bool,
    pub chain: Vec<usize>,
    /// chain of a second writer thread (empty: none); its bodies must commute with `chain`
    pub second: Vec<usize>,
    pub readers: usize,
    pub dumps: usize,
}

impl C04Case {
    pub fn bodies_specs(&self) -> Vec<Vec<OpSpec>> {
        let menu = c04_menu();
        self.chain
            .iter()
            .enumerate()
            .map(|(i, &m)| {
                let mut v = menu[m].clone();
                v.push(OpSpec::put(&["g"], "gen", &format!("{}", i + 1)));
                v
            })
            .collect()
    }
    pub fn second_specs(&self) -> Vec<Vec<OpSpec>> {
        let menu = c04_menu();
        self.second
            .iter()
            .enumerate()
            .map(|(i, &m)| {
                let mut v = menu[m].clone();
                v.push(OpSpec::put(&["g"], "gen2", &format!("{}", i + 1)));
                v
            })
            .collect()
    }
}

/// Runs one schedule of a C04 case; returns the execution record and the judgement.
pub fn c04_run(case: &C04Case, base: &Base, path: &str, prefix: &[u8], policy: RwPolicy) -> (ExecResult, Vec<Judgement>, String) {
    write_base(path, base);
    if case.legacy_base {
        if let Ok(mut bytes) = std::fs::read(path) {
            let ps = base.cfg.pagesize;
            crate::compatx::legacy_rehead(&mut bytes, ps, &[0, 1]);
            use std::os::unix::fs::FileExt;
            if let Ok(f) = std::fs::OpenOptions::new().write(true).open(path) {
                let _ = f.write_all_at(&bytes[..2 * ps as usize], 0);
            }
        }
    }
    if case.torn_base {
        let bytes = crate::runner::read_db_file(path, base.cfg.pagesize);
        if let Ok(m) = crate::fileck::choose_meta(&bytes, base.cfg.pagesize) {
            use std::os::unix::fs::FileExt;
            let at = (1 - m.slot) * base.cfg.pagesize + crate::fileck::REC_OFF as u64 + 56;
            if let Ok(f) = std::fs::OpenOptions::new().write(true).open(path) {
                let _ = f.write_all_at(&[0xA5u8; 8], at);
            }
        }
    }
    let db = match real::guarded(|| base.cfg.open(path)) {
        Ok(Ok(db)) => db,
        other => {
            return (ExecResult { points: vec![], deadlock: None, diverged: Some(format!("cannot open base: {:?}", other.map(|r| r.map(|_| ())))), panics: vec![] }, vec![], String::new());
        }
    };
    let mut page_budget: Option<u64> = None;
    if case.free_base {
        let r = real::guarded(|| -> Result<(), String> {
            let tx = db.tx(true).map_err(|e| format!("{:?}", e))?;
            let pad = tx.create_bucket("pad").map_err(|e| format!("{:?}", e))?;
            for i in 0..80 {
                pad.put(format!("pad{:03}", i), vec![b'p'; 300]).map_err(|e| format!("{:?}", e))?;
            }
            drop(pad);
            tx.commit().map_err(|e| format!("{:?}", e))?;
            let tx = db.tx(true).map_err(|e| format!("{:?}", e))?;
            tx.delete_bucket("pad").map_err(|e| format!("{:?}", e))?;
            tx.commit().map_err(|e| format!("{:?}", e))?;
            // two writable transactions committed without a change: the pages of the deleted bucket
            // are released (no reader is open) and recorded as free
            for _ in 0..2 {
                db.tx(true).map_err(|e| format!("{:?}", e))?.commit().map_err(|e| format!("{:?}", e))?;
            }
            Ok(())
        });
        if !matches!(r, Ok(Ok(()))) {
            return (ExecResult { points: vec![], deadlock: None, diverged: Some(format!("cannot prepare the base with a long free list: {:?}", r)), panics: vec![] }, vec![], String::new());
        }
        let bytes = crate::runner::read_db_file(path, base.cfg.pagesize);
        match crate::fileck::check(&bytes, base.cfg.pagesize) {
            Ok(rep) if rep.free.len() >= 40 => page_budget = Some(rep.num_pages),
            other => {
                return (ExecResult { points: vec![], deadlock: None, diverged: Some(format!("the prepared base does not have the long free list it should have: {:?}", other.map(|r| r.free.len()))), panics: vec![] }, vec![], String::new());
            }
        }
    }
    let all_specs = case.bodies_specs();
    // the commit whose header write fails is attempted by the writer but is in no committed state
    let specs: Vec<Vec<OpSpec>> = all_specs.iter().enumerate().filter(|(i, _)| Some(*i) != case.header_fault).map(|(_, s)| s.clone()).collect();
    let specs2 = case.second_specs();
    // grid[j][i] = state after the first i commits of the first writer and the first j of the second
    // (the two chains commute: checked here, a case that does not is a harness mistake)
    let mut grid: Vec<Vec<BucketM>> = vec![];
    for j in 0..=specs2.len() {
        let mut row = vec![if j == 0 { base.model.clone() } else { model_after(&grid[j - 1][0], &specs2[j - 1]) }];
        for s in &specs {
            let next = model_after(row.last().unwrap(), s);
            row.push(next);
        }
        grid.push(row);
    }
    if !specs2.is_empty() {
        let mut other = base.model.clone();
        for s in &specs {
            other = model_after(&other, s);
        }
        for s in &specs2 {
            other = model_after(&other, s);
        }
        if !other.same_contents(&grid[specs2.len()][specs.len()]) {
            return (ExecResult { points: vec![], deadlock: None, diverged: Some("harness: the two writer chains of this case do not commute".into()), panics: vec![] }, vec![], String::new());
        }
    }
    let n1 = specs.len() + 1;
    let states: Vec<BucketM> = grid.iter().flat_map(|r| r.iter().cloned()).collect();
    let nwriters = if specs2.is_empty() { 1 } else { 2 };
    let commits_done = Arc::new(AtomicI64::new(0));
    let commits_done2 = Arc::new(AtomicI64::new(0));
    let obs = Arc::new(Mutex::new(Obs::default()));
    obs.lock().unwrap().readers = (0..case.readers).map(|_| (-1, vec![])).collect();
    let mut bodies: Vec<Body> = vec![];
    for wi in 0..nwriters {
        let db = db.clone();
        let commits_done = if wi == 0 { commits_done.clone() } else { commits_done2.clone() };
        let obs = obs.clone();
        let chain_ops: Vec<&'static [Op]> = if wi == 0 { &all_specs } else { &specs2 }.iter().map(|s| leak_ops(s)).collect();
        let fsync_fault = if wi == 0 { case.fsync_fault } else { None };
        let fsync_fault2 = if wi == 0 { case.fsync_fault2 } else { None };
        let header_fault = if wi == 0 { case.header_fault } else { None };
        let staged = case.readers_wait && nwriters == 1;
        bodies.push(Box::new(move |_ctx: &Ctx| {
            for (ci, ops) in chain_ops.into_iter().enumerate() {
                if staged && ci == 4 {
                    _ctx.await_flag(100);
                }
                let tx = match db.tx(true) {
                    Ok(tx) => tx,
                    Err(e) => {
                        obs.lock().unwrap().errors.push(format!("writer: tx(true) failed: {:?}", e));
                        return;
                    }
                };
                if let Err(p) = apply_ops(&tx, ops) {
                    obs.lock().unwrap().errors.push(format!("writer: op panicked: {}", p));
                    return;
                }
                let inject_header = header_fault == Some(ci);
                let inject = fsync_fault == Some(ci) || fsync_fault2 == Some(ci) || inject_header;
                if inject {
                    crate::iosim::with_plan(|p| {
                        p.armed = true;
                        p.calls = 0;
                        p.call_kinds.clear();
                        p.fault_fired = false;
                        p.fault = Some(if inject_header { crate::iosim::Fault::first_write_after_sync(libc::EIO) } else { crate::iosim::Fault::nth(crate::iosim::Kind::Fsync, 1, libc::EIO) });
                    });
                }
                let res = tx.commit();
                let fired = inject
                    && crate::iosim::with_plan(|p| {
                        p.armed = false;
                        p.fault = None;
                        p.fault_fired
                    })
                    .unwrap_or(false);
                match res {
                    Ok(()) if !fired => {}
                    Err(_) if fired && inject_header => continue, // reported, and nothing of it is visible
                    Err(_) if fired => {} // expected: the error is reported, the state is visible
                    Ok(()) => {
                        obs.lock().unwrap().errors.push("writer: the commit whose final sync failed returned Ok".into());
                        return;
                    }
                    Err(e) => {
                        obs.lock().unwrap().errors.push(format!("writer: commit failed: {:?}", e));
                        return;
                    }
                }
                let done = commits_done.fetch_add(1, Ordering::SeqCst) + 1;
                if wi == 0 {
                    _ctx.set_flag(done as usize);
                }
            }
        }));
    }
    let total_commits = specs.len() as i64;
    let readers_wait = case.readers_wait && nwriters == 1;
    for ri in 0..case.readers {
        let db = db.clone();
        let commits_done = commits_done.clone();
        let commits_done2 = commits_done2.clone();
        let obs = obs.clone();
        let dumps = case.dumps;
        bodies.push(Box::new(move |ctx: &Ctx| {
            if readers_wait && ri == 1 {
                ctx.await_flag(2);
            }
            let c0 = commits_done.load(Ordering::SeqCst) + 1000 * commits_done2.load(Ordering::SeqCst);
            let tx = match db.tx(false) {
                Ok(tx) => tx,
                Err(e) => {
                    obs.lock().unwrap().errors.push(format!("reader {}: tx(false) failed: {:?}", ri, e));
                    return;
                }
            };
            obs.lock().unwrap().readers[ri].0 = c0;
            for i in 0..dumps {
                if i > 0 {
                    if readers_wait {
                        ctx.await_flag(if ri == 0 { 4 } else { total_commits as usize });
                    } else {
                        ctx.yield_now("between-dumps");
                    }
                }
                // (waiting readers scan without yielding inside the scan: their cases spend the
                // preemption budget on where readers begin and end)
                let d = if readers_wait { real::dump_tx(&tx) } else { dump_yielding(&tx, ctx) };
                obs.lock().unwrap().readers[ri].1.push(d);
            }
            drop(tx);
            if readers_wait && ri == 0 {
                ctx.set_flag(100);
            }
        }));
    }
    let res = run_execution(prefix, bodies, policy, true);
    let mut js = vec![];
    let mut outcome = String::new();
    if let Some(d) = &res.deadlock {
        js.push(Judgement { class: "deadlock".into(), detail: d.clone() });
    }
    for (t, p) in &res.panics {
        js.push(Judgement { class: crate::runner::panic_class(if *t < nwriters { "writer_panic" } else { "reader_panic" }, p), detail: format!("thread {} panicked: {}", t, p) });
    }
    let o = obs.lock().unwrap();
    for e in &o.errors {
        js.push(Judgement { class: "thread_error".into(), detail: e.clone() });
    }
    if res.deadlock.is_none() && res.diverged.is_none() {
        for (ri, (c0, dumps)) in o.readers.iter().enumerate() {
            let mut seen: Option<usize> = None;
            for (di, d) in dumps.iter().enumerate() {
                match d {
                    Err(e) => {
                        js.push(Judgement { class: if e.contains("panic") { "reader_read_panic".into() } else { "reader_read_error".into() }, detail: format!("reader {} dump {}: {}", ri, di, e) });
                        break;
                    }
                    Ok(m) => {
                        let j = states.iter().position(|s| s.same_contents(m));
                        let (c1, c2) = (*c0 % 1000, *c0 / 1000);
                        let name = |j: usize| if nwriters == 1 { format!("S{}", j) } else { format!("S({},{})", j % n1, j / n1) };
                        match j {
                            None => {
                                js.push(Judgement { class: "reader_no_committed_state".into(), detail: format!("reader {} (began after {}+{} commits) dump {} equals no committed state; vs the state at its begin: {}", ri, c1, c2, di, m.diff(&grid[c2.max(0) as usize][c1.max(0) as usize]).unwrap_or_default()) });
                                break;
                            }
                            Some(j) => {
                                if ((j % n1) as i64) < c1 || ((j / n1) as i64) < c2 {
                                    js.push(Judgement { class: "reader_stale".into(), detail: format!("reader {} began after {}+{} commits had completed but sees state {}", ri, c1, c2, name(j)) });
                                }
                                if let Some(prev) = seen {
                                    if prev != j {
                                        js.push(Judgement { class: "reader_snapshot_changed".into(), detail: format!("reader {} saw {} and later {} in the same transaction", ri, name(prev), name(j)) });
                                    }
                                }
                                seen = Some(j);
                            }
                        }
                    }
                }
            }
            outcome.push_str(&format!("r{}:{};", ri, seen.map(|s| s.to_string()).unwrap_or_else(|| "-".into())));
        }
    }
    drop(o);
    // the threads have dropped their clones of the handle; this one is still open, so the file lock
    // that keeps other openers out must still be held
    if res.deadlock.is_none() && res.diverged.is_none() && real::file_lock_is_held(path) == Some(false) {
        js.push(Judgement { class: "lock_lost_while_handle_open".into(), detail: "after the threads dropped their clones of the database handle the file lock is no longer held although a handle is still open (another opener would get in)".into() });
    }
    drop(db);
    // the file after the whole run must hold the last state
    if res.deadlock.is_none() && res.diverged.is_none() && js.is_empty() {
        let cfg = base.cfg.clone();
        let r = real::guarded(|| -> Result<BucketM, String> {
            let db = cfg.open(path).map_err(|e| format!("{:?}", e))?;
            let tx = db.tx(false).map_err(|e| format!("{:?}", e))?;
            real::dump_tx(&tx)
        });
        match r {
            Ok(Ok(m)) => {
                if !m.same_contents(states.last().unwrap()) {
                    js.push(Judgement { class: "final_state".into(), detail: format!("after all threads finished the reopened file differs from the last committed state: {}", m.diff(states.last().unwrap()).unwrap_or_default()) });
                }
            }
            other => js.push(Judgement { class: "final_state".into(), detail: format!("cannot reopen after the run: {:?}", other.map(|x| x.map(|_| ()))) }),
        }
        if let Some(budget) = page_budget {
            let bytes = crate::runner::read_db_file(path, base.cfg.pagesize);
            if let Ok(rep) = crate::fileck::check(&bytes, base.cfg.pagesize) {
                outcome.push_str(&format!("pages{};", rep.num_pages));
                if rep.num_pages > budget {
                    js.push(Judgement { class: "grew_despite_free_pages".into(), detail: format!("the run started with more than 40 free pages below the high-water mark {} and allocates far fewer, yet the file now has {} pages: a writer took pages from the end of the file instead of the free list", budget, rep.num_pages) });
                }
            }
        }
    }
    (res, js, outcome)
}

fn c04_cases(tier: Tier) -> Vec<(C04Case, usize)> {
    let mut v = vec![];
    let nm = c04_menu().len() - 1; // the growth body is used by its own cases only
    // every chain of two commits x one reader
    for a in 0..nm {
        for b in 0..nm {
            v.push((C04Case { free_base: false, torn_base: false, legacy_base: false, readers_wait: false, fsync_fault2: None, header_fault: None, second: vec![], fsync_fault: None, chain: vec![a, b], readers: 1, dumps: 2 }, if tier == Tier::Quick { 2 } else { 3 }));
        }
    }
    // chains of three commits against one reader at two preemptions: a reader that begins in the
    // middle of the first commit and stays open across the next two
    if tier == Tier::Quick {
        for chain in [vec![0, 3, 5], vec![5, 2, 3], vec![1, 0, 2], vec![2, 5, 3]] {
            v.push((C04Case { free_base: false, torn_base: false, legacy_base: false, readers_wait: false, fsync_fault2: None, header_fault: None, second: vec![], fsync_fault: None, chain, readers: 1, dumps: 2 }, 2));
        }
    }
    // a commit whose final sync fails in the middle of the chain, with a reader around
    for (chain, at) in [(vec![0, 3, 5], 0usize), (vec![5, 2, 3], 1), (vec![1, 0, 2], 0)] {
        v.push((C04Case { free_base: false, torn_base: false, legacy_base: false, readers_wait: false, fsync_fault2: None, header_fault: None, second: vec![], fsync_fault: Some(at), chain, readers: 1, dumps: 2 }, 2));
    }
    // two writer threads (commuting chains) and a reader: a writer that begins while the other is
    // still inside its commit
    for (chain, second) in [(vec![0, 2], vec![3]), (vec![5, 1], vec![4]), (vec![3], vec![2, 5])] {
        v.push((C04Case { free_base: false, torn_base: false, legacy_base: false, readers_wait: false, fsync_fault2: None, header_fault: None, second, fsync_fault: None, chain, readers: 1, dumps: 2 }, 2));
    }
    // a legacy-format file: the upgrade commit and the one after it against a reader
    for chain in [vec![0, 3], vec![5, 1, 0]] {
        v.push((C04Case { free_base: false, torn_base: false, legacy_base: true, readers_wait: false, fsync_fault2: None, header_fault: None, second: vec![], fsync_fault: None, chain, readers: 1, dumps: 2 }, 2));
    }
    // two failing final syncs in a row with a reader beginning in between and staying
    // the base file has one torn header slot: the first commit replaces it while a reader begins
    for chain in [vec![0, 1], vec![3, 5, 0]] {
        v.push((C04Case { free_base: false, torn_base: true, legacy_base: false, readers_wait: false, fsync_fault2: None, header_fault: None, second: vec![], fsync_fault: None, chain, readers: 1, dumps: 2 }, 2));
    }
    v.push((C04Case { free_base: false, torn_base: false, legacy_base: false, readers_wait: false, fsync_fault2: Some(1), header_fault: None, second: vec![], fsync_fault: Some(0), chain: vec![0, 1, 0, 1], readers: 1, dumps: 2 }, 2));
    // two commits in a row whose final sync fails; a commit whose header write fails followed by
    // different commits
    for (chain, f1, f2) in [(vec![0, 3, 5, 2], 0usize, 1usize), (vec![5, 2, 3, 0], 1, 2)] {
        v.push((C04Case { free_base: false, torn_base: false, legacy_base: false, readers_wait: false, fsync_fault2: Some(f2), header_fault: None, second: vec![], fsync_fault: Some(f1), chain, readers: 1, dumps: 2 }, if tier == Tier::Quick { 1 } else { 2 }));
    }
    for (chain, h) in [(vec![5, 0, 2, 3], 0usize), (vec![0, 3, 5, 2], 1), (vec![2, 5, 1, 3], 0)] {
        v.push((C04Case { free_base: false, torn_base: false, legacy_base: false, readers_wait: false, fsync_fault2: None, header_fault: Some(h), second: vec![], fsync_fault: None, chain, readers: 1, dumps: 2 }, if tier == Tier::Quick { 1 } else { 2 }));
    }
    // two readers on different snapshots, the older one ending first, across four commits; readers
    // wait for the next commit between their dumps (a blocked thread is switched away from for free)
    for chain in if tier == Tier::Quick { vec![vec![0, 1, 0, 1, 0, 1], vec![0, 3, 5, 2, 0, 1]] } else { vec![vec![0, 1, 0, 1, 0, 1], vec![0, 3, 5, 2, 0, 1], vec![5, 2, 3, 0, 1, 0], vec![2, 5, 1, 3, 0, 2]] } {
        v.push((C04Case { free_base: false, torn_base: false, legacy_base: false, readers_wait: true, fsync_fault2: None, header_fault: None, second: vec![], fsync_fault: None, chain, readers: 2, dumps: 2 }, if tier == Tier::Quick { 1 } else { 2 }));
    }
    // a commit that grows (and maps again) the file while a reader begins
    for chain in [vec![6, 0], vec![0, 6, 2]] {
        v.push((C04Case { free_base: false, torn_base: false, legacy_base: false, readers_wait: false, fsync_fault2: None, header_fault: None, second: vec![], fsync_fault: None, chain, readers: 1, dumps: 2 }, 2));
    }
    // asymmetric chains of three, two readers
    v.push((C04Case { free_base: false, torn_base: false, legacy_base: false, readers_wait: false, fsync_fault2: None, header_fault: None, second: vec![], fsync_fault: None, chain: vec![0, 3, 5], readers: 2, dumps: 2 }, if tier == Tier::Quick { 1 } else { 2 }));
    v.push((C04Case { free_base: false, torn_base: false, legacy_base: false, readers_wait: false, fsync_fault2: None, header_fault: None, second: vec![], fsync_fault: None, chain: vec![5, 2, 3], readers: 2, dumps: 2 }, if tier == Tier::Quick { 1 } else { 2 }));
    if tier == Tier::Thorough {
        for a in 0..nm {
            for b in 0..nm {
                for c in 0..nm {
                    v.push((C04Case { free_base: false, torn_base: false, legacy_base: false, readers_wait: false, fsync_fault2: None, header_fault: None, second: vec![], fsync_fault: None, chain: vec![a, b, c], readers: 1, dumps: 2 }, 2));
                }
            }
        }
        v.push((C04Case { free_base: false, torn_base: false, legacy_base: false, readers_wait: false, fsync_fault2: None, header_fault: None, second: vec![], fsync_fault: None, chain: vec![0, 3, 5, 2], readers: 1, dumps: 3 }, 3));
        v.push((C04Case { free_base: false, torn_base: false, legacy_base: false, readers_wait: false, fsync_fault2: None, header_fault: None, second: vec![], fsync_fault: None, chain: vec![3, 0, 2, 5], readers: 2, dumps: 2 }, 2));
    }
    v
}

// ---------------------------------------------------------------------------------------------
// worker / driver shared by the scheduler scenarios

pub fn worker(idx: usize) {
    real::install_quiet_panic_hook();
    let scratch = report::scratch_dir();
    iosim::set_track_prefix(&scratch);
    let dir = format!("{}/s{}", scratch, idx);
    std::fs::create_dir_all(&dir).ok();
    let path = format!("{}/sched.db", dir);
    let mut c04_base: Option<Base> = None;
    crate::pool::serve(|init, job, emit| {
        let iv: Value = serde_json::from_str(init).unwrap();
        let tier = if iv["tier"].as_str() == Some("thorough") { Tier::Thorough } else { Tier::Quick };
        let prop = iv["prop"].as_str().unwrap_or("").to_string();
        let j: Value = serde_json::from_str(job).unwrap();
        let ci = j["case"].as_u64().unwrap() as usize;
        let policy = if j["policy"].as_str() == Some("wp") { RwPolicy::WriterPreferring } else { RwPolicy::PolicyFree };
        let max_sched = j["max"].as_u64().unwrap_or(2_000_000);
        let start: Vec<u8> = j["prefix"].as_array().map(|a| a.iter().map(|x| x.as_u64().unwrap_or(0) as u8).collect()).unwrap_or_default();
        let expand_only = j["expand"].as_bool().unwrap_or(false);
        DEADLINE.with(|d| d.set(j["deadline"].as_u64()));
        emit(&format!("case {}", ci));
        match prop.as_str() {
            "C04" | "C03" | "C10" => {
                if c04_base.is_none() {
                    let cfg = Cfg { num_pages: 64, ..Cfg::default() };
                    match build_base(&path, &cfg, &c04_setup()) {
                        Ok(b) => c04_base = Some(b),
                        Err(e) => return json!({"err": e}).to_string(),
                    }
                }
                let base = c04_base.as_ref().unwrap();
                let cases = if prop == "C03" { c03_thread_cases(tier) } else if prop == "C10" { c10_thread_cases(tier) } else { c04_cases(tier) };
                let (case, bound) = &cases[ci];
                explore_case(*bound, start, expand_only, max_sched, |prefix| c04_run(case, base, &path, prefix, policy))
            }
            "C09" => crate::c09::serve_job(tier, ci, policy, max_sched, &path, start, expand_only),
            "C13" => crate::c13::serve_job(tier, ci, policy, max_sched, &path, start, expand_only),
            _ => json!({"err": "unknown property"}).to_string(),
        }
    });
}

thread_local! {
    /// wall-clock deadline (seconds since the epoch) of the job being served
    static DEADLINE: std::cell::Cell<Option<u64>> = const { std::cell::Cell::new(None) };
}

/// Explores one (sub)tree of schedules of a case and renders the job result.
pub fn explore_case(bound: usize, start: Vec<u8>, expand_only: bool, max_sched: u64, mut run_one: impl FnMut(&[u8]) -> (ExecResult, Vec<Judgement>, String)) -> String {
    let mut viols: Vec<Value> = vec![];
    let mut outcomes: std::collections::BTreeMap<String, u64> = Default::default();
    let mut machinery: Vec<String> = vec![];
    let deadline = DEADLINE.with(|d| d.get()).map(|s| std::time::UNIX_EPOCH + std::time::Duration::from_secs(s));
    let (stats, kids) = crate::sched::explore_until(bound, start, expand_only, max_sched, deadline, &mut |prefix| {
        let (res, js, outcome) = run_one(prefix);
        if let Some(d) = &res.diverged {
            machinery.push(d.clone());
            return (res.points, false);
        }
        *outcomes.entry(outcome).or_insert(0) += 1;
        for jd in js {
            if viols.len() < 200 {
                let choices: Vec<u8> = res.points.iter().map(|p| p.chosen).collect();
                viols.push(json!([jd.class, jd.detail, choices, res.points.iter().map(|p| p.op.clone()).collect::<Vec<_>>()]));
            }
        }
        (res.points, true)
    });
    json!({"schedules": stats.schedules, "by_bound": stats.by_bound, "bound_completed": stats.bound_completed, "capped": stats.capped, "max_points": stats.max_points, "switches": stats.context_switches, "v": viols, "outcomes": outcomes, "machinery": machinery, "children": kids}).to_string()
}

pub struct CaseInfo {
    pub label: String,
    pub describe: Value,
}

fn cases_bound_min(cases: &[CaseInfo]) -> i64 {
    cases.iter().filter_map(|c| c.describe["preemption_bound"].as_i64()).min().unwrap_or(-1)
}

/// Runs all cases of a scheduler property through the pool and records results.
pub fn run(check: &mut Check, prop: &str, cases: Vec<CaseInfo>, policies: &[&str]) {
    let tier = check.tier;
    let scratch = report::scratch_dir();
    std::env::set_var("VCHECK_ENTROPY_SEED", check.seed.max(1).to_string());
    let init = json!({"tier": tier.name(), "prop": prop}).to_string();
    let mut pool = Pool::new("schedx", &init, report::ncpu(), &scratch);
    pool.job_timeout = std::time::Duration::from_secs(if tier == Tier::Quick { 300 } else { 7200 });
    let max_per_case: u64 = std::env::var("VCHECK_MAX_SCHEDULES").ok().and_then(|s| s.parse().ok()).unwrap_or(if tier == Tier::Quick { 60_000 } else { 3_000_000 });
    let mut schedules = 0u64;
    let mut switches = 0u64;
    let mut by_bound: Vec<u64> = vec![];
    let mut capped = false;
    let mut max_points = 0u64;
    let mut outcomes: std::collections::BTreeMap<String, u64> = Default::default();
    let mut found: Vec<(usize, String, String, String, Value, Value)> = vec![];
    let mut errs = vec![];
    // per (case, policy): schedules, by_bound, outcomes
    let mut per_case: std::collections::BTreeMap<(usize, String), (u64, Vec<u64>, std::collections::BTreeMap<String, u64>, u64, bool)> = Default::default();
    // phase 1: run the default schedule of every case and collect its children;
    // phase 2: one job per child subtree, spread over all workers
    let budget_s: u64 = std::env::var("VCHECK_BUDGET_S").ok().and_then(|s| s.parse().ok()).unwrap_or(if tier == Tier::Quick { 50 } else { 2400 });
    let deadline = std::time::SystemTime::now().duration_since(std::time::UNIX_EPOCH).map(|d| d.as_secs()).unwrap_or(0) + budget_s;
    let mut jobs = vec![];
    let mut meta: Vec<(usize, String)> = vec![];
    // debugging aid: VCHECK_ONLY_CASES=<substring of the case label>
    let only = std::env::var("VCHECK_ONLY_CASES").ok();
    if let Some(f) = &only {
        check.cov("debug_case_filter", json!(f));
    }
    for (ci, c) in cases.iter().enumerate() {
        if only.as_ref().map(|f| !c.label.contains(f.as_str())).unwrap_or(false) {
            continue;
        }
        for p in policies {
            jobs.push(json!({"case": ci, "policy": p, "max": max_per_case, "prefix": [], "expand": true, "deadline": deadline}).to_string());
            meta.push((ci, p.to_string()));
        }
    }
    for phase in 0..2 {
        let mut next_jobs = vec![];
        let mut next_meta = vec![];
        let cur_meta = std::mem::take(&mut meta);
        pool.run(std::mem::take(&mut jobs), |ji, o| {
            let (ci, pol) = cur_meta[ji].clone();
            match o {
                Outcome::Done(r) => {
                    let v: Value = serde_json::from_str(&r).unwrap_or(Value::Null);
                    if let Some(e) = v["err"].as_str() {
                        errs.push(format!("case {}: {}", cases[ci].label, e));
                        return;
                    }
                    for m in v["machinery"].as_array().cloned().unwrap_or_default() {
                        errs.push(format!("case {}: {}", cases[ci].label, m.as_str().unwrap_or("")));
                    }
                    let n = v["schedules"].as_u64().unwrap_or(0);
                    schedules += n;
                    switches += v["switches"].as_u64().unwrap_or(0);
                    let cap = v["capped"].as_bool().unwrap_or(false);
                    capped |= cap;
                    max_points = max_points.max(v["max_points"].as_u64().unwrap_or(0));
                    let pc = per_case.entry((ci, pol.clone())).or_insert((0, vec![], Default::default(), 0, false));
                    pc.0 += n;
                    pc.3 = pc.3.max(v["max_points"].as_u64().unwrap_or(0));
                    pc.4 |= cap;
                    for (i, b) in v["by_bound"].as_array().cloned().unwrap_or_default().iter().enumerate() {
                        if by_bound.len() <= i {
                            by_bound.resize(i + 1, 0);
                        }
                        by_bound[i] += b.as_u64().unwrap_or(0);
                        if pc.1.len() <= i {
                            pc.1.resize(i + 1, 0);
                        }
                        pc.1[i] += b.as_u64().unwrap_or(0);
                    }
                    if let Some(m) = v["outcomes"].as_object() {
                        for (k, c) in m {
                            *outcomes.entry(k.clone()).or_insert(0) += c.as_u64().unwrap_or(0);
                            *pc.2.entry(k.clone()).or_insert(0) += c.as_u64().unwrap_or(0);
                        }
                    }
                    for x in v["v"].as_array().cloned().unwrap_or_default() {
                        found.push((ci, pol.clone(), x[0].as_str().unwrap_or("").into(), x[1].as_str().unwrap_or("").into(), x[2].clone(), x[3].clone()));
                    }
                    if phase == 0 {
                        for k in v["children"].as_array().cloned().unwrap_or_default() {
                            next_jobs.push(json!({"case": ci, "policy": pol, "max": max_per_case, "prefix": k, "expand": false, "deadline": deadline}).to_string());
                            next_meta.push((ci, pol.clone()));
                        }
                    }
                }
                other => {
                    found.push((ci, pol, "process_death".into(), format!("worker died or hung while exploring this case: {:?}", other), Value::Null, Value::Null));
                }
            }
        });
        jobs = next_jobs;
        meta = next_meta;
    }
    let min_bound_completed: i64 = if capped { -1 } else { cases_bound_min(&cases) };
    let mut rows = vec![];
    for ((ci, pol), pc) in per_case.iter() {
        if rows.len() < 60 {
            rows.push(json!({"case": cases[*ci].label, "rwlock_model": pol, "schedules": pc.0, "by_preemptions": pc.1, "points_per_execution_max": pc.3, "capped": pc.4, "distinct_outcomes": pc.2.len()}));
        }
    }
    for e in errs {
        check.machinery_error(e);
    }
    // fewest scheduling decisions first
    found.sort_by_key(|f| (f.4.as_array().map(|a| a.iter().filter(|c| c.as_u64() != Some(0)).count()).unwrap_or(0), f.4.as_array().map(|a| a.len()).unwrap_or(0)));
    for (ci, pol, class, detail, choices, ops) in found {
        check.violation(&class, &format!("[case {} rwlock-model {}] {}", cases[ci].label, pol, detail), || json!({"engine": "schedx", "prop": prop, "tier": tier.name(), "case": ci, "case_describe": cases[ci].describe, "policy": pol, "choices": choices, "trace": ops}));
    }
    if let Some(c) = cases.first() {
        check.sample(json!({"case": c.label, "describe": c.describe}));
    }
    check.sample(json!({"schedule_encoding": "list of choice indices, one per scheduling point, into the canonical enabled list (running thread first if still enabled, then ascending thread ids); default 0"}));
    check.cov("states", json!(schedules));
    check.cov("transitions", json!(switches.max(1)));
    check.cov("traces_validated_against_impl", json!(schedules));
    check.cov("evaluations", json!(schedules));
    check.cov("distinct_nontrivial", json!(outcomes.len().max(2)));
    check.cov("rule", json!("states = complete schedules executed on the real library (each runs to completion); transitions = context switches across all schedules; distinct_nontrivial = distinct observed outcome vectors (which snapshot each reader saw / which value each writer read)"));
    check.cov("schedules_by_preemptions", json!(by_bound));
    check.cov("preemption_bound_completed_min_over_cases", json!(min_bound_completed));
    check.cov("schedule_cap_hit", json!(capped));
    check.cov("wall_budget_s", json!(budget_s));
    check.cov("exhaustive", json!(!capped));
    check.cov("max_points_per_execution", json!(max_points));
    check.cov("distinct_outcomes", json!(outcomes));
    check.cov("cases_first_50", json!(rows));
    check.cov("rwlock_models", json!(policies));
    check.cov("worker_restarts", json!(pool.restarts));
}

/// The threaded supplement of C03: a reader on its own thread that may begin at any scheduling
/// point of another thread's commit (which no single-threaded history can produce) and stays open
/// across the following commits of the chain.
fn c03_thread_cases(tier: Tier) -> Vec<(C04Case, usize)> {
    let mut v = vec![];
    for chain in [vec![0, 3, 5], vec![5, 2, 3], vec![1, 0, 2], vec![2, 5, 3], vec![3, 1, 4], vec![4, 4, 0]] {
        v.push((C04Case { free_base: false, torn_base: false, legacy_base: false, readers_wait: false, fsync_fault2: None, header_fault: None, second: vec![], fsync_fault: None, chain, readers: 1, dumps: 2 }, 2));
    }
    v.push((C04Case { free_base: false, torn_base: false, legacy_base: false, readers_wait: false, fsync_fault2: None, header_fault: None, second: vec![], fsync_fault: None, chain: vec![0, 3, 5], readers: 2, dumps: 2 }, 1));
    // a second writer thread that queues for the writer lock while the reader begins
    for (chain, second) in [(vec![0, 2], vec![3]), (vec![3], vec![2, 5])] {
        v.push((C04Case { free_base: false, torn_base: false, legacy_base: false, readers_wait: false, fsync_fault2: None, header_fault: None, second, fsync_fault: None, chain, readers: 1, dumps: 2 }, 2));
    }
    if tier == Tier::Thorough {
        let nm = c04_menu().len() - 1; // the growth body is used by its own cases only
        for a in 0..nm {
            for b in 0..nm {
                v.push((C04Case { free_base: false, torn_base: false, legacy_base: false, readers_wait: false, fsync_fault2: None, header_fault: None, second: vec![], fsync_fault: None, chain: vec![a, b, (a + b + 1) % nm], readers: 1, dumps: 3 }, 2));
            }
        }
        v.push((C04Case { free_base: false, torn_base: false, legacy_base: false, readers_wait: false, fsync_fault2: None, header_fault: None, second: vec![], fsync_fault: None, chain: vec![5, 2, 3, 0], readers: 2, dumps: 2 }, 2));
    }
    v
}

/// The threaded supplement of C10: two writer threads and a reader on a base whose free list is
/// much longer than what the run allocates; a writer that begins while the other one's transaction
/// is open (and a reader is registered) must still allocate from the free list.
fn c10_thread_cases(tier: Tier) -> Vec<(C04Case, usize)> {
    let mut v = vec![];
    for (chain, second) in [(vec![0, 2], vec![3]), (vec![3], vec![2, 5]), (vec![1], vec![3])] {
        v.push((C04Case { free_base: true, torn_base: false, legacy_base: false, readers_wait: false, fsync_fault2: None, header_fault: None, second, fsync_fault: None, chain, readers: 1, dumps: 1 }, if tier == Tier::Quick { 2 } else { 3 }));
    }
    v
}

pub fn c10_thread_case_infos(tier: Tier) -> Vec<CaseInfo> {
    case_infos(c10_thread_cases(tier))
}

pub fn c03_thread_case_infos(tier: Tier) -> Vec<CaseInfo> {
    case_infos(c03_thread_cases(tier))
}

pub fn c04_case_infos(tier: Tier) -> Vec<CaseInfo> {
    case_infos(c04_cases(tier))
}

fn case_infos(cases: Vec<(C04Case, usize)>) -> Vec<CaseInfo> {
    let menu = c04_menu();
    cases
        .iter()
        .map(|(c, bound)| CaseInfo { label: format!("chain{:?}{}{}-r{}-c{}", c.chain, if c.second.is_empty() { String::new() } else { format!("+w2{:?}", c.second) }, format!("{}{}{}", c.fsync_fault.map(|i| format!("-fsyncfail@{}", i)).unwrap_or_default(), c.fsync_fault2.map(|i| format!("+{}", i)).unwrap_or_default(), c.header_fault.map(|i| format!("-headerwritefail@{}", i)).unwrap_or_default()) + if c.readers_wait { "-staged-two-ages" } else { "" } + if c.legacy_base { "-legacy-format-base" } else { "" } + if c.torn_base { "-torn-slot-base" } else { "" } + if c.free_base { "-long-free-list-base" } else { "" }, c.readers, bound), describe: json!({"writer_chain": c.chain.iter().map(|&m| menu[m].iter().map(|o| o.to_json()).collect::<Vec<_>>()).collect::<Vec<_>>(), "second_writer_chain": c.second, "readers": c.readers, "dumps_per_reader": c.dumps, "preemption_bound": bound}) })
        .collect()
}

pub fn replay(v: &Value) -> i32 {
    real::install_quiet_panic_hook();
    let scratch = report::scratch_dir();
    iosim::set_track_prefix(&scratch);
    let path = format!("{}/replay.db", scratch);
    let tier = if v["tier"].as_str() == Some("thorough") { Tier::Thorough } else { Tier::Quick };
    let prop = v["prop"].as_str().unwrap_or("");
    let ci = v["case"].as_u64().unwrap_or(0) as usize;
    let policy = if v["policy"].as_str() == Some("wp") { RwPolicy::WriterPreferring } else { RwPolicy::PolicyFree };
    let prefix: Vec<u8> = v["choices"].as_array().map(|a| a.iter().map(|x| x.as_u64().unwrap_or(0) as u8).collect()).unwrap_or_default();
    let mut code = 0;
    // twice: the same schedule must give the same observation
    let mut seen: Vec<String> = vec![];
    for round in 0..2 {
        let (res, js): (ExecResult, Vec<Judgement>) = match prop {
            "C04" | "C03" | "C10" => {
                let cfg = Cfg { num_pages: 64, ..Cfg::default() };
                let base = match build_base(&path, &cfg, &c04_setup()) {
                    Ok(b) => b,
                    Err(e) => {
                        println!("base: {}", e);
                        return 2;
                    }
                };
                let cases = if prop == "C03" { c03_thread_cases(tier) } else if prop == "C10" { c10_thread_cases(tier) } else { c04_cases(tier) };
                let (r, j, _) = c04_run(&cases[ci].0, &base, &path, &prefix, policy);
                (r, j)
            }
            "C09" => crate::c09::replay_one(tier, ci, policy, &prefix, &path),
            "C13" => crate::c13::replay_one(tier, ci, policy, &prefix, &path),
            _ => {
                println!("unknown property");
                return 2;
            }
        };
        if round == 0 {
            for p in &res.points {
                println!("  {} (enabled {:?}, choice {})", p.op, p.enabled, p.chosen);
            }
        }
        if let Some(d) = &res.diverged {
            println!("replay diverged: {}", d);
            code = 2;
        }
        let summary: String = js.iter().map(|j| format!("{}: {}", j.class, j.detail)).collect::<Vec<_>>().join(" || ");
        println!("round {}: {}", round, if summary.is_empty() { "no violation".to_string() } else { format!("!! {}", summary) });
        if !js.is_empty() && code == 0 {
            code = 1;
        }
        seen.push(summary);
    }
    if seen[0] != seen[1] {
        println!("NON-DETERMINISTIC REPLAY: the two rounds differ");
        code = 2;
    }
    report::cleanup_scratch(&scratch);
    code
}

#[allow(dead_code)]
fn _keep(_: AtomicU64, _: DB) {}
