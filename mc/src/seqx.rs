//! E1: explicit-state search over operation histories.  A state is the history that reaches it;
//! expanding a state replays the history on a fresh file with the real library, applies one more
//! action, evaluates the oracles and keys the result by a digest for de-duplication.
//! Breadth-first, level-parallel over worker processes.

use std::collections::{BTreeMap, HashSet};

use serde_json::{json, Value};

use crate::iosim;
use crate::pool::{Outcome, Pool};
use crate::real;
use crate::refmodel::Bytes;
use crate::report::{self, Check, Tier};
use crate::runner::{Action, Cfg, History, Oracles, Runner, Violation};

pub trait Alphabet: Send + Sync {
    fn len(&self) -> usize;
    fn get(&self, i: usize) -> Action;
}

impl Alphabet for Vec<Action> {
    fn len(&self) -> usize {
        Vec::len(self)
    }
    fn get(&self, i: usize) -> Action {
        self[i].clone()
    }
}

pub struct FnAlphabet<F: Fn(usize) -> Action + Send + Sync> {
    pub n: usize,
    pub f: F,
}

impl<F: Fn(usize) -> Action + Send + Sync> Alphabet for FnAlphabet<F> {
    fn len(&self) -> usize {
        self.n
    }
    fn get(&self, i: usize) -> Action {
        (self.f)(i)
    }
}

pub struct Scenario {
    pub name: String,
    pub cfg: Cfg,
    pub setup: Vec<Action>,
    pub alphabet: Box<dyn Alphabet>,
    pub depth: usize,
    pub oracles: Oracles,
    pub extra_probes: Vec<Bytes>,
    /// C06: after a non-committing last action, h+a+f and h+f must reach the same digest for each f
    pub bisim_followups: Vec<Action>,
    /// C06: non-committing actions must leave the digest unchanged
    pub drop_keeps_digest: bool,
    pub poison_unmap: bool,
    /// key states by the tx_id-relative digest (C10 closure search)
    pub rel_digest: bool,
    /// C10: page budget; exceeded = violation
    pub page_budget: Option<u64>,
    /// do not expand states beyond this many per scenario (reported as a cap)
    pub state_cap: usize,
    /// OpenReader is a no-op once this many readers are open
    pub max_readers: usize,
    /// a commit is not a transition while a reader has been open across this many commits
    pub reader_commit_limit: Option<u64>,
    /// C06: a committed transaction that contains calls which return an error must leave exactly
    /// the file (and shared bookkeeping) that the same transaction without those calls leaves
    pub failed_calls_noop: bool,
}

impl Scenario {
    pub fn new(name: &str, cfg: Cfg, setup: Vec<Action>, alphabet: Box<dyn Alphabet>, depth: usize, oracles: Oracles) -> Scenario {
        Scenario { name: name.into(), cfg, setup, alphabet, depth, oracles, extra_probes: vec![], bisim_followups: vec![], drop_keeps_digest: false, poison_unmap: false, rel_digest: false, page_budget: None, state_cap: 3_000_000, max_readers: 3, reader_commit_limit: None, failed_calls_noop: false }
    }

    pub fn history(&self, h: &[u32]) -> History {
        let mut actions = self.setup.clone();
        for &i in h {
            actions.push(self.alphabet.get(i as usize));
        }
        History { cfg: self.cfg.clone(), actions }
    }
}

struct TransResult {
    /// C06: the same transaction with its failing calls replaced by lookups (to be compared)
    twin: Option<Action>,
    live: u64,
    digest: Option<u128>,
    violations: Vec<Violation>,
    shape: (u32, u32, u32),
    pages: u64,
    reads: u64,
    ops: u64,
}

/// File image + model after a scenario's setup (only for setups that end with a reopen, where the
/// whole state is in the file).
pub struct BaseImage {
    pub bytes: Vec<u8>,
    pub file_len: u64,
    pub model: crate::refmodel::BucketM,
}

pub fn build_base_image(sc: &Scenario, path: &str) -> Option<BaseImage> {
    if sc.setup.last() != Some(&Action::Reopen) {
        return None;
    }
    let mut r = Runner::new(path, sc.cfg.clone()).ok()?;
    for act in &sc.setup {
        r.step(act, &Oracles::NONE);
        if r.poisoned {
            return None;
        }
    }
    let bytes = r.file_bytes();
    let file_len = std::fs::metadata(path).ok()?.len();
    let model = r.model.clone();
    Some(BaseImage { bytes, file_len, model })
}

fn start_runner(sc: &Scenario, path: &str, base: Option<&BaseImage>) -> Result<Runner, String> {
    if let Some(b) = base {
        let _ = std::fs::remove_file(path);
        let f = std::fs::File::create(path).map_err(|e| e.to_string())?;
        use std::os::unix::fs::FileExt;
        f.write_all_at(&b.bytes, 0).map_err(|e| e.to_string())?;
        f.set_len(b.file_len).map_err(|e| e.to_string())?;
        drop(f);
        Runner::adopt(path, sc.cfg.clone(), b.model.clone())
    } else {
        Runner::new(path, sc.cfg.clone())
    }
}

/// Runs setup + history + one action on a fresh file, on the calling thread.
fn run_transition(sc: &Scenario, path: &str, h: &[u32], a: Option<usize>, base: Option<&BaseImage>) -> TransResult {
    let mut res = TransResult { twin: None, live: 0, digest: None, violations: vec![], shape: (0, 0, 0), pages: 0, reads: 0, ops: 0 };
    let use_base = base.is_some() && !(a.is_none() && h.is_empty());
    let mut r = match start_runner(sc, path, if use_base { base } else { None }) {
        Ok(r) => r,
        Err(e) => {
            res.violations.push(Violation::new("create_failed", e));
            return res;
        }
    };
    r.extra_probes = sc.extra_probes.clone();
    let none = Oracles::NONE;
    let no_setup: Vec<Action> = vec![];
    for act in if use_base { &no_setup } else { &sc.setup } {
        let v = r.step(act, if a.is_none() && h.is_empty() { &sc.oracles } else { &none });
        if a.is_none() && h.is_empty() {
            res.violations.extend(v.into_iter().map(|mut x| {
                x.detail = format!("(in scenario setup) {}", x.detail);
                x
            }));
        }
        if r.poisoned {
            res.violations.push(Violation::new("setup_poisoned", "scenario setup could not complete"));
            return res;
        }
    }
    for &i in h {
        let act = sc.alphabet.get(i as usize);
        r.step(&act, &none);
        if r.poisoned {
            // the prefix was explored before; it can only be poisoned if the run is not reproducible
            res.violations.push(Violation::new("nondeterministic_replay", "a prefix that completed during exploration failed when replayed"));
            return res;
        }
    }
    if let Some(ai) = a {
        let act = sc.alphabet.get(ai);
        if (act == Action::OpenReader || matches!(act, Action::TxReaderInside { .. })) && r.num_readers() >= sc.max_readers {
            // bounded number of simultaneous readers: not a transition
            return res;
        }
        if let Action::CloseReader(i) = act {
            if i >= r.num_readers() {
                return res;
            }
        }
        if let (Some(limit), Action::Tx { commit: true, .. } | Action::TxReaderInside { commit: true, .. }) = (sc.reader_commit_limit, &act) {
            if r.reader_models().iter().any(|(_, age)| *age >= limit) {
                return res;
            }
        }
        if act == Action::Reopen && r.num_readers() > 0 {
            return res;
        }
        let before = if sc.drop_keeps_digest && is_noncommitting(&act) { Some(r.digest()) } else { None };
        let twin = if sc.failed_calls_noop { twin_without_failed_calls(&r.model, &act) } else { None };
        let v = r.step(&act, &sc.oracles);
        res.violations.extend(v);
        if !r.poisoned {
            res.twin = twin;
        }
        if !r.poisoned {
            if let Some(b) = before {
                if r.digest() != b {
                    res.violations.push(Violation::new("noncommit_changed_state", "file bytes or shared in-memory bookkeeping changed across an action that must leave no trace"));
                }
            }
        }
    }
    res.reads = r.stats.reads + r.stats.reader_checks;
    res.ops = r.stats.ops;
    res.shape = r.last_shape;
    if !r.poisoned {
        if sc.rel_digest || sc.page_budget.is_some() {
            let bytes = r.file_bytes();
            if let Ok(rep) = crate::fileck::check(&bytes, sc.cfg.pagesize) {
                res.pages = rep.num_pages;
                res.live = rep.live_pages;
                if let Some(b) = sc.page_budget {
                    if rep.num_pages > b {
                        res.violations.push(Violation::new("page_budget_exceeded", format!("high-water mark {} pages exceeds the budget {} for this bounded workload", rep.num_pages, b)));
                    }
                }
            }
            if sc.rel_digest {
                res.digest = Some(crate::c10::rel_digest(&r, &bytes));
            } else {
                res.digest = Some(r.digest());
            }
        } else {
            res.digest = Some(r.digest());
        }
    }
    res
}

/// The same committing transaction with every call the reference model answers with an error
/// replaced by a plain lookup of the bucket it addressed (None: no such call in it).
fn twin_without_failed_calls(model: &crate::refmodel::BucketM, a: &Action) -> Option<Action> {
    use crate::refmodel::{OpSpec, Ret};
    let Action::Tx { ops, commit: true } = a else { return None };
    let mut m = model.clone();
    let mut out: Vec<OpSpec> = vec![];
    let mut replaced = 0;
    for o in ops {
        let op = o.to_op();
        let path_ok = m.resolve(op.path()).is_ok();
        match m.apply(&op) {
            Ret::Err(_) if path_ok => {
                replaced += 1;
                if let Some((last, front)) = o.path.split_last() {
                    out.push(OpSpec { kind: "getb".into(), path: front.to_vec(), key: last.clone(), val: None });
                }
            }
            _ => out.push(o.clone()),
        }
    }
    if replaced == 0 || replaced == ops.len() && false {
        return None;
    }
    Some(Action::Tx { ops: out, commit: true })
}

fn is_noncommitting(a: &Action) -> bool {
    matches!(a, Action::Tx { commit: false, .. } | Action::RoTx { .. } | Action::RoCommit) || matches!(a, Action::TxFail { call, .. } if *call < 1000)
}


/// Worker entry: serves transition jobs for property `prop`.
pub fn worker(idx: usize) {
    real::install_quiet_panic_hook();
    let scratch = report::scratch_dir();
    iosim::set_track_prefix(&scratch);
    let dir = format!("{}/w{}", scratch, idx);
    std::fs::create_dir_all(&dir).ok();
    let path = format!("{}/seqx.db", dir);
    let mut cache: Option<(String, std::sync::Arc<Vec<Scenario>>)> = None;
    let mut bases: std::collections::HashMap<usize, Option<BaseImage>> = std::collections::HashMap::new();
    crate::pool::serve(|init, job, emit| {
        let init_v: Value = serde_json::from_str(init).expect("init json");
        let prop = init_v["prop"].as_str().unwrap().to_string();
        let tier = if init_v["tier"].as_str() == Some("thorough") { Tier::Thorough } else { Tier::Quick };
        if cache.as_ref().map(|c| c.0 != init).unwrap_or(true) {
            cache = Some((init.to_string(), std::sync::Arc::new(crate::drivers::scenarios(&prop, tier))));
            bases.clear();
        }
        let scs = cache.as_ref().unwrap().1.clone();
        let j: Value = serde_json::from_str(job).expect("job json");
        let si = j["s"].as_u64().unwrap() as usize;
        let h: Vec<u32> = j["h"].as_array().unwrap().iter().map(|x| x.as_u64().unwrap() as u32).collect();
        let lo = j["lo"].as_u64().unwrap() as usize;
        let hi = j["hi"].as_u64().unwrap() as usize;
        let root = j["root"].as_bool().unwrap_or(false);
        if let Some(pair) = j.get("cmp") {
            // abstraction cross-check: two histories merged by the digest must have equal successors
            let sc = &scs[si];
            if !bases.contains_key(&si) {
                let b = build_base_image(sc, &path);
                bases.insert(si, b);
            }
            let base = bases.get(&si).unwrap().as_ref();
            let h1: Vec<u32> = pair[0].as_array().unwrap().iter().map(|x| x.as_u64().unwrap() as u32).collect();
            let h2: Vec<u32> = pair[1].as_array().unwrap().iter().map(|x| x.as_u64().unwrap() as u32).collect();
            let mut bad = vec![];
            let mut n = 0;
            for a in 0..sc.alphabet.len() {
                let r1 = run_transition(sc, &path, &h1, Some(a), base);
                let r2 = run_transition(sc, &path, &h2, Some(a), base);
                n += 1;
                if r1.digest != r2.digest {
                    bad.push(a);
                }
            }
            return json!({"cmp_actions": n, "cmp_bad": bad}).to_string();
        }
        let mut digests: Vec<String> = vec![];
        let mut viols: Vec<Value> = vec![];
        let mut shapes: BTreeMap<String, u64> = BTreeMap::new();
        let mut reads = 0u64;
        let mut ops = 0u64;
        let mut max_pages = 0u64;
        let mut max_live = 0u64;
        let range: Vec<Option<usize>> = if root { vec![None] } else { (lo..hi).map(Some).collect() };
        let sc = &scs[si];
        if !bases.contains_key(&si) {
            let b = build_base_image(sc, &path);
            bases.insert(si, b);
        }
        let base = bases.get(&si).unwrap().as_ref();
        iosim::set_poison_unmap(sc.poison_unmap);
        for a in range {
            emit(&format!("{}", a.map(|x| x as i64).unwrap_or(-1)));
            let probe = crate::fresh::rs_probe();
            let r = real::guarded(|| {
                let mut res = run_transition(sc, &path, &h, a, base);
                // C06: calls that returned an error inside a committed transaction must not change
                // what the commit writes (both variants on fresh threads, same hash-seed position)
                if let (Some(tw), Some(ai)) = (res.twin.take(), a) {
                    let sc_s: &'static Scenario = unsafe { &*(sc as *const Scenario) };
                    let base_s: Option<&'static BaseImage> = base.map(|b| unsafe { &*(b as *const BaseImage) });
                    let act = sc.alphabet.get(ai);
                    let (d1, pos) = run_followup(sc_s, &path, &h, None, &act, base_s, None);
                    let (d2, _) = run_followup(sc_s, &path, &h, None, &tw, base_s, Some(pos));
                    if d1.is_none() || d2.is_none() {
                        res.violations.push(Violation::new("nondeterministic_replay", "the transaction or its twin (failed calls replaced by lookups) could not be replayed"));
                    } else if d1 != d2 {
                        res.violations.push(Violation::new("failed_call_changed_commit", format!("the committed transaction leaves a different file (or shared bookkeeping) than the same transaction without the calls that returned an error (those replaced by plain lookups of the same buckets): {}", tw.to_json())));
                    }
                }
                // C06 bisimulation: the dropped work must not influence any follow-up
                if let Some(ai) = a {
                    let act = sc.alphabet.get(ai);
                    if is_noncommitting(&act) && !sc.bisim_followups.is_empty() && res.digest.is_some() && std::env::var("VCHECK_NO_BISIM").is_err() {
                        for f in &sc.bisim_followups {
                            // lifetimes: the scenario list and base images live as long as the worker
                            let sc_s: &'static Scenario = unsafe { &*(sc as *const Scenario) };
                            let base_s: Option<&'static BaseImage> = base.map(|b| unsafe { &*(b as *const BaseImage) });
                            let t0 = std::time::Instant::now();
                            let (d1, pos) = run_followup(sc_s, &path, &h, Some(ai), f, base_s, None);
                            let t1 = t0.elapsed();
                            let (d2, _) = run_followup(sc_s, &path, &h, None, f, base_s, Some(pos));
                            if std::env::var("VCHECK_TIMING").is_ok() {
                                eprintln!("bisim a={} d1 {:?} d2 {:?}", ai, t1, t0.elapsed() - t1);
                            }
                            if d1 != d2 {
                                res.violations.push(Violation::new("abandoned_tx_influences_followup", format!("after the abandoned action, follow-up {} leads to a different file/bookkeeping state than without it", f.to_json())));
                                break;
                            }
                        }
                    }
                }
                res
            });
            if sc.poison_unmap {
                iosim::reap_poisoned();
            }
            match r {
                Ok(res) => {
                    digests.push(res.digest.map(|d| format!("{:032x}", d)).unwrap_or_default());
                    for v in res.violations {
                        viols.push(json!([a.map(|x| x as i64).unwrap_or(-1), v.class, v.detail, format!("{:016x}", probe)]));
                    }
                    if res.shape.0 > 0 {
                        *shapes.entry(format!("{}x{}x{}", res.shape.0, res.shape.1, res.shape.2)).or_insert(0) += 1;
                    }
                    reads += res.reads;
                    ops += res.ops;
                    max_pages = max_pages.max(res.pages);
                    max_live = max_live.max(res.live);
                }
                Err(p) => {
                    digests.push(String::new());
                    viols.push(json!([a.map(|x| x as i64).unwrap_or(-1), "harness_panic", p, format!("{:016x}", probe)]));
                }
            }
        }
        json!({"d": digests, "v": viols, "shapes": shapes, "reads": reads, "ops": ops, "max_pages": max_pages, "max_live": max_live}).to_string()
    });
}

/// Digest reached by `h (+ a) + f`, on a fresh thread.  With `a` present returns the hash-seed
/// position right before `f`; with `seek` given, advances to that position before `f`, so that both
/// variants run `f` with identical hash-map iteration orders inside the library.
fn run_followup(sc: &'static Scenario, path: &str, h: &[u32], a: Option<usize>, f: &Action, base: Option<&'static BaseImage>, seek: Option<u64>) -> (Option<u128>, u64) {
    let path = path.to_string();
    let h = h.to_vec();
    let f = f.clone();
    crate::fresh::on_fresh_thread(move || {
        let mut r = match start_runner(sc, &path, base) {
            Ok(r) => r,
            Err(_) => return (None, 0),
        };
        let none = Oracles::NONE;
        if base.is_none() {
            for act in &sc.setup {
                r.step(act, &none);
            }
        }
        for &i in &h {
            r.step(&sc.alphabet.get(i as usize), &none);
        }
        if let Some(ai) = a {
            r.step(&sc.alphabet.get(ai), &none);
        }
        let probe = match seek {
            Some(p) => {
                crate::fresh::rs_seek(p);
                p
            }
            None => crate::fresh::rs_probe(),
        };
        r.step(&f, &none);
        if r.poisoned {
            (None, probe)
        } else {
            (Some(r.digest()), probe)
        }
    })
    .unwrap_or((None, 0))
}

pub struct SearchStats {
    pub max_live: u64,
    pub states: u64,
    pub transitions: u64,
    pub depth_completed: usize,
    pub cap_hit: bool,
    pub closed: bool,
    pub max_pages: u64,
}

/// Runs every scenario of `prop` breadth-first; records results in `check`.
pub fn explore(check: &mut Check, prop: &str, engine: &str) {
    let tier = check.tier;
    let scs = crate::drivers::scenarios(prop, tier);
    let scratch = report::scratch_dir();
    let init = json!({"prop": prop, "tier": tier.name(), "seed": check.seed}).to_string();
    std::env::set_var("VCHECK_ENTROPY_SEED", check.seed.max(1).to_string());
    let mut pool = Pool::new(engine, &init, report::ncpu(), &scratch);
    let mut total_states = 0u64;
    let mut total_trans = 0u64;
    let mut all_shapes: BTreeMap<String, u64> = BTreeMap::new();
    let mut per_scenario = vec![];
    let mut total_reads = 0u64;
    let mut total_ops = 0u64;
    let mut exhaustive = true;
    // wall budget of the breadth-first searches of this check, counted from here (the fixed long
    // histories that some checks run first do not eat into it)
    let budget_s: f64 = check.elapsed() + std::env::var("VCHECK_BUDGET_S").ok().and_then(|s| s.parse().ok()).unwrap_or(if tier == Tier::Quick { 50.0 } else { 3000.0 });
    let only = std::env::var("VCHECK_ONLY").ok();
    for (si, sc) in scs.iter().enumerate() {
        if let Some(o) = &only {
            if !sc.name.contains(o.as_str()) {
                continue;
            }
        }
        let t0 = std::time::Instant::now();
        let mut visited: HashSet<u128> = HashSet::new();
        let mut first_hist: std::collections::HashMap<u128, Vec<u32>> = std::collections::HashMap::new();
        let mut merge_pairs: Vec<(Vec<u32>, Vec<u32>)> = vec![];
        let commit_count = |h: &[u32]| -> usize { h.iter().filter(|&&i| matches!(sc.alphabet.get(i as usize), Action::Tx { commit: true, .. } | Action::TxReaderInside { commit: true, .. })).count() };
        let mut frontier: Vec<Vec<u32>> = vec![];
        let mut st = SearchStats { max_live: 0, states: 0, transitions: 0, depth_completed: 0, cap_hit: false, closed: false, max_pages: 0 };
        // root
        let mut root_ok = false;
        let mut root_viol = vec![];
        pool.run(vec![json!({"s": si, "h": [], "lo": 0, "hi": 0, "root": true}).to_string()], |_, o| match o {
            Outcome::Done(r) => {
                let v: Value = serde_json::from_str(&r).unwrap_or(Value::Null);
                if let Some(d) = v["d"][0].as_str() {
                    if !d.is_empty() {
                        visited.insert(u128::from_str_radix(d, 16).unwrap());
                        root_ok = true;
                    }
                }
                for x in v["v"].as_array().cloned().unwrap_or_default() {
                    root_viol.push((x[1].as_str().unwrap_or("").to_string(), x[2].as_str().unwrap_or("").to_string(), x[3].as_str().unwrap_or("").to_string()));
                }
            }
            other => root_viol.push(("worker_died".into(), format!("{:?}", other), String::new())),
        });
        for (c, d, probe) in root_viol {
            let hist = sc.history(&[]);
            let seed = check.seed;
            check.violation(&c, &format!("[{}] {}", sc.name, d), || json!({"engine": "seqx", "prop": prop, "tier": tier.name(), "seed": seed, "scenario": sc.name, "indices": [], "root": true, "rs_probe": probe, "history": hist.to_json()}));
        }
        if root_ok {
            frontier.push(vec![]);
            st.states = 1;
        }
        let n = sc.alphabet.len();
        let chunk = if n > 4096 { 512 } else if n > 256 { 128 } else { n.max(1) };
        for depth in 0..sc.depth {
            if frontier.is_empty() {
                st.closed = !st.cap_hit;
                break;
            }
            let mut jobs = vec![];
            let mut job_meta: Vec<(usize, usize)> = vec![]; // (frontier idx, lo)
            for (fi, h) in frontier.iter().enumerate() {
                let mut lo = 0;
                while lo < n {
                    let hi = (lo + chunk).min(n);
                    jobs.push(json!({"s": si, "h": h, "lo": lo, "hi": hi}).to_string());
                    job_meta.push((fi, lo));
                    lo = hi;
                }
            }
            let mut next: Vec<Vec<u32>> = vec![];
            let mut found: Vec<(Vec<u32>, String, String, String)> = vec![];
            let mut crashed: Vec<(Vec<u32>, String)> = vec![];
            pool.run(jobs, |ji, o| {
                let (fi, lo) = job_meta[ji];
                match o {
                    Outcome::Done(r) => {
                        let v: Value = match serde_json::from_str(&r) {
                            Ok(v) => v,
                            Err(_) => return,
                        };
                        let ds = v["d"].as_array().cloned().unwrap_or_default();
                        st.transitions += ds.len() as u64;
                        for (k, d) in ds.iter().enumerate() {
                            let d = d.as_str().unwrap_or("");
                            if d.is_empty() {
                                continue;
                            }
                            let dg = u128::from_str_radix(d, 16).unwrap();
                            if visited.insert(dg) {
                                st.states += 1;
                                if visited.len() <= sc.state_cap {
                                    let mut h = frontier[fi].clone();
                                    h.push((lo + k) as u32);
                                    if sc.rel_digest && first_hist.len() < 500_000 {
                                        first_hist.insert(dg, h.clone());
                                    }
                                    next.push(h);
                                } else {
                                    st.cap_hit = true;
                                }
                            } else if sc.rel_digest && merge_pairs.len() < 400 {
                                if let Some(h1) = first_hist.get(&dg) {
                                    let mut h2 = frontier[fi].clone();
                                    h2.push((lo + k) as u32);
                                    if commit_count(h1) != commit_count(&h2) && (st.transitions + merge_pairs.len() as u64) % 7 == 0 {
                                        merge_pairs.push((h1.clone(), h2));
                                    }
                                }
                            }
                        }
                        for x in v["v"].as_array().cloned().unwrap_or_default() {
                            let ai = x[0].as_i64().unwrap_or(-1);
                            let mut h = frontier[fi].clone();
                            if ai >= 0 {
                                h.push(ai as u32);
                            }
                            found.push((h, x[1].as_str().unwrap_or("").to_string(), x[2].as_str().unwrap_or("").to_string(), x[3].as_str().unwrap_or("").to_string()));
                        }
                        if let Some(m) = v["shapes"].as_object() {
                            for (k, c) in m {
                                *all_shapes.entry(k.clone()).or_insert(0) += c.as_u64().unwrap_or(0);
                            }
                        }
                        total_reads += v["reads"].as_u64().unwrap_or(0);
                        total_ops += v["ops"].as_u64().unwrap_or(0);
                        st.max_pages = st.max_pages.max(v["max_pages"].as_u64().unwrap_or(0));
                        st.max_live = st.max_live.max(v["max_live"].as_u64().unwrap_or(0));
                    }
                    Outcome::Crashed { last_marker, status, stderr_tail } => {
                        let mut h = frontier[fi].clone();
                        if let Some(a) = last_marker.as_ref().and_then(|m| m.parse::<i64>().ok()) {
                            if a >= 0 {
                                h.push(a as u32);
                            }
                        }
                        crashed.push((h, format!("worker process died ({}) while running this history; stderr: {}", status, stderr_tail)));
                    }
                    Outcome::Timeout { last_marker } => {
                        let mut h = frontier[fi].clone();
                        if let Some(a) = last_marker.as_ref().and_then(|m| m.parse::<i64>().ok()) {
                            if a >= 0 {
                                h.push(a as u32);
                            }
                        }
                        crashed.push((h, "worker did not answer within the job timeout (hang / livelock) while running this history".to_string()));
                    }
                }
            });
            // shortest, simplest-first reporting order
            found.sort_by(|a, b| (a.0.len(), &a.0).cmp(&(b.0.len(), &b.0)));
            let seed = check.seed;
            for (h, c, d, probe) in found {
                let hist = sc.history(&h);
                check.violation(&c, &format!("[{}] {}", sc.name, d), || json!({"engine": "seqx", "prop": prop, "tier": tier.name(), "seed": seed, "scenario": sc.name, "indices": h, "rs_probe": probe, "history": hist.to_json()}));
            }
            for (h, d) in crashed {
                let hist = sc.history(&h);
                check.violation("process_death", &format!("[{}] {}", sc.name, d), || json!({"engine": "seqx", "prop": prop, "tier": tier.name(), "seed": seed, "scenario": sc.name, "indices": h, "history": hist.to_json()}));
            }
            st.depth_completed = depth + 1;
            next.sort();
            frontier = next;
            if frontier.is_empty() && !st.cap_hit {
                st.closed = true;
            }
            if sc.rel_digest && st.max_pages > 4 * st.max_live + 16 {
                // leaking: the budget check below reports it; no point in unrolling further
                st.cap_hit = true;
                break;
            }
            if check.elapsed() > budget_s {
                if depth + 1 < sc.depth && !frontier.is_empty() {
                    st.cap_hit = true;
                }
                break;
            }
        }
        let mut merges_checked = 0u64;
        if sc.rel_digest {
            // abstraction cross-check on states merged across different transaction ids
            let jobs: Vec<String> = merge_pairs.iter().map(|(a, b)| json!({"s": si, "h": [], "lo": 0, "hi": 0, "cmp": [a, b]}).to_string()).collect();
            let mut bad: Vec<(usize, Vec<u64>)> = vec![];
            pool.run(jobs, |ji, o| {
                if let Outcome::Done(r) = o {
                    let v: Value = serde_json::from_str(&r).unwrap_or(Value::Null);
                    merges_checked += v["cmp_actions"].as_u64().unwrap_or(0);
                    let b: Vec<u64> = v["cmp_bad"].as_array().map(|a| a.iter().filter_map(|x| x.as_u64()).collect()).unwrap_or_default();
                    if !b.is_empty() {
                        bad.push((ji, b));
                    }
                }
            });
            for (ji, b) in bad {
                check.machinery_error(format!("[{}] digest abstraction unsound: histories {:?} and {:?} were merged but differ after actions {:?}", sc.name, merge_pairs[ji].0, merge_pairs[ji].1, b));
            }
            // page budget: a bounded workload must stay within a few snapshots' worth of pages
            let budget = 4 * st.max_live + 16;
            if st.max_pages > budget {
                let h = frontier.first().cloned().unwrap_or_default();
                let hist = sc.history(&h);
                let seed = check.seed;
                check.violation("unbounded_growth", &format!("[{}] high-water mark reached {} pages although no snapshot of this workload needs more than {} pages (budget 4 x that + 16 = {}); search {} after {} states", sc.name, st.max_pages, st.max_live, budget, if st.closed { "closed" } else { "did not close" }, st.states), || json!({"engine": "seqx", "prop": prop, "tier": tier.name(), "seed": seed, "scenario": sc.name, "indices": h, "history": hist.to_json()}));
            }
        }
        if st.cap_hit || (st.depth_completed < sc.depth && !st.closed) {
            exhaustive = false;
        }
        total_states += st.states;
        total_trans += st.transitions;
        if let Some(h) = frontier.first() {
            check.sample(json!({"scenario": sc.name, "frontier_history": sc.history(h).actions.iter().skip(sc.setup.len()).map(|a| a.to_json()).collect::<Vec<_>>()}));
        } else if n > 0 {
            check.sample(json!({"scenario": sc.name, "action": sc.alphabet.get(n / 2).to_json()}));
        }
        per_scenario.push(json!({
            "scenario": sc.name, "alphabet": n, "depth_bound": sc.depth, "depth_completed": st.depth_completed,
            "states": st.states, "transitions": st.transitions, "cap_hit": st.cap_hit, "closed_before_bound": st.closed,
            "max_pages": st.max_pages, "largest_snapshot_pages": st.max_live, "merged_pairs_cross_checked": merge_pairs.len(), "successor_comparisons": merges_checked, "wall_s": (t0.elapsed().as_secs_f64() * 100.0).round() / 100.0,
        }));
    }
    check.cov("states", json!(total_states));
    check.cov("transitions", json!(total_trans));
    check.cov("traces_validated_against_impl", json!(total_trans));
    check.cov("evaluations", json!(total_trans));
    check.cov("distinct_nontrivial", json!(total_states));
    check.cov("rule", json!("a transition = one history (scenario setup + explored prefix + one more whole-transaction action) replayed from an empty file on the real library next to the reference model; distinct = distinct digest of (file bytes below the high-water mark, shared free list / pending lists / reader list, open readers' entitled contents)"));
    check.cov("exhaustive", json!(exhaustive));
    check.cov("scenarios", json!(per_scenario));
    check.cov("tree_shapes_levels_x_leaves_x_branches", json!(all_shapes));
    check.cov("api_reads_compared", json!(total_reads));
    check.cov("ops_executed", json!(total_ops));
    check.cov("worker_restarts", json!(pool.restarts));
}

/// Replays a seqx replay file outside the explorer.  First the exact transition as the explorer
/// ran it (same scenario, same position in the hash-seed sequence), then the self-contained history
/// with every oracle switched on, step by step.
pub fn replay(v: &Value) -> i32 {
    real::install_quiet_panic_hook();
    let scratch = report::scratch_dir();
    iosim::set_track_prefix(&scratch);
    let path = format!("{}/replay.db", scratch);
    let mut bad = 0;
    if let (Some(prop), Some(scn)) = (v["prop"].as_str(), v["scenario"].as_str()) {
        let tier = if v["tier"].as_str() == Some("thorough") { Tier::Thorough } else { Tier::Quick };
        let scs = crate::drivers::scenarios(prop, tier);
        if let Some(sc) = scs.iter().find(|s| s.name == scn) {
            let idx: Vec<u32> = v["indices"].as_array().map(|a| a.iter().map(|x| x.as_u64().unwrap() as u32).collect()).unwrap_or_default();
            let probe = v["rs_probe"].as_str().and_then(|p| u64::from_str_radix(p, 16).ok());
            let base = build_base_image(sc, &path);
            let found = match probe {
                Some(p) => crate::fresh::rs_seek(p),
                None => true,
            };
            if !found {
                println!("exact replay: could not reach the recorded hash-seed position");
            }
            iosim::set_poison_unmap(sc.poison_unmap);
            let res = if v["root"].as_bool() == Some(true) || idx.is_empty() {
                run_transition(sc, &path, &[], None, base.as_ref())
            } else {
                run_transition(sc, &path, &idx[..idx.len() - 1], Some(idx[idx.len() - 1] as usize), base.as_ref())
            };
            let mut res = res;
            if let (Some(tw), false) = (res.twin.take(), idx.is_empty()) {
                let sc_s: &'static Scenario = unsafe { &*(sc as *const Scenario) };
                let base_s: Option<&'static BaseImage> = base.as_ref().map(|b| unsafe { &*(b as *const BaseImage) });
                let act = sc.alphabet.get(idx[idx.len() - 1] as usize);
                let (d1, pos) = run_followup(sc_s, &path, &idx[..idx.len() - 1], None, &act, base_s, None);
                let (d2, _) = run_followup(sc_s, &path, &idx[..idx.len() - 1], None, &tw, base_s, Some(pos));
                println!("twin comparison: {} vs {}: digests {:?} / {:?}", act.to_json(), tw.to_json(), d1.map(|d| format!("{:032x}", d)), d2.map(|d| format!("{:032x}", d)));
                if d1 != d2 {
                    res.violations.push(Violation::new("failed_call_changed_commit", format!("the committed transaction leaves a different file (or shared bookkeeping) than the same transaction without the calls that returned an error: {}", tw.to_json())));
                }
            }
            println!("exact replay of scenario {} indices {:?}:", scn, idx);
            for x in &res.violations {
                println!("   !! {}: {}", x.class, x.detail);
                bad += 1;
            }
            if res.violations.is_empty() {
                println!("   (no violation in the exact replay)");
            }
        }
    }
    let hist = History::from_json(&v["history"]);
    let all = Oracles { rets: true, dump_after: true, reopen_copy: true, probe_each_op: Some(real::ProbeCfg::LIGHT), probe_after_commit: Some(real::ProbeCfg::LIGHT), fileck: true, dbcheck: true, no_trace: true, readers_frozen: true, strict_layout: true, both_headers: true, dump_in_tx: true, probe_in_tx_end: None, kept_cursor: true };
    println!("step-by-step replay with every oracle on:");
    match Runner::new(&path, hist.cfg.clone()) {
        Ok(mut r) => {
            for (i, a) in hist.actions.iter().enumerate() {
                let vs = r.step(a, &all);
                println!("step {} {}", i, a.to_json());
                for v in &vs {
                    println!("   !! {}: {}", v.class, v.detail);
                    bad += 1;
                }
                if r.poisoned {
                    println!("   (handle unusable after a panic/error; stopping)");
                    break;
                }
            }
        }
        Err(e) => {
            println!("create failed: {}", e);
            bad += 1;
        }
    }
    report::cleanup_scratch(&scratch);
    if bad > 0 {
        1
    } else {
        0
    }
}
