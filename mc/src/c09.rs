//! C09 scenarios: serialised writers doing read-modify-write increments, readers coming and going,
//! file growth on the first commit, and the liveness scenario (a reader is never blocked by an
//! open uncommitted writer).

use std::sync::atomic::{AtomicI64, Ordering};
use std::sync::{Arc, Mutex};

use serde_json::json;

use crate::real;
use crate::report::Tier;
use crate::runner::Cfg;
use crate::sched::{run_execution, Body, Ctx, ExecResult, RwPolicy};
use crate::schedx::{CaseInfo, Judgement};

#[derive(Clone, Debug)]
pub struct Case {
    /// page size of the database (0 = 1024)
    pub pagesize: u64,
    /// before the threads start, the header slot that is not the current one is torn (its checksum no
    /// longer matches): the first commit has to wipe it before it writes the new header
    pub torn_slot: bool,
    /// writer 0 also stores a 20 MiB value in its increment transaction (several growth steps at once)
    pub big_value: bool,
    /// writer 0 first runs a commit whose final sync fails (EIO after the header reached the file:
    /// the error is reported, the state is visible, the next writer has to rebuild the free list)
    pub fsync_fault: bool,
    /// writer 0 first runs a commit whose file-growing `mmap` fails (ENOMEM), then its normal one
    pub mmap_fault: bool,
    /// writer 0 first makes a commit that has to grow the file and whose space reservation
    /// (fallocate) is refused: it must report the error and leave every lock free
    pub alloc_fault: bool,
    /// writer 0 first makes a commit whose header write fails (nothing of it becomes visible); the
    /// increments of all writers follow
    pub header_fault: bool,
    pub writers: usize,
    pub readers: usize,
    pub liveness: bool,
    /// initial pages of the fresh file (4 = the first commit has to grow the file)
    pub num_pages: usize,
    pub bound: usize,
}

pub fn cases(tier: Tier) -> Vec<Case> {
    let q = tier == Tier::Quick;
    let mut v = vec![
        Case { header_fault: false, alloc_fault: false, pagesize: 0, torn_slot: false, big_value: false, fsync_fault: false, mmap_fault: false, writers: 1, readers: 1, liveness: true, num_pages: 4, bound: if q { 4 } else { 8 } },
        Case { header_fault: false, alloc_fault: false, pagesize: 0, torn_slot: false, big_value: false, fsync_fault: false, mmap_fault: false, writers: 1, readers: 1, liveness: true, num_pages: 64, bound: if q { 4 } else { 8 } },
        Case { header_fault: false, alloc_fault: false, pagesize: 0, torn_slot: false, big_value: false, fsync_fault: false, mmap_fault: false, writers: 2, readers: 1, liveness: false, num_pages: 4, bound: if q { 2 } else { 3 } },
        Case { header_fault: false, alloc_fault: false, pagesize: 0, torn_slot: false, big_value: false, fsync_fault: false, mmap_fault: false, writers: 3, readers: 0, liveness: false, num_pages: 4, bound: if q { 1 } else { 2 } },
        Case { header_fault: false, alloc_fault: false, pagesize: 0, torn_slot: false, big_value: false, fsync_fault: false, mmap_fault: false, writers: 2, readers: 0, liveness: false, num_pages: 64, bound: if q { 3 } else { 4 } },
    ];
    v.push(Case { header_fault: false, alloc_fault: false, pagesize: 0, torn_slot: false, big_value: false, fsync_fault: false, mmap_fault: true, writers: 1, readers: if q { 1 } else { 2 }, liveness: false, num_pages: 4, bound: if q { 2 } else { 3 } });
    v.push(Case { header_fault: false, alloc_fault: false, pagesize: 0, torn_slot: false, big_value: false, fsync_fault: false, mmap_fault: true, writers: 2, readers: 1, liveness: false, num_pages: 4, bound: if q { 1 } else { 2 } });
    v.push(Case { header_fault: true, alloc_fault: false, pagesize: 0, torn_slot: false, big_value: false, fsync_fault: false, mmap_fault: false, writers: 3, readers: 0, liveness: false, num_pages: 64, bound: if q { 1 } else { 2 } });
    v.push(Case { header_fault: true, alloc_fault: false, pagesize: 0, torn_slot: false, big_value: false, fsync_fault: false, mmap_fault: false, writers: 2, readers: 1, liveness: false, num_pages: 64, bound: if q { 1 } else { 2 } });
    v.push(Case { header_fault: false, alloc_fault: true, pagesize: 0, torn_slot: false, big_value: false, fsync_fault: false, mmap_fault: false, writers: 2, readers: 1, liveness: false, num_pages: 4, bound: if q { 1 } else { 2 } });
    v.push(Case { header_fault: false, alloc_fault: false, pagesize: 0, torn_slot: false, big_value: false, fsync_fault: true, mmap_fault: false, writers: 1, readers: if q { 1 } else { 2 }, liveness: false, num_pages: 64, bound: if q { 2 } else { 3 } });
    v.push(Case { header_fault: false, alloc_fault: false, pagesize: 0, torn_slot: false, big_value: false, fsync_fault: true, mmap_fault: false, writers: 2, readers: 1, liveness: false, num_pages: 64, bound: if q { 1 } else { 2 } });
    v.push(Case { header_fault: false, alloc_fault: false, pagesize: 0, torn_slot: false, big_value: true, fsync_fault: false, mmap_fault: false, writers: 2, readers: 1, liveness: false, num_pages: 4, bound: if q { 0 } else { 1 } });
    // (a reader open while the 20 MiB commit grows the file)
    v.push(Case { header_fault: false, alloc_fault: false, pagesize: 0, torn_slot: false, big_value: true, fsync_fault: false, mmap_fault: false, writers: 1, readers: 1, liveness: false, num_pages: 4, bound: 2 });
    // a page size that does not divide the growth step, growing from four pages
    v.push(Case { header_fault: false, alloc_fault: false, pagesize: 5000, torn_slot: false, big_value: false, fsync_fault: false, mmap_fault: false, writers: 2, readers: 1, liveness: false, num_pages: 4, bound: if q { 1 } else { 2 } });
    // one header slot torn before the threads start
    v.push(Case { header_fault: false, alloc_fault: false, pagesize: 0, torn_slot: true, big_value: false, fsync_fault: false, mmap_fault: false, writers: 2, readers: 1, liveness: false, num_pages: 64, bound: if q { 1 } else { 2 } });
    if !q {
        v.push(Case { header_fault: false, alloc_fault: false, pagesize: 0, torn_slot: false, big_value: false, fsync_fault: false, mmap_fault: false, writers: 3, readers: 1, liveness: false, num_pages: 4, bound: 2 });
        v.push(Case { header_fault: false, alloc_fault: false, pagesize: 0, torn_slot: false, big_value: false, fsync_fault: false, mmap_fault: false, writers: 2, readers: 2, liveness: false, num_pages: 4, bound: 2 });
        v.push(Case { header_fault: false, alloc_fault: false, pagesize: 0, torn_slot: false, big_value: false, fsync_fault: false, mmap_fault: false, writers: 3, readers: 2, liveness: false, num_pages: 4, bound: 1 });
    } else {
        v.push(Case { header_fault: false, alloc_fault: false, pagesize: 0, torn_slot: false, big_value: false, fsync_fault: false, mmap_fault: false, writers: 2, readers: 2, liveness: false, num_pages: 4, bound: 1 });
    }
    v
}

pub fn case_infos(tier: Tier) -> Vec<CaseInfo> {
    cases(tier)
        .iter()
        .map(|c| CaseInfo {
            label: format!("{}w{}r{}{}-pages{}-c{}", c.writers, c.readers, if c.liveness { "-liveness" } else { "" }, if c.torn_slot { "-one-header-slot-torn" } else if c.pagesize != 0 { "-pagesize5000" } else if c.big_value { "-20MiB-value" } else if c.header_fault { "-headerwritefault" } else if c.alloc_fault { "-fallocatefault" } else if c.mmap_fault { "-mmapfault" } else if c.fsync_fault { "-finalsyncfault" } else { "" }, c.num_pages, c.bound),
            describe: json!({"writers": c.writers, "readers": c.readers, "writer_body": if c.liveness { "begin; put; await(reader finished); commit" } else { "begin; v = get(n); yield; put(n, v+1); yield; commit" }, "reader_body": if c.liveness { "begin; dump; drop; signal" } else { "begin; dump; yield; dump; drop" }, "initial_pages": c.num_pages, "preemption_bound": c.bound}),
        })
        .collect()
}

#[derive(Default)]
struct Obs {
    writer_reads: Vec<(usize, i64, i64)>, // (writer, commits completed before begin, value read)
    reader_views: Vec<(usize, i64, Vec<Result<i64, String>>)>,
    errors: Vec<String>,
    max_inside: i64,
}

fn read_counter(tx: &jammdb::Tx) -> Result<i64, String> {
    match real::guarded(|| -> Result<i64, String> {
        match tx.get_bucket("ctr") {
            Ok(b) => match b.get_kv("n") {
                Some(kv) => std::str::from_utf8(kv.value()).map_err(|e| e.to_string())?.parse::<i64>().map_err(|e| format!("counter value unreadable: {}", e)),
                None => Ok(0),
            },
            Err(jammdb::Error::BucketMissing) => Ok(0),
            Err(e) => Err(format!("{:?}", e)),
        }
    }) {
        Ok(r) => r,
        Err(p) => Err(format!("panic while reading: {}", p)),
    }
}

pub fn run_one(case: &Case, path: &str, prefix: &[u8], policy: RwPolicy) -> (ExecResult, Vec<Judgement>, String) {
    let _ = std::fs::remove_file(path);
    let cfg = Cfg { num_pages: case.num_pages, pagesize: if case.pagesize == 0 { 1024 } else { case.pagesize }, ..Cfg::default() };
    let db = match real::guarded(|| cfg.open(path)) {
        Ok(Ok(db)) => db,
        other => return (ExecResult { points: vec![], deadlock: None, diverged: Some(format!("cannot create base: {:?}", other.map(|r| r.map(|_| ())))), panics: vec![] }, vec![], String::new()),
    };
    // pre-sized files start with a two-level tree that every writer changes a different key of, so
    // that a writer working from stale allocation data damages pages the others still reference
    let with_data = case.num_pages >= 64 && !case.liveness;
    if with_data {
        let r = real::guarded(|| -> Result<(), String> {
            let tx = db.tx(true).map_err(|e| format!("{:?}", e))?;
            let b = tx.create_bucket("data").map_err(|e| format!("{:?}", e))?;
            for i in 0..6 {
                b.put(format!("k{}", i), "w".repeat(300)).map_err(|e| format!("{:?}", e))?;
            }
            drop(b);
            tx.commit().map_err(|e| format!("{:?}", e))?;
            let tx = db.tx(true).map_err(|e| format!("{:?}", e))?;
            let b = tx.get_bucket("data").map_err(|e| format!("{:?}", e))?;
            b.put("k5", "v".repeat(290)).map_err(|e| format!("{:?}", e))?;
            drop(b);
            tx.commit().map_err(|e| format!("{:?}", e))
        });
        if !matches!(r, Ok(Ok(()))) {
            return (ExecResult { points: vec![], deadlock: None, diverged: Some(format!("cannot prepare base: {:?}", r)), panics: vec![] }, vec![], String::new());
        }
    }
    let db = if case.torn_slot {
        drop(db);
        let bytes = crate::runner::read_db_file(path, cfg.pagesize);
        if let Ok(m) = crate::fileck::choose_meta(&bytes, cfg.pagesize) {
            use std::os::unix::fs::FileExt;
            let at = (1 - m.slot) * cfg.pagesize + crate::fileck::REC_OFF as u64 + 56;
            if let Ok(f) = std::fs::OpenOptions::new().write(true).open(path) {
                let _ = f.write_all_at(&[0xA5u8; 8], at);
            }
        }
        match real::guarded(|| cfg.open(path)) {
            Ok(Ok(db)) => db,
            other => return (ExecResult { points: vec![], deadlock: None, diverged: Some(format!("cannot reopen the base with a torn slot: {:?}", other.map(|r| r.map(|_| ())))), panics: vec![] }, vec![], String::new()),
        }
    } else {
        db
    };
    let commits_done = Arc::new(AtomicI64::new(0));
    let inside = Arc::new(AtomicI64::new(0));
    let obs = Arc::new(Mutex::new(Obs::default()));
    let mut bodies: Vec<Body> = vec![];
    for w in 0..case.writers {
        let db = db.clone();
        let commits_done = commits_done.clone();
        let inside = inside.clone();
        let obs = obs.clone();
        let liveness = case.liveness;
        let mmap_fault = case.mmap_fault && w == 0;
        let alloc_fault = case.alloc_fault && w == 0;
        let header_fault = case.header_fault && w == 0;
        let fsync_fault = case.fsync_fault && w == 0;
        let big_value = case.big_value && w == 0;
        bodies.push(Box::new(move |ctx: &Ctx| {
            if mmap_fault || fsync_fault || alloc_fault || header_fault {
                // a commit that has to grow the file and whose mmap fails: it must report the error,
                // and the handle must stay usable (the next commit maps the grown file again)
                let r = real::guarded(|| -> Result<(), String> {
                    let tx = db.tx(true).map_err(|e| format!("{:?}", e))?;
                    let b = tx.get_or_create_bucket("ctr").map_err(|e| format!("{:?}", e))?;
                    b.put("fill", "y".repeat(3000)).map_err(|e| format!("{:?}", e))?;
                    drop(b);
                    crate::iosim::with_plan(|p| {
                        p.armed = true;
                        p.calls = 0;
                        p.call_kinds.clear();
                        p.fault_fired = false;
                        p.fault = Some(if header_fault { crate::iosim::Fault::first_write_after_sync(libc::EIO) } else if alloc_fault { crate::iosim::Fault::nth(crate::iosim::Kind::Fallocate, 0, libc::ENOSPC) } else if fsync_fault { crate::iosim::Fault::nth(crate::iosim::Kind::Fsync, 1, libc::EIO) } else { crate::iosim::Fault::nth(crate::iosim::Kind::Mmap, 0, libc::ENOMEM) });
                    });
                    let res = tx.commit();
                    let fired = crate::iosim::with_plan(|p| {
                        p.armed = false;
                        p.fault = None;
                        p.fault_fired
                    })
                    .unwrap_or(false);
                    match res {
                        Err(_) if fired => Ok(()),
                        Err(e) => Err(format!("commit failed although no fault was injected: {:?}", e)),
                        // another writer may have grown the file already: then no mmap is needed
                        Ok(()) if !fired => Ok(()),
                        Ok(()) => Err("the commit whose mmap / final sync failed returned Ok".to_string()),
                    }
                });
                match r {
                    Ok(Ok(())) => {}
                    Ok(Err(e)) => obs.lock().unwrap().errors.push(format!("writer {}: faulted commit: {}", w, e)),
                    Err(p) => obs.lock().unwrap().errors.push(format!("writer {}: faulted commit panicked: {}", w, p)),
                }
            }
            let c0 = commits_done.load(Ordering::SeqCst);
            let tx = match db.tx(true) {
                Ok(tx) => tx,
                Err(e) => {
                    obs.lock().unwrap().errors.push(format!("writer {}: tx(true): {:?}", w, e));
                    return;
                }
            };
            let now = inside.fetch_add(1, Ordering::SeqCst) + 1;
            {
                let mut o = obs.lock().unwrap();
                o.max_inside = o.max_inside.max(now);
            }
            let v = match read_counter(&tx) {
                Ok(v) => v,
                Err(e) => {
                    obs.lock().unwrap().errors.push(format!("writer {}: {}", w, e));
                    inside.fetch_sub(1, Ordering::SeqCst);
                    return;
                }
            };
            obs.lock().unwrap().writer_reads.push((w, c0, v));
            if !liveness {
                ctx.yield_now("rmw");
            }
            let r = real::guarded(|| -> Result<(), String> {
                let b = tx.get_or_create_bucket("ctr").map_err(|e| format!("{:?}", e))?;
                b.put("n", format!("{}", v + 1)).map_err(|e| format!("{:?}", e))?;
                b.put(format!("pad{}", w), "x".repeat(300)).map_err(|e| format!("{:?}", e))?;
                if big_value {
                    b.put("big", vec![9u8; 20 << 20]).map_err(|e| format!("{:?}", e))?;
                }
                if with_data {
                    let d = tx.get_bucket("data").map_err(|e| format!("{:?}", e))?;
                    d.put(format!("k{}", w), format!("{}", w).repeat(310)).map_err(|e| format!("{:?}", e))?;
                }
                Ok(())
            });
            if let Err(e) | Ok(Err(e)) = r.map_err(|p| p) {
                obs.lock().unwrap().errors.push(format!("writer {}: put failed: {}", w, e));
            }
            if liveness {
                // hold the write transaction open until the reader has come and gone
                ctx.await_flag(0);
            } else {
                ctx.yield_now("before-commit");
            }
            inside.fetch_sub(1, Ordering::SeqCst);
            match real::guarded(move || tx.commit()) {
                Ok(Ok(())) => {
                    commits_done.fetch_add(1, Ordering::SeqCst);
                }
                Ok(Err(e)) => obs.lock().unwrap().errors.push(format!("writer {}: commit: {:?}", w, e)),
                Err(p) => obs.lock().unwrap().errors.push(format!("writer {}: commit panicked: {}", w, p)),
            }
        }));
    }
    for r in 0..case.readers {
        let db = db.clone();
        let commits_done = commits_done.clone();
        let obs = obs.clone();
        let liveness = case.liveness;
        bodies.push(Box::new(move |ctx: &Ctx| {
            let c0 = commits_done.load(Ordering::SeqCst);
            let tx = match db.tx(false) {
                Ok(tx) => tx,
                Err(e) => {
                    obs.lock().unwrap().errors.push(format!("reader {}: tx(false): {:?}", r, e));
                    return;
                }
            };
            let mut views = vec![read_counter(&tx)];
            if !liveness {
                ctx.yield_now("between-reads");
                views.push(read_counter(&tx));
            }
            drop(tx);
            // the consistency check is a read-only transaction of its own: it must neither wait
            // for an open writer nor find anything wrong
            match real::guarded(|| db.check()) {
                Ok(Ok(())) => {}
                Ok(Err(e)) => obs.lock().unwrap().errors.push(format!("reader {}: DB::check(): {:?}", r, e)),
                Err(p) => obs.lock().unwrap().errors.push(format!("reader {}: DB::check() panicked: {}", r, p)),
            }
            obs.lock().unwrap().reader_views.push((r, c0, views));
            if liveness {
                ctx.set_flag(0);
            }
        }));
    }
    let res = run_execution(prefix, bodies, policy, true);
    let mut js = vec![];
    if let Some(d) = &res.deadlock {
        js.push(Judgement { class: if case.liveness { "reader_blocked_by_open_writer".into() } else { "deadlock".into() }, detail: d.clone() });
    }
    for (t, p) in &res.panics {
        js.push(Judgement { class: crate::runner::panic_class("thread_panic", p), detail: format!("thread {} panicked: {}", t, p) });
    }
    let o = obs.lock().unwrap();
    for e in &o.errors {
        js.push(Judgement { class: "thread_error".into(), detail: e.clone() });
    }
    let mut outcome = String::new();
    if res.deadlock.is_none() && res.diverged.is_none() {
        if o.max_inside > 1 {
            js.push(Judgement { class: "two_writers_inside".into(), detail: format!("{} write transactions were open at the same time", o.max_inside) });
        }
        let mut vals: Vec<i64> = o.writer_reads.iter().map(|x| x.2).collect();
        vals.sort();
        outcome = format!("w{:?};", o.writer_reads.iter().map(|x| (x.0, x.2)).collect::<Vec<_>>());
        for (w, c0, v) in &o.writer_reads {
            if v < c0 {
                js.push(Judgement { class: "writer_stale_read".into(), detail: format!("writer {} began after {} commits had completed but read counter {}", w, c0, v) });
            }
        }
        if o.errors.is_empty() && vals != (0..case.writers as i64).collect::<Vec<_>>() {
            js.push(Judgement { class: "lost_update".into(), detail: format!("writers read counter values {:?}; serialised read-modify-write must read 0..{} once each", vals, case.writers) });
        }
        for (r, c0, views) in &o.reader_views {
            let mut first: Option<i64> = None;
            for v in views {
                match v {
                    Err(e) => js.push(Judgement { class: "reader_read_error".into(), detail: format!("reader {}: {}", r, e) }),
                    Ok(n) => {
                        if n < c0 {
                            js.push(Judgement { class: "reader_stale".into(), detail: format!("reader {} began after {} commits but sees counter {}", r, c0, n) });
                        }
                        if *n < 0 || *n > case.writers as i64 {
                            js.push(Judgement { class: "reader_bad_value".into(), detail: format!("reader {} sees counter {}", r, n) });
                        }
                        if let Some(f) = first {
                            if f != *n {
                                js.push(Judgement { class: "reader_snapshot_changed".into(), detail: format!("reader {} saw counter {} then {}", r, f, n) });
                            }
                        }
                        first = Some(*n);
                    }
                }
            }
            outcome.push_str(&format!("r{}:{:?};", r, first));
        }
    }
    drop(o);
    // the threads have dropped their clones of the handle; this one is still open, so the file lock
    // that keeps other openers out must still be held
    if res.deadlock.is_none() && res.diverged.is_none() && real::file_lock_is_held(path) == Some(false) {
        js.push(Judgement { class: "lock_lost_while_handle_open".into(), detail: "after the threads dropped their clones of the database handle the file lock is no longer held although a handle is still open (another opener would get in)".into() });
    }
    drop(db);
    if res.deadlock.is_none() && res.diverged.is_none() && js.is_empty() {
        let cfg2 = cfg.clone();
        let want = case.writers as i64;
        let nw = case.writers;
        let r = real::guarded(|| -> Result<(i64, Result<(), String>), String> {
            let db = cfg2.open(path).map_err(|e| format!("{:?}", e))?;
            let tx = db.tx(false).map_err(|e| format!("{:?}", e))?;
            let n = read_counter(&tx)?;
            if with_data {
                let d = tx.get_bucket("data").map_err(|e| format!("data bucket: {:?}", e))?;
                for i in 0..6usize {
                    let want: Vec<u8> = if i < nw { format!("{}", i).repeat(310).into_bytes() } else if i == 5 { "v".repeat(290).into_bytes() } else { "w".repeat(300).into_bytes() };
                    match d.get_kv(format!("k{}", i)) {
                        Some(kv) if kv.value() == want.as_slice() => {}
                        Some(kv) => return Err(format!("data/k{} holds {} bytes starting {:?}, expected {} bytes starting {:?}", i, kv.value().len(), &kv.value()[..4.min(kv.value().len())], want.len(), &want[..4])),
                        None => return Err(format!("data/k{} is missing", i)),
                    }
                }
                if d.cursor().count() != 6 {
                    return Err("data bucket does not hold exactly its 6 keys".into());
                }
            }
            drop(tx);
            Ok((n, db.check().map_err(|e| format!("{:?}", e))))
        });
        match r {
            Ok(Ok((n, chk))) => {
                if n != want {
                    js.push(Judgement { class: "lost_update".into(), detail: format!("final counter is {} after {} committed increments", n, want) });
                }
                if let Err(e) = chk {
                    js.push(Judgement { class: "dbcheck".into(), detail: format!("after the run DB::check() says {}", e) });
                }
            }
            other => js.push(Judgement { class: "final_state".into(), detail: format!("cannot reopen after the run: {:?}", other.map(|x| x.map(|_| ()))) }),
        }
    }
    (res, js, outcome)
}

pub fn serve_job(tier: Tier, ci: usize, policy: RwPolicy, max_sched: u64, path: &str, start: Vec<u8>, expand_only: bool) -> String {
    let cs = cases(tier);
    let case = &cs[ci];
    crate::schedx::explore_case(case.bound, start, expand_only, max_sched, |prefix| run_one(case, path, prefix, policy))
}

pub fn replay_one(tier: Tier, ci: usize, policy: RwPolicy, prefix: &[u8], path: &str) -> (ExecResult, Vec<Judgement>) {
    let cs = cases(tier);
    let (r, j, _) = run_one(&cs[ci], path, prefix, policy);
    (r, j)
}
