//! E3 metax (C12): exhaustive single-header damage.  For every base file (0..n commits), each of the
//! two header pages and every damage pattern of the bounded classes, the damaged image is opened
//! with the real library and must show, in full, the state recorded by the newest header that is
//! still valid according to the independent checker.

use serde_json::{json, Value};

use crate::fileck;
use crate::iosim;
use crate::pool::{Outcome, Pool};
use crate::real::{self, guarded};
use crate::refmodel::{BucketM, OpSpec};
use crate::report::{self, Check, Tier};
use crate::runner::{Action, Cfg, Oracles, Runner};

pub struct Base {
    pub cfg: Cfg,
    pub commits: usize,
    /// by the model's own count of successful commit() calls: the state after the last one and the
    /// state before it (what one damaged header may at most cost)
    pub model_last: BucketM,
    pub model_prev: BucketM,
    pub image: Vec<u8>,
    pub file_len: u64,
    /// states[t] = contents recorded by the header with transaction id t
    pub states: Vec<BucketM>,
}

pub fn commit_ops(i: usize) -> Vec<OpSpec> {
    let mut ops = vec![];
    if i == 1 {
        ops.push(OpSpec::bucket("create", &[], "m"));
        ops.push(OpSpec::bucket("create", &["m"], "sub"));
    }
    ops.push(OpSpec::put(&["m"], &format!("c{}", i), &format!("val{}*{}", i, 100 * i)));
    ops.push(OpSpec::put(&["m"], "shared", &format!("gen{}*{}", i, if i % 2 == 0 { 700 } else { 40 })));
    ops.push(OpSpec::put(&["m", "sub"], &format!("s{}", i), "x*1500"));
    if i >= 3 {
        ops.push(OpSpec::del(&["m"], &format!("c{}", i - 2)));
        ops.push(OpSpec::del(&["m", "sub"], &format!("s{}", i - 1)));
    }
    ops
}

/// `commits` >= 1000 stands for `commits - 1000` modifying commits followed by one write transaction
/// that changes nothing and is committed.
pub fn build_base(path: &str, pagesize: u64, commits_code: usize) -> Result<Base, String> {
    let cfg = Cfg { pagesize, num_pages: 32, ..Cfg::default() };
    // the same thread has just used another database with a much larger page size (an application
    // with two stores): nothing of that may leak into the headers written below
    {
        let side = format!("{}.side", path);
        let _ = std::fs::remove_file(&side);
        let r = real::guarded(|| -> Result<(), String> {
            let db = Cfg { pagesize: 65536, num_pages: 4, ..Cfg::default() }.open(&side).map_err(|e| format!("{:?}", e))?;
            let tx = db.tx(true).map_err(|e| format!("{:?}", e))?;
            tx.create_bucket("side").map_err(|e| format!("{:?}", e))?.put("k", "v").map_err(|e| format!("{:?}", e))?;
            tx.commit().map_err(|e| format!("{:?}", e))
        });
        let _ = std::fs::remove_file(&side);
        if !matches!(r, Ok(Ok(()))) {
            return Err(format!("side database with page size 65536 could not be used: {:?}", r));
        }
    }
    let mut r = Runner::new(path, cfg.clone())?;
    let mut states = vec![BucketM::default()];
    let noop_tail = (1000..2000).contains(&commits_code);
    // 2000 + n: n commits, both headers rewritten into the legacy (<= 0.10) format with the handle
    // closed, then one more commit by the current code (the upgrade commit)
    let legacy_upgrade = (2000..3000).contains(&commits_code);
    // 3000 + n: the last commit makes committed leaves split; 4000 + n: the last commit deletes a
    // committed bucket and allocates many pages (what the previous header points to must survive both)
    // 5000 + n: the last commit writes leaves that end exactly at the end of their page run
    // 6000 + n: after the n commits, a commit whose final sync fails (its header is in the file), a
    // writer that is abandoned, and one more commit
    // 7000 + n: after the n commits, a bucket of 400 entries is committed and deleted (a free list of
    // several pages), then two small commits
    let tail_kind = if commits_code >= 7000 { 5 } else if commits_code >= 6000 { 4 } else if commits_code >= 5000 { 3 } else if commits_code >= 4000 { 2 } else if commits_code >= 3000 { 1 } else { 0 };
    let commits = commits_code % 1000;
    for i in 1..=commits {
        let v = r.step(&Action::Tx { ops: commit_ops(i), commit: true }, &Oracles::NONE);
        if !v.is_empty() || r.poisoned {
            return Err(format!("base construction failed at commit {}: {:?}", i, v));
        }
        states.push(r.model.clone());
    }
    if legacy_upgrade {
        drop(r);
        let mut bytes = std::fs::read(path).map_err(|e| e.to_string())?;
        crate::compatx::legacy_rehead(&mut bytes, pagesize, &[0, 1]);
        {
            use std::os::unix::fs::FileExt;
            let f = std::fs::OpenOptions::new().write(true).open(path).map_err(|e| e.to_string())?;
            f.write_all_at(&bytes[..2 * pagesize as usize], 0).map_err(|e| e.to_string())?;
        }
        r = Runner::adopt(path, cfg.clone(), states.last().unwrap().clone())?;
        let v = r.step(&Action::Tx { ops: commit_ops(commits + 1), commit: true }, &Oracles::NONE);
        if !v.is_empty() || r.poisoned {
            return Err(format!("base construction failed at the upgrade commit: {:?}", v));
        }
        states.push(r.model.clone());
    }
    if tail_kind == 5 {
        let mut mk = vec![OpSpec::bucket("create", &[], "wide")];
        for i in 0..400 {
            mk.push(OpSpec::put(&["wide"], &format!("w{:04}", i), "w*300"));
        }
        for (what, ops) in [("fill", mk), ("delete", vec![OpSpec::bucket("delb", &[], "wide")]), ("small 1", commit_ops(commits + 1)), ("small 2", commit_ops(commits + 2))] {
            let v = r.step(&Action::Tx { ops, commit: true }, &Oracles::NONE);
            if !v.is_empty() || r.poisoned {
                return Err(format!("base construction failed at the {} commit of the long-free-list tail: {:?}", what, v));
            }
            states.push(r.model.clone());
        }
    } else if tail_kind == 4 {
        let v = r.step(&Action::TxFail { ops: commit_ops(commits + 1), call: 1001 }, &Oracles::NONE);
        if !v.is_empty() || r.poisoned {
            return Err(format!("base construction failed at the commit whose final sync fails: {:?}", v));
        }
        if r.model == *states.last().unwrap() {
            return Err("the commit whose final sync failed is not visible (expected: its header is in the file)".into());
        }
        states.push(r.model.clone());
        let v = r.step(&Action::Tx { ops: vec![OpSpec::put(&["m"], "abandoned", "w*300"), OpSpec::put(&["m", "sub"], "abandoned", "x*1500")], commit: false }, &Oracles::NONE);
        if !v.is_empty() || r.poisoned {
            return Err(format!("base construction failed at the abandoned writer: {:?}", v));
        }
        let v = r.step(&Action::Tx { ops: commit_ops(commits + 2), commit: true }, &Oracles::NONE);
        if !v.is_empty() || r.poisoned {
            return Err(format!("base construction failed at the commit after the abandoned writer: {:?}", v));
        }
        states.push(r.model.clone());
    } else if tail_kind > 0 {
        let ops: Vec<OpSpec> = if tail_kind == 3 {
            // page header 40 + element 32 + key 1 + value = 1024 resp. 2048
            vec![OpSpec::bucket("create", &[], "z1"), OpSpec::put(&["z1"], "o", &format!("t*{}", pagesize - 73)), OpSpec::bucket("create", &[], "z2"), OpSpec::put(&["z2"], "o", &format!("t*{}", 2 * pagesize - 73)), OpSpec::put(&["m"], "shared", "exact*40")]
        } else if tail_kind == 1 {
            (0..10).map(|i| OpSpec::put(&["m"], &format!("split{:02}", i), "w*300")).chain((0..6).map(|i| OpSpec::put(&["m", "sub"], &format!("t{}", i), "w*300"))).collect()
        } else {
            std::iter::once(OpSpec::bucket("delb", &["m"], "sub")).chain((0..12).map(|i| OpSpec::put(&["m"], &format!("fresh{:02}", i), "w*300"))).chain(std::iter::once(OpSpec::bucket("create", &["m"], "sub2"))).chain((0..4).map(|i| OpSpec::put(&["m", "sub2"], &format!("u{}", i), "x*1500"))).collect()
        };
        let v = r.step(&Action::Tx { ops, commit: true }, &Oracles::NONE);
        if !v.is_empty() || r.poisoned {
            return Err(format!("base construction failed at the tail commit: {:?}", v));
        }
        states.push(r.model.clone());
    }
    if noop_tail {
        let v = r.step(&Action::Tx { ops: vec![], commit: true }, &Oracles::NONE);
        if !v.is_empty() || r.poisoned {
            return Err(format!("base construction failed at the empty commit: {:?}", v));
        }
        states.push(r.model.clone());
    }
    drop(r);
    let image = std::fs::read(path).map_err(|e| e.to_string())?;
    let file_len = image.len() as u64;
    let hw = fileck::high_water(&image, pagesize);
    let n = states.len();
    let model_last = states[n - 1].clone();
    let model_prev = states[n.saturating_sub(2)].clone();
    Ok(Base { cfg, commits: n - 1, image: image[..hw].to_vec(), file_len, states, model_last, model_prev })
}

#[derive(Clone, Debug)]
pub enum Damage {
    /// xor the byte at `off` with `val` (1..=255 reaches every other value)
    Byte { off: usize, val: u8 },
    /// fill [from, to) with `val`
    Fill { from: usize, to: usize, val: u8 },
    /// take the 8-byte words of the record from the *other* header where the mask bit is set
    Mix { mask: u32 },
}

impl Damage {
    pub fn to_json(&self) -> Value {
        match self {
            Damage::Byte { off, val } => json!({"byte": off, "xor": val}),
            Damage::Fill { from, to, val } => json!({"fill": [from, to], "val": val}),
            Damage::Mix { mask } => json!({"mix": mask}),
        }
    }
    pub fn from_json(v: &Value) -> Damage {
        if let Some(o) = v.get("byte") {
            Damage::Byte { off: o.as_u64().unwrap() as usize, val: v["xor"].as_u64().unwrap() as u8 }
        } else if let Some(f) = v.get("fill") {
            Damage::Fill { from: f[0].as_u64().unwrap() as usize, to: f[1].as_u64().unwrap() as usize, val: v["val"].as_u64().unwrap() as u8 }
        } else {
            Damage::Mix { mask: v["mix"].as_u64().unwrap() as u32 }
        }
    }
}

pub const RECORD_WORDS: usize = 9; // 72 bytes from offset 32

/// The bounded damage classes for one header page.
pub fn damages(pagesize: usize, tier: Tier) -> Vec<Damage> {
    let mut out = vec![];
    // thorough: every other byte value at every offset of a 1 KiB page (256 for larger pages)
    let dense = if tier == Tier::Quick { 128 } else if pagesize <= 1024 { pagesize } else { 256 };
    for off in 0..pagesize {
        if off < dense {
            // all 255 other values are produced by xor with 1..=255
            for x in 1..=255u8 {
                out.push(Damage::Byte { off, val: x }); // val = xor mask here, applied below
            }
        } else {
            for bit in 0..8 {
                out.push(Damage::Byte { off, val: 1 << bit });
            }
            out.push(Damage::Byte { off, val: 0xFF }); // xor 0xFF: complement
        }
    }
    // whole page, and every aligned word range of the first 128 bytes, zeroed / 0xFF
    for val in [0u8, 0xFF] {
        out.push(Damage::Fill { from: 0, to: pagesize, val });
        for i in 0..16 {
            for j in i + 1..=16 {
                out.push(Damage::Fill { from: i * 8, to: j * 8, val });
            }
        }
        // each single byte set to 0 / 0xFF as absolute values in the dense region
        for off in 0..dense {
            out.push(Damage::Fill { from: off, to: off + 1, val });
        }
    }
    for mask in 1..(1u32 << RECORD_WORDS) {
        out.push(Damage::Mix { mask });
    }
    out
}

pub fn apply(image: &mut [u8], pagesize: usize, slot: usize, d: &Damage) -> bool {
    let base = slot * pagesize;
    let other = (1 - slot) * pagesize;
    let before = image[base..base + pagesize].to_vec();
    match d {
        Damage::Byte { off, val } => image[base + off] ^= val,
        Damage::Fill { from, to, val } => {
            for b in &mut image[base + from..base + to] {
                *b = *val;
            }
        }
        Damage::Mix { mask } => {
            for w in 0..RECORD_WORDS {
                if mask >> w & 1 == 1 {
                    let o = 32 + 8 * w;
                    let src: Vec<u8> = image[other + o..other + o + 8].to_vec();
                    image[base + o..base + o + 8].copy_from_slice(&src);
                }
            }
        }
    }
    image[base..base + pagesize] != before[..]
}

struct CaseResult {
    class: Option<(String, String)>,
    fell_back: bool,
    changed: bool,
}

fn run_case(base: &Base, path: &str, slot: usize, d: &Damage) -> CaseResult {
    let ps = base.cfg.pagesize as usize;
    let mut img = base.image.clone();
    let changed = apply(&mut img, ps, slot, d);
    let mut res = CaseResult { class: None, fell_back: false, changed };
    if !changed {
        return res;
    }
    // expectation from the independent checker
    let want_meta = match fileck::choose_meta(&img, ps as u64) {
        Ok(m) => m,
        Err(e) => {
            res.class = Some(("header_invalid_per_pinned_format".into(), format!("the undamaged header written by the library does not validate under the pinned header format (type byte + FNV-1a over all nine fields): {}", e)));
            return res;
        }
    };
    let want = match base.states.get(want_meta.tx_id as usize) {
        Some(s) => s,
        None => {
            // a mix of words produced a valid header with an unknown id: cannot happen without a checksum collision
            res.class = Some(("harness".into(), format!("expected header has unknown tx id {}", want_meta.tx_id)));
            return res;
        }
    };
    res.fell_back = (want_meta.tx_id as usize) < base.commits;
    let _ = std::fs::remove_file(path);
    {
        use std::os::unix::fs::FileExt;
        let f = std::fs::File::create(path).unwrap();
        f.write_all_at(&img, 0).unwrap();
        f.set_len(base.file_len).unwrap();
    }
    let cfg = base.cfg.clone();
    let r = guarded(|| -> Result<(BucketM, Result<(), String>, BucketM), String> {
        let db = cfg.open(path).map_err(|e| format!("open returned {:?}", e))?;
        let tx = db.tx(false).map_err(|e| format!("tx: {:?}", e))?;
        let d = real::dump_tx(&tx)?;
        drop(tx);
        let chk = db.check().map_err(|e| format!("{:?}", e));
        // the database must keep accepting transactions
        let tx = db.tx(true).map_err(|e| format!("tx(true): {:?}", e))?;
        let b = tx.get_or_create_bucket("after").map_err(|e| format!("{:?}", e))?;
        b.put("k", "v").map_err(|e| format!("{:?}", e))?;
        drop(b);
        tx.commit().map_err(|e| format!("commit after open: {:?}", e))?;
        let tx = db.tx(false).map_err(|e| format!("tx: {:?}", e))?;
        let d2 = real::dump_tx(&tx)?;
        Ok((d, chk, d2))
    });
    match r {
        Ok(Ok((got, chk, after))) => {
            if !got.same_contents(&base.model_last) && !got.same_contents(&base.model_prev) {
                let shown = base.states.iter().position(|s| s.same_contents(&got));
                res.class = Some(("lost_commit".into(), format!("with one header damaged the database shows {} - neither the state after the last successful commit() nor the one before it", shown.map(|t| format!("the state after commit {}", t)).unwrap_or_else(|| "no committed state".into()))));
            } else if let Some(diff) = got.diff(want) {
                // which state did it show instead?
                let shown = base.states.iter().position(|s| s.same_contents(&got));
                res.class = Some(("wrong_state".into(), format!("expected the state of tx {} but the open database shows {} (left = observed): {}", want_meta.tx_id, shown.map(|t| format!("the state of tx {}", t)).unwrap_or_else(|| "no committed state".into()), diff)));
            } else if let Err(e) = chk {
                res.class = Some(("dbcheck".into(), format!("contents are right but DB::check() says {}", e)));
            } else {
                let mut want_after = want.clone();
                let mut nb = BucketM::default();
                nb.next_int = 1;
                nb.items.insert(b"k".to_vec(), crate::refmodel::Item::Kv(b"v".to_vec()));
                want_after.items.insert(b"after".to_vec(), crate::refmodel::Item::Bucket(nb));
                if let Some(diff) = after.diff(&want_after) {
                    res.class = Some(("followup_commit".into(), format!("a commit after opening the damaged file does not read back: {}", diff)));
                } else {
                    // structure of the file after the follow-up commit
                    let bytes = crate::runner::read_db_file(path, ps as u64);
                    match fileck::check(&bytes, ps as u64) {
                        Ok(rep) if !rep.ok() => res.class = Some(("fileck".into(), format!("after a follow-up commit: {}", rep.errors[0]))),
                        Ok(rep) if rep.tx_id >= 1 && rep.other_tx_id != Some(rep.tx_id - 1) => {
                            res.class = Some(("header_slots".into(), format!("after the follow-up commit (transaction {}) the other header slot holds {} instead of the valid header it fell back on (transaction {}): one more damaged header and nothing is left", rep.tx_id, rep.other_tx_id.map(|t| format!("transaction {}", t)).unwrap_or_else(|| "no valid header".into()), rep.tx_id - 1)))
                        }
                        Err(e) => res.class = Some(("fileck".into(), e)),
                        _ => {}
                    }
                }
            }
        }
        Ok(Err(e)) => res.class = Some((if e.starts_with("open returned") { "open_error".into() } else { "read_error".into() }, e)),
        Err(p) => res.class = Some((crate::runner::panic_class("open_panic", &p), p)),
    }
    res
}

pub fn worker(idx: usize) {
    real::install_quiet_panic_hook();
    let scratch = report::scratch_dir();
    iosim::set_track_prefix(&scratch);
    let dir = format!("{}/m{}", scratch, idx);
    std::fs::create_dir_all(&dir).ok();
    let path = format!("{}/metax.db", dir);
    let mut bases: std::collections::HashMap<(u64, usize), Base> = std::collections::HashMap::new();
    let mut dmg: Option<(String, Vec<Damage>)> = None;
    crate::pool::serve(|init, job, emit| {
        let iv: Value = serde_json::from_str(init).unwrap();
        let tier = if iv["tier"].as_str() == Some("thorough") { Tier::Thorough } else { Tier::Quick };
        let j: Value = serde_json::from_str(job).unwrap();
        let ps = j["ps"].as_u64().unwrap();
        let commits = j["commits"].as_u64().unwrap() as usize;
        let slot = j["slot"].as_u64().unwrap() as usize;
        let lo = j["lo"].as_u64().unwrap() as usize;
        let hi = j["hi"].as_u64().unwrap() as usize;
        let key = format!("{}-{}", ps, tier.name());
        if dmg.as_ref().map(|d| d.0 != key).unwrap_or(true) {
            dmg = Some((key, damages(ps as usize, tier)));
        }
        if !bases.contains_key(&(ps, commits)) {
            match build_base(&path, ps, commits) {
                Ok(b) => {
                    bases.insert((ps, commits), b);
                }
                Err(e) => return json!({"err": e}).to_string(),
            }
        }
        let base = &bases[&(ps, commits)];
        let ds = &dmg.as_ref().unwrap().1;
        let mut viols = vec![];
        let mut n = 0u64;
        let mut fell = 0u64;
        let mut unchanged = 0u64;
        for k in lo..hi.min(ds.len()) {
            emit(&k.to_string());
            let r = run_case(base, &path, slot, &ds[k]);
            if !r.changed {
                unchanged += 1;
                continue;
            }
            n += 1;
            if r.fell_back {
                fell += 1;
            }
            if let Some((c, d)) = r.class {
                viols.push(json!([k, c, d]));
            }
        }
        json!({"n": n, "fallback_expected": fell, "unchanged": unchanged, "v": viols}).to_string()
    });
}

pub fn run(check: &mut Check) {
    let tier = check.tier;
    let scratch = report::scratch_dir();
    std::env::set_var("VCHECK_ENTROPY_SEED", check.seed.max(1).to_string());
    let init = json!({"tier": tier.name()}).to_string();
    let mut pool = Pool::new("metax", &init, report::ncpu(), &scratch);
    // 1032 / 5000: page sizes that are not multiples of the 512-byte sector (reduced set of bases)
    let sizes: Vec<u64> = if tier == Tier::Quick { vec![1024, 1032] } else { vec![1024, 4096, 1032, 5000] };
    let ncommits = if tier == Tier::Quick { 3 } else { 6 };
    let mut jobs = vec![];
    let mut meta = vec![];
    for &ps in &sizes {
        let nd = damages(ps as usize, tier).len();
        let mut codes: Vec<usize> = (0..=ncommits).collect();
        // the same with a final write transaction that changes nothing
        codes.push(1002);
        // legacy-format files with an even / odd number of commits, upgraded by one commit
        codes.push(2002);
        codes.push(2003);
        // the last commit splits committed leaves / deletes a committed bucket and allocates
        codes.push(3003);
        codes.push(4003);
        codes.push(4002);
        codes.push(5003);
        codes.push(5002);
        codes.push(6002);
        codes.push(6003);
        codes.push(7002);
        if tier == Tier::Thorough {
            codes.push(1005);
            codes.push(2004);
            codes.push(2005);
        }
        if ps % 512 != 0 {
            codes = vec![2, 3, 3003, 4003, 5002, 5003, 5004];
        }
        for commits in codes {
            for slot in 0..2 {
                let mut lo = 0;
                while lo < nd {
                    let hi = (lo + 2048).min(nd);
                    jobs.push(json!({"ps": ps, "commits": commits, "slot": slot, "lo": lo, "hi": hi}).to_string());
                    meta.push((ps, commits, slot, lo));
                    lo = hi;
                }
            }
        }
    }
    let mut total = 0u64;
    let mut fell = 0u64;
    let mut unchanged = 0u64;
    let mut found: Vec<(u64, usize, usize, usize, String, String)> = vec![];
    let mut errs = vec![];
    pool.run(jobs, |ji, o| {
        let (ps, commits, slot, lo) = meta[ji];
        match o {
            Outcome::Done(r) => {
                let v: Value = serde_json::from_str(&r).unwrap_or(Value::Null);
                if let Some(e) = v["err"].as_str() {
                    errs.push(e.to_string());
                    return;
                }
                total += v["n"].as_u64().unwrap_or(0);
                fell += v["fallback_expected"].as_u64().unwrap_or(0);
                unchanged += v["unchanged"].as_u64().unwrap_or(0);
                for x in v["v"].as_array().cloned().unwrap_or_default() {
                    found.push((ps, commits, slot, x[0].as_u64().unwrap() as usize, x[1].as_str().unwrap().to_string(), x[2].as_str().unwrap().to_string()));
                }
            }
            Outcome::Crashed { last_marker, status, stderr_tail } => {
                let k = last_marker.and_then(|m| m.parse::<usize>().ok()).unwrap_or(lo);
                found.push((ps, commits, slot, k, "process_death".into(), format!("probe process died ({}) opening the damaged file; stderr: {}", status, stderr_tail)));
            }
            Outcome::Timeout { last_marker } => {
                let k = last_marker.and_then(|m| m.parse::<usize>().ok()).unwrap_or(lo);
                found.push((ps, commits, slot, k, "hang".into(), "probe process hung opening the damaged file".into()));
            }
        }
    });
    for e in errs {
        check.machinery_error(e);
    }
    found.sort();
    let mut dcache: std::collections::HashMap<u64, Vec<Damage>> = std::collections::HashMap::new();
    for (ps, commits, slot, k, class, detail) in found {
        let ds = dcache.entry(ps).or_insert_with(|| damages(ps as usize, tier));
        let d = ds[k].clone();
        // fingerprint detail: which region was hit
        let region = match &d {
            Damage::Byte { off, .. } => region_name(*off),
            Damage::Fill { from, to, .. } => format!("fill[{},{})", from, to),
            Damage::Mix { .. } => "mix".to_string(),
        };
        check.violation(&class, &format!("[pagesize {} commits {} header slot {} damage {} region {}] {}", ps, commits, slot, d.to_json(), region, detail), || json!({"engine": "metax", "pagesize": ps, "commits": commits, "slot": slot, "damage": d.to_json()}));
    }
    check.sample(json!({"base": "3 commits (nested bucket, overflow values, alternating sizes), closed", "damage": {"byte": 56, "xor": 1}, "meaning": "xor byte 56 of header page (root_page field) with 0x01"}));
    check.sample(json!({"damage": {"mix": 5}, "meaning": "words 0 and 2 of the record taken from the other header"}));
    check.cov("evaluations", json!(total));
    check.cov("distinct_nontrivial", json!(fell));
    check.cov("rule", json!("one evaluation = one damaged image (base x header slot x damage pattern) opened with the real library, fully dumped, checked, committed to once more and re-checked; all patterns of the bounded classes are enumerated (every offset x every/selected byte values, fills of every aligned word range, whole page, all 2^9-1 word mixes with the other header); non-trivial = the independent checker says the damaged header is no longer valid so a fallback to the other header is required"));
    check.cov("patterns_without_effect_skipped", json!(unchanged));
    check.cov("page_sizes", json!(sizes));
    check.cov("commit_counts", json!((0..=ncommits).collect::<Vec<_>>()));
    check.cov("exhaustive", json!(true));
    check.cov("worker_restarts", json!(pool.restarts));
}

pub fn region_name(off: usize) -> String {
    match off {
        0..=7 => "page-id".into(),
        8 => "page-type".into(),
        9..=15 => "pad".into(),
        16..=31 => "count/overflow".into(),
        32..=43 => "record:meta_page/magic/version".into(),
        44..=47 => "record-padding".into(),
        48..=95 => "record:fields".into(),
        96..=103 => "record:hash".into(),
        _ => "tail".into(),
    }
}

pub fn replay(v: &Value) -> i32 {
    real::install_quiet_panic_hook();
    let scratch = report::scratch_dir();
    iosim::set_track_prefix(&scratch);
    let path = format!("{}/replay.db", scratch);
    let ps = v["pagesize"].as_u64().unwrap_or(1024);
    let commits = v["commits"].as_u64().unwrap_or(3) as usize;
    let slot = v["slot"].as_u64().unwrap_or(0) as usize;
    let d = Damage::from_json(&v["damage"]);
    let code = match build_base(&path, ps, commits) {
        Ok(base) => {
            let r = run_case(&base, &path, slot, &d);
            match r.class {
                Some((c, d)) => {
                    println!("   !! {}: {}", c, d);
                    1
                }
                None => {
                    println!("no violation (fallback expected: {})", r.fell_back);
                    0
                }
            }
        }
        Err(e) => {
            println!("base construction failed: {}", e);
            2
        }
    };
    report::cleanup_scratch(&scratch);
    code
}
