//! C03 scenarios (readers frozen) — filled in below.
use crate::report::Tier;
use crate::seqx::Scenario;
pub fn scenarios(_tier: Tier) -> Vec<Scenario> { vec![] }
