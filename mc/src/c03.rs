//! C03 scenarios: single-threaded interleavings of opening / closing up to k simultaneous readers
//! with committing and rolling-back writers over a page-reusing workload; every open reader is
//! re-dumped in full after every action and must still show the state it was opened on.

use crate::drivers::KV_KEYS;
use crate::refmodel::OpSpec;
use crate::report::Tier;
use crate::runner::{Action, Cfg, Oracles};
use crate::seqx::Scenario;

fn menu() -> Vec<Vec<OpSpec>> {
    vec![
        vec![OpSpec::put(&["b"], "k0", "v*8")],
        vec![OpSpec::del(&["b"], "k1"), OpSpec::put(&["b"], "k1", "y*310")],
        vec![OpSpec::bucket("delb", &[], "c"), OpSpec::bucket("create", &[], "c"), OpSpec::put(&["c"], "x", "w*300")],
        vec![OpSpec::put(&["b"], "k2", "x*1500")],
        vec![OpSpec::put(&["b"], "k0", "w*300"), OpSpec::put(&["b"], "k2", "w*300")],
        vec![OpSpec::del(&["b"], "k3"), OpSpec::del(&["b"], "k4"), OpSpec::del(&["b"], "k5"), OpSpec::put(&["b"], "k4", "w*300")],
    ]
}

fn setup() -> Vec<Action> {
    let mut ops = vec![OpSpec::bucket("create", &[], "b"), OpSpec::bucket("create", &[], "c")];
    for k in KV_KEYS {
        ops.push(OpSpec::put(&["b"], k, "w*300"));
    }
    for i in 0..3 {
        ops.push(OpSpec::put(&["c"], &format!("c{}", i), "w*300"));
    }
    vec![Action::Tx { ops, commit: true }, Action::Tx { ops: vec![OpSpec::put(&["c"], "c0", "v*8")], commit: true }, Action::Reopen]
}

pub fn scenarios(tier: Tier) -> Vec<Scenario> {
    let q = tier == Tier::Quick;
    let m = menu();
    let mut out = vec![];
    for (name, k, nmenu, depth) in if q { vec![("k2-menu4", 2usize, 4usize, 7usize), ("k3-menu3", 3, 3, 8), ("k4-menu2", 4, 2, 9), ("inside-k2-menu3", 2, 3, 6)] } else { vec![("k2-menu6", 2, 6, 10), ("k3-menu4", 3, 4, 11), ("k3-menu6", 3, 6, 9), ("k4-menu3", 4, 3, 9), ("inside-k2-menu6", 2, 6, 7), ("inside-k3-menu3", 3, 3, 8)] } {
        let mut alpha: Vec<Action> = vec![Action::OpenReader];
        for i in 0..k {
            alpha.push(Action::CloseReader(i));
        }
        for b in m.iter().take(nmenu) {
            alpha.push(Action::Tx { ops: b.clone(), commit: true });
        }
        // rolled-back writers (the two largest bodies)
        alpha.push(Action::Tx { ops: m[2].clone(), commit: false });
        alpha.push(Action::Tx { ops: m[3].clone(), commit: false });
        if name.starts_with("inside") || name.starts_with("k2") {
            // commit() called on a read-only transaction (it must fail and leave the other readers alone)
            alpha.push(Action::RoCommit);
        }
        if name.starts_with("inside") {
            // a reader that begins while a write transaction is open (before its commit / its rollback)
            for b in m.iter().take(nmenu) {
                alpha.push(Action::TxReaderInside { ops: b.clone(), commit: true });
            }
            alpha.push(Action::TxReaderInside { ops: m[2].clone(), commit: false });
        }
        // a writer whose final sync fails (commit returns an error, the new state may be visible)
        alpha.push(Action::TxFail { ops: m[1].clone(), call: 1001 });
        let or = Oracles { readers_frozen: true, dump_after: true, ..Oracles::NONE };
        // pre-sized file: growth while the same thread holds a reader self-deadlocks by design
        let cfg = Cfg { num_pages: 2000, ..Cfg::default() };
        let mut sc = Scenario::new(&format!("readers-{}", name), cfg, setup(), Box::new(alpha), depth, or);
        sc.poison_unmap = true;
        sc.max_readers = k;
        out.push(sc);
    }
    // writers whose header write fails (commit reports the error, nothing of it is visible): the
    // pages such a transaction would have freed belong to the committed state and to the readers
    {
        let mut alpha: Vec<Action> = vec![Action::OpenReader, Action::CloseReader(0), Action::CloseReader(1)];
        for b in m.iter().take(3) {
            alpha.push(Action::Tx { ops: b.clone(), commit: true });
        }
        for b in [&m[1], &m[2], &m[3]] {
            alpha.push(Action::TxFail { ops: b.clone(), call: 4000 });
        }
        let or = Oracles { readers_frozen: true, dump_after: true, ..Oracles::NONE };
        let mut sc = Scenario::new("readers-failed-header-write-k2", Cfg { num_pages: 2000, ..Cfg::default() }, setup(), Box::new(alpha), if q { 5 } else { 7 }, or);
        sc.poison_unmap = true;
        sc.max_readers = 2;
        out.push(sc);
    }
    // values that make a leaf end exactly at the end of its page run (page header 40 + element 32 + key 1
    // + 1975 = 2048): a write that spills a single byte further lands in the page behind it
    {
        let mut su = setup();
        su.insert(2, Action::Tx { ops: vec![OpSpec::bucket("create", &[], "z"), OpSpec::put(&["z"], "o", "t*1975"), OpSpec::put(&["b"], "k9", "t*883")], commit: true });
        let mut alpha: Vec<Action> = vec![Action::OpenReader, Action::CloseReader(0), Action::CloseReader(1)];
        for ops in [vec![OpSpec::put(&["z"], "o", "u*1975")], vec![OpSpec::put(&["z"], "o", "t*1974")], vec![OpSpec::put(&["z"], "p", "t*1975")], m[0].clone(), m[1].clone()] {
            alpha.push(Action::Tx { ops, commit: true });
        }
        let or = Oracles { readers_frozen: true, dump_after: true, ..Oracles::NONE };
        let mut sc = Scenario::new("readers-exact-size-values-k2", Cfg { num_pages: 2000, ..Cfg::default() }, su, Box::new(alpha), if q { 6 } else { 8 }, or);
        sc.poison_unmap = true;
        sc.max_readers = 2;
        out.push(sc);
    }
    // the two small scenarios first: the quick tier's wall budget, when it is hit on a busy machine,
    // then cuts the deepest level of the large ones instead of skipping these
    out.rotate_right(2);
    // (and the readers-inside scenario before the three large ones)
    if let Some(pos) = out.iter().position(|s| s.name.contains("readers-inside")) {
        let sc = out.remove(pos);
        out.insert(2, sc);
    }
    out
}

/// Long staged histories (thresholds between 8 and 70 generations of pending pages): reader 1 is
/// opened first, reader 2 `gap` commits later; reader 1 is closed after `hold` commits, reader 2 stays
/// for `after` more; every open reader is re-dumped after every action.
pub fn long_histories(tier: Tier) -> Vec<(String, Cfg, Vec<Action>)> {
    let m = menu();
    let mut out = vec![];
    let holds: Vec<usize> = if tier == Tier::Quick { vec![8, 31, 33, 40, 66] } else { vec![8, 15, 16, 17, 31, 32, 33, 34, 40, 63, 64, 65, 66, 70, 130, 260] };
    for &hold in &holds {
        for gap in [2usize, 3] {
            let mut acts = setup();
            acts.push(Action::OpenReader);
            for i in 0..hold {
                if i == gap {
                    acts.push(Action::OpenReader);
                }
                acts.push(Action::Tx { ops: m[i % 4].clone(), commit: true });
                if i % 7 == 6 {
                    acts.push(Action::Tx { ops: m[2].clone(), commit: false });
                }
            }
            acts.push(Action::CloseReader(0));
            for i in 0..6 {
                acts.push(Action::Tx { ops: m[(i + 1) % 4].clone(), commit: true });
            }
            acts.push(Action::CloseReader(0));
            acts.push(Action::Tx { ops: m[0].clone(), commit: true });
            out.push((format!("two-readers-gap{}-hold{}", gap, hold), Cfg { num_pages: 8000, ..Cfg::default() }, acts));
        }
    }
    out
}
