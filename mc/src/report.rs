//! Verdicts, replay files, known findings and evidence files.

use std::collections::BTreeMap;
use std::time::Instant;

use serde_json::{json, Map, Value};

/// Root of the verification tree: `<root>/mc/target/debug/vcheck` is this executable.
pub fn verif_root() -> String {
    if let Ok(r) = std::env::var("VERIF_ROOT") {
        return r;
    }
    std::env::current_exe()
        .ok()
        .and_then(|p| p.ancestors().nth(4).map(|a| a.to_string_lossy().to_string()))
        .filter(|r| std::path::Path::new(&format!("{}/properties.jsonl", r)).exists())
        .unwrap_or_else(|| "/verif".to_string())
}

#[derive(Clone, Copy, PartialEq, Eq, Debug)]
pub enum Tier {
    Quick,
    Thorough,
}

impl Tier {
    pub fn name(self) -> &'static str {
        match self {
            Tier::Quick => "quick",
            Tier::Thorough => "thorough",
        }
    }
}

#[derive(Clone, Debug)]
struct Finding {
    id: String,
    property: String,
    class: Option<String>,
    class_prefix: Option<String>,
    detail_contains: Vec<String>,
    what: String,
}

fn load_findings(property: &str) -> Vec<Finding> {
    let path = format!("{}/known_findings.json", verif_root());
    let v: Value = match std::fs::read_to_string(&path).ok().and_then(|s| serde_json::from_str(&s).ok()) {
        Some(v) => v,
        None => return vec![],
    };
    let mut out = vec![];
    for f in v["findings"].as_array().cloned().unwrap_or_default() {
        if f["property"].as_str() != Some(property) {
            continue;
        }
        out.push(Finding {
            id: f["id"].as_str().unwrap_or("?").to_string(),
            property: property.to_string(),
            class: f["class"].as_str().map(|s| s.to_string()),
            class_prefix: f["class_prefix"].as_str().map(|s| s.to_string()),
            detail_contains: f["detail_contains"].as_array().map(|a| a.iter().filter_map(|x| x.as_str().map(|s| s.to_string())).collect()).unwrap_or_default(),
            what: f["what"].as_str().unwrap_or("").to_string(),
        });
    }
    out
}

pub struct Check {
    pub id: String,
    pub tier: Tier,
    pub seed: u64,
    pub level: &'static str,
    start: Instant,
    findings: Vec<Finding>,
    /// class -> (count, first replay path)
    pub unlisted: BTreeMap<String, (u64, String)>,
    pub known_hits: BTreeMap<String, u64>,
    pub coverage: Map<String, Value>,
    /// prepended to every coverage key set from now on (a second engine run inside the same check)
    pub cov_prefix: String,
    pub assumptions: Vec<String>,
    pub samples: Vec<Value>,
    pub machinery_errors: Vec<String>,
    replay_seq: u32,
}

impl Check {
    pub fn new(id: &str, tier: Tier, level: &'static str) -> Check {
        let seed = std::env::var("VERIF_SEED").ok().and_then(|s| s.parse().ok()).unwrap_or(1);
        std::fs::create_dir_all(format!("{}/evidence", verif_root())).ok();
        std::fs::create_dir_all(format!("{}/replays", verif_root())).ok();
        // stale replays of this property from earlier runs
        if let Ok(rd) = std::fs::read_dir(format!("{}/replays", verif_root())) {
            for e in rd.flatten() {
                let n = e.file_name().to_string_lossy().to_string();
                if n.starts_with(&format!("{}-", id)) {
                    let _ = std::fs::remove_file(e.path());
                }
            }
        }
        Check {
            id: id.to_string(),
            tier,
            seed,
            level,
            start: Instant::now(),
            findings: load_findings(id),
            unlisted: BTreeMap::new(),
            known_hits: BTreeMap::new(),
            coverage: Map::new(),
            cov_prefix: String::new(),
            assumptions: vec![],
            samples: vec![],
            machinery_errors: vec![],
            replay_seq: 0,
        }
    }

    pub fn elapsed(&self) -> f64 {
        self.start.elapsed().as_secs_f64()
    }

    fn matches(&self, class: &str, detail: &str) -> Option<&Finding> {
        self.findings.iter().find(|f| {
            f.property == self.id
                && f.class.as_ref().map(|c| c == class).unwrap_or(true)
                && f.class_prefix.as_ref().map(|c| class.starts_with(c.as_str())).unwrap_or(true)
                && (f.class.is_some() || f.class_prefix.is_some())
                && f.detail_contains.iter().all(|d| detail.contains(d.as_str()))
        })
    }

    /// Records one violating case.  `replay` must be enough to reproduce it with `vcheck replay`.
    pub fn violation(&mut self, class: &str, detail: &str, replay: impl FnOnce() -> Value) {
        if let Some(f) = self.matches(class, detail) {
            let id = f.id.clone();
            let what = f.what.clone();
            let n = self.known_hits.entry(id.clone()).or_insert(0);
            if *n == 0 {
                println!("KNOWN-FINDING: property={} {}: {}", self.id, id, what);
            }
            *n += 1;
            return;
        }
        let first = !self.unlisted.contains_key(class);
        if first {
            self.replay_seq += 1;
            let path = format!("{}/replays/{}-{}.json", verif_root(), self.id, self.replay_seq);
            let mut r = replay();
            if let Some(o) = r.as_object_mut() {
                o.insert("property".into(), json!(self.id));
                o.insert("class".into(), json!(class));
                o.insert("detail".into(), json!(detail));
            }
            let _ = std::fs::write(&path, serde_json::to_string_pretty(&r).unwrap());
            println!("VIOLATION property={} replay={}", self.id, path);
            println!("  class:  {}", class);
            println!("  detail: {}", detail);
            self.unlisted.insert(class.to_string(), (1, path));
        } else {
            self.unlisted.get_mut(class).unwrap().0 += 1;
        }
    }

    pub fn machinery_error(&mut self, msg: impl Into<String>) {
        let m = msg.into();
        eprintln!("MACHINERY-ERROR: {}", m);
        self.machinery_errors.push(m);
    }

    pub fn sample(&mut self, v: Value) {
        if self.samples.len() < 8 {
            self.samples.push(v);
        }
    }

    pub fn cov(&mut self, key: &str, v: Value) {
        self.coverage.insert(format!("{}{}", self.cov_prefix, key), v);
    }

    pub fn cov_add(&mut self, key: &str, n: u64) {
        let cur = self.coverage.get(key).and_then(|v| v.as_u64()).unwrap_or(0);
        self.coverage.insert(key.to_string(), json!(cur + n));
    }

    /// Writes the evidence file and returns the process exit code.
    pub fn finish(mut self) -> i32 {
        let wall = self.elapsed();
        let nviol: u64 = self.unlisted.values().map(|v| v.0).sum();
        if !self.coverage.contains_key("samples") {
            let s = if self.samples.is_empty() { vec![json!("(no sample recorded)")] } else { self.samples.clone() };
            self.coverage.insert("samples".into(), json!(s));
        }
        self.coverage.insert(
            "known_findings_hit".into(),
            json!(self.known_hits.iter().map(|(k, v)| json!({"id": k, "cases": v})).collect::<Vec<_>>()),
        );
        self.coverage.insert(
            "violation_classes".into(),
            json!(self.unlisted.iter().map(|(k, v)| json!({"class": k, "cases": v.0, "replay": v.1})).collect::<Vec<_>>()),
        );
        if !self.machinery_errors.is_empty() {
            self.coverage.insert("machinery_errors".into(), json!(self.machinery_errors));
        }
        let ev = json!({
            "property_id": self.id,
            "tier": self.tier.name(),
            "seed": self.seed,
            "level": self.level,
            "coverage": Value::Object(self.coverage.clone()),
            "assumptions": self.assumptions,
            "wall_s": (wall * 100.0).round() / 100.0,
            "violations": nviol,
        });
        let path = format!("{}/evidence/{}.json", verif_root(), self.id);
        if let Err(e) = std::fs::write(&path, serde_json::to_string_pretty(&ev).unwrap()) {
            eprintln!("MACHINERY-ERROR: cannot write {}: {}", path, e);
            return 2;
        }
        println!(
            "{} {}: {} unlisted violation case(s) in {} class(es), {} known finding(s) hit, {:.1}s, evidence {}",
            self.id,
            self.tier.name(),
            nviol,
            self.unlisted.len(),
            self.known_hits.len(),
            wall,
            path
        );
        // violations (each with its replay file) are the verdict even if parts of the run could not
        // be carried out on the broken tree; machinery errors alone mean the check itself is broken
        if nviol > 0 {
            1
        } else if !self.machinery_errors.is_empty() {
            2
        } else {
            0
        }
    }
}

pub fn scratch_dir() -> String {
    if let Ok(s) = std::env::var("VCHECK_SCRATCH") {
        return s;
    }
    let d = format!("/dev/shm/vcheck.{}", std::process::id());
    std::fs::create_dir_all(&d).expect("scratch dir");
    d
}

pub fn cleanup_scratch(d: &str) {
    if d.starts_with("/dev/shm/vcheck.") {
        let _ = std::fs::remove_dir_all(d);
    }
}

pub fn ncpu() -> usize {
    std::env::var("VCHECK_WORKERS").ok().and_then(|s| s.parse().ok()).unwrap_or_else(|| std::thread::available_parallelism().map(|n| n.get()).unwrap_or(4).min(16))
}
