//! Driving the real library: executing model ops, dumping a transaction through the whole read
//! API into the model's value type, and the "full read API" probe used by C07 / C08.

use std::ops::Bound;
use std::panic::{catch_unwind, AssertUnwindSafe};

use jammdb::{Bucket, Data, Error, Tx};

use crate::refmodel::{show, BucketM, Bytes, ErrKind, Item, Op, Ret};

pub const SCAN_CAP: usize = 200_000;

pub fn err_kind(e: &Error) -> ErrKind {
    match e {
        Error::BucketExists => ErrKind::BucketExists,
        Error::BucketMissing => ErrKind::BucketMissing,
        Error::KeyValueMissing => ErrKind::KeyValueMissing,
        Error::IncompatibleValue => ErrKind::IncompatibleValue,
        Error::ReadOnlyTx => ErrKind::ReadOnlyTx,
        _ => ErrKind::Other,
    }
}

pub fn panic_msg(p: Box<dyn std::any::Any + Send>) -> String {
    if let Some(s) = p.downcast_ref::<&str>() {
        s.to_string()
    } else if let Some(s) = p.downcast_ref::<String>() {
        s.clone()
    } else {
        "<non-string panic>".to_string()
    }
}

thread_local! {
    pub static LAST_PANIC_LOC: std::cell::RefCell<String> = const { std::cell::RefCell::new(String::new()) };
}

/// Installs a quiet panic hook that records the location of the last panic per thread.
pub fn install_quiet_panic_hook() {
    std::panic::set_hook(Box::new(|info| {
        let loc = info
            .location()
            .map(|l| format!("{}:{}", l.file(), l.line()))
            .unwrap_or_default();
        if std::env::var("VCHECK_BT").is_ok() {
            eprintln!("panic: {}\n{}", info, std::backtrace::Backtrace::force_capture());
        }
        let _ = LAST_PANIC_LOC.try_with(|c| *c.borrow_mut() = loc);
    }));
}

pub fn last_panic_loc() -> String {
    LAST_PANIC_LOC.with(|c| c.borrow().clone())
}

/// Runs `f`, turning a panic into `Err(message @ location)`.
pub fn guarded<R>(f: impl FnOnce() -> R) -> Result<R, String> {
    match catch_unwind(AssertUnwindSafe(f)) {
        Ok(r) => Ok(r),
        Err(p) => {
            let m = panic_msg(p);
            Err(format!("{} @ {}", m, last_panic_loc()))
        }
    }
}

/// Bucket at `path` below the transaction root (None = the root itself).
fn resolve<'b, 'tx>(tx: &'b Tx<'tx>, path: &[&'tx [u8]]) -> Result<Option<Bucket<'b, 'tx>>, Error> {
    let mut cur: Option<Bucket<'b, 'tx>> = None;
    for name in path {
        let next = match &cur {
            None => tx.get_bucket(*name)?,
            Some(b) => b.get_bucket(*name)?,
        };
        cur = Some(next);
    }
    Ok(cur)
}

/// A put executed while a cursor of the same bucket, obtained before the put through another handle
/// and already positioned, is kept and iterated to the end afterwards.  What such a cursor shows of
/// the new key is not specified; what it must show is every entry the put did not touch that lies
/// after the entry it returned last, in ascending order.  `before` = keys of the bucket before the
/// put; `variant` chooses the position (0: after the first entry, 1: on the predecessor of the key).
/// Returns the put's result and a description of what went wrong, if anything.
pub fn put_with_kept_cursor<'tx>(tx: &Tx<'tx>, op: &'tx Op, before: &[Bytes], variant: usize) -> Option<(Ret, Option<String>)> {
    let (path, key, val) = match op {
        Op::Put { path, key, val } => (path, key, val),
        _ => return None,
    };
    if before.is_empty() {
        return None;
    }
    let r = catch_unwind(AssertUnwindSafe(|| -> Option<(Ret, Option<String>)> {
        let p: Vec<&'tx [u8]> = path.iter().map(|p| p.as_slice()).collect();
        let holder = resolve(tx, &p).ok()??;
        let writer = resolve(tx, &p).ok()??;
        let mut c = holder.cursor();
        let pred = before.iter().filter(|k| *k < key).next_back();
        let first = match (variant % 2, pred) {
            (1, Some(pk)) => {
                c.seek(pk.as_slice());
                c.next()
            }
            _ => c.next(),
        };
        let last_returned: Bytes = match first {
            Some(d) => data_to_pair(&d).0,
            None => return Some((Ret::Panic("kept cursor: a bucket with entries yields nothing".into()), None)),
        };
        let ret = match writer.put(key.as_slice(), val.as_slice()) {
            Ok(prev) => Ret::Prev(prev.map(|kv| (kv.key().to_vec(), kv.value().to_vec()))),
            Err(e) => Ret::Err(err_kind(&e)),
        };
        let mut rest: Vec<Bytes> = vec![];
        while let Some(d) = c.next() {
            rest.push(data_to_pair(&d).0);
            if rest.len() > SCAN_CAP {
                break;
            }
        }
        // untouched entries after the position must be a subsequence of what followed
        let want: Vec<&Bytes> = before.iter().filter(|k| **k > last_returned && *k != key).collect();
        let mut it = rest.iter();
        let mut missing: Option<&Bytes> = None;
        for w in &want {
            if !it.any(|g| g == *w) {
                missing = Some(w);
                break;
            }
        }
        let note = missing.map(|m| format!("a cursor positioned on {} before put({}) and iterated afterwards yields {} and never reaches the untouched entry {}", show(&last_returned), show(key), rest.iter().map(|x| show(x)).collect::<Vec<_>>().join(" "), show(m)));
        Some((ret, note))
    }));
    match r {
        Ok(x) => x,
        Err(p) => Some((Ret::Panic(format!("{} @ {}", panic_msg(p), last_panic_loc())), None)),
    }
}

/// Executes `op` while iterators of the bucket it addresses have been created but not yet started
/// (a cursor, a full range, the pair and the bucket listings); started after the operation they must
/// show the bucket as it is now (`after`: the model's bucket at `op.path()` after the operation).
pub fn exec_op_with_unstarted_iters<'tx>(tx: &Tx<'tx>, op: &'tx Op, owned: bool, after: Option<&BucketM>) -> (Ret, Option<String>) {
    if op.path().is_empty() || after.is_none() {
        return (exec_op(tx, op, owned), None);
    }
    let after = after.unwrap();
    let r = catch_unwind(AssertUnwindSafe(|| -> (Ret, Option<String>) {
        let p: Vec<&'tx [u8]> = op.path().iter().map(|p| p.as_slice()).collect();
        let holder = match resolve(tx, &p) {
            Ok(Some(h)) => h,
            _ => return (exec_op(tx, op, owned), None),
        };
        let cur = holder.cursor();
        let rng = holder.range::<std::ops::RangeFull>(..);
        let pairs = holder.kv_pairs();
        let subs = holder.buckets();
        let ret = exec_op(tx, op, owned);
        if matches!(ret, Ret::Panic(_)) {
            return (ret, None);
        }
        let all: Vec<Bytes> = after.items.keys().cloned().collect();
        let kvs: Vec<Bytes> = after.items.iter().filter(|(_, it)| matches!(it, Item::Kv(_))).map(|(k, _)| k.clone()).collect();
        let bks: Vec<Bytes> = after.items.iter().filter(|(_, it)| matches!(it, Item::Bucket(_))).map(|(k, _)| k.clone()).collect();
        let got_cur: Vec<Bytes> = cur.take(SCAN_CAP).map(|d| data_to_pair(&d).0).collect();
        let got_rng: Vec<Bytes> = rng.take(SCAN_CAP).map(|d| data_to_pair(&d).0).collect();
        let got_pairs: Vec<Bytes> = pairs.take(SCAN_CAP).map(|kv| kv.key().to_vec()).collect();
        let got_subs: Vec<Bytes> = subs.take(SCAN_CAP).map(|(n, _)| n.name().to_vec()).collect();
        let brief = |v: &Vec<Bytes>| v.iter().take(12).map(|x| show(x)).collect::<Vec<_>>().join(" ");
        let mut note = None;
        for (what, got, want) in [("cursor()", &got_cur, &all), ("range(..)", &got_rng, &all), ("kv_pairs()", &got_pairs, &kvs), ("buckets()", &got_subs, &bks)] {
            if got != want {
                note = Some(format!("{} created before the operation and started after it yields [{}] ({} entries), the bucket now holds [{}] ({} entries)", what, brief(got), got.len(), brief(want), want.len()));
                break;
            }
        }
        (ret, note)
    }));
    match r {
        Ok(x) => x,
        Err(p) => (Ret::Panic(format!("{} @ {}", panic_msg(p), last_panic_loc())), None),
    }
}

/// Executes one model op through the public API.  `op` must outlive the database handle.
/// With `owned` the key / value / name arguments are passed as owned `Vec<u8>` instead of slices.
pub fn exec_op<'tx>(tx: &Tx<'tx>, op: &'tx Op, owned: bool) -> Ret {
    let r = catch_unwind(AssertUnwindSafe(|| -> Ret {
        let path: Vec<&'tx [u8]> = op.path().iter().map(|p| p.as_slice()).collect();
        let b = match resolve(tx, &path) {
            Ok(b) => b,
            Err(e) => return Ret::Err(err_kind(&e)),
        };
        // calls `$f` with the name converted to one of the ToBytes argument types
        macro_rules! with_name {
            ($owned:expr, $salt:expr, $name:expr, |$n:ident| $call:expr) => {{
                let style = if $owned { if $name.iter().any(|c| *c >= 0x80) { 1 } else { 1 + ($name.len() + $salt) % 4 } } else { 0 };
                match style {
                    0 => { let $n = $name.as_slice(); bucket_ret!($call) }
                    1 => match String::from_utf8($name.clone()) {
                        Ok(s) => { let $n = s; bucket_ret!($call) }
                        Err(_) => { let $n = $name.clone(); bucket_ret!($call) }
                    },
                    2 => { let $n = $name.clone(); bucket_ret!($call) }
                    3 => { let $n = bytes::Bytes::from($name.clone()); bucket_ret!($call) }
                    _ => { let $n = $name.as_slice(); bucket_ret!($call) }
                }
            }};
        }
        macro_rules! bucket_ret {
            ($e:expr) => {
                match $e {
                    Ok(b) => Ret::BucketOk(b.next_int()),
                    Err(e) => Ret::Err(err_kind(&e)),
                }
            };
        }
        match (op, &b) {
            (Op::Put { key, val, .. }, Some(b)) => {
                // with `owned` the argument types rotate through everything ToBytes is implemented
                // for: Vec<u8>, String, bytes::Bytes, &bytes::Bytes, fixed-size arrays
                // text with multi-byte characters is handed over the way a client holds it: as a String
                let text = |b: &Vec<u8>| b.iter().any(|c| *c >= 0x80) && std::str::from_utf8(b).is_ok();
                let style = if owned { if text(key) || text(val) { 2 } else { 1 + (key.len() + val.len()) % 5 } } else { 0 };
                let r = match style {
                    0 => b.put(key.as_slice(), val.as_slice()),
                    1 => b.put(key.clone(), val.clone()),
                    2 => match (String::from_utf8(key.clone()), String::from_utf8(val.clone())) {
                        (Ok(k), Ok(v)) => b.put(k, v),
                        _ => b.put(key.clone(), val.clone()),
                    },
                    3 => b.put(bytes::Bytes::from(key.clone()), bytes::Bytes::from(val.clone())),
                    4 => {
                        let kb = bytes::Bytes::from(key.clone());
                        b.put(&kb, val.as_slice())
                    }
                    _ => {
                        if key.len() == 2 {
                            let arr: [u8; 2] = [key[0], key[1]];
                            b.put(arr, val.clone())
                        } else if key.len() == 3 {
                            let arr: [u8; 3] = [key[0], key[1], key[2]];
                            b.put(arr, val.clone())
                        } else {
                            b.put(key.as_slice(), bytes::Bytes::from(val.clone()))
                        }
                    }
                };
                match r {
                    Ok(prev) => Ret::Prev(prev.map(|kv| (kv.key().to_vec(), kv.value().to_vec()))),
                    Err(e) => Ret::Err(err_kind(&e)),
                }
            }
            (Op::Del { key, .. }, Some(b)) => match b.delete(key.as_slice()) {
                Ok(kv) => Ret::Removed(kv.key().to_vec(), kv.value().to_vec()),
                Err(e) => Ret::Err(err_kind(&e)),
            },
            // bucket names: with `owned` the name type rotates per operation kind (String, Vec<u8>,
            // bytes::Bytes, slice), while paths are always resolved with slices, so one
            // transaction addresses the same bucket through different ToBytes types
            (Op::Create { name, .. }, Some(b)) => with_name!(owned, 0, name, |n| b.create_bucket(n)),
            (Op::Create { name, .. }, None) => with_name!(owned, 0, name, |n| tx.create_bucket(n)),
            (Op::GetB { name, .. }, Some(b)) => with_name!(owned, 1, name, |n| b.get_bucket(n)),
            (Op::GetB { name, .. }, None) => with_name!(owned, 1, name, |n| tx.get_bucket(n)),
            (Op::GetOrCreate { name, .. }, Some(b)) => with_name!(owned, 2, name, |n| b.get_or_create_bucket(n)),
            (Op::GetOrCreate { name, .. }, None) => with_name!(owned, 2, name, |n| tx.get_or_create_bucket(n)),
            (Op::DelB { name, .. }, Some(b)) => {
                let r = if owned {
                    match String::from_utf8(name.clone()) {
                        Ok(s) => b.delete_bucket(s),
                        Err(_) => b.delete_bucket(name.clone()),
                    }
                } else {
                    b.delete_bucket(name.as_slice())
                };
                match r {
                    Ok(()) => Ret::Unit,
                    Err(e) => Ret::Err(err_kind(&e)),
                }
            }
            (Op::DelB { name, .. }, None) => {
                let r = if owned { tx.delete_bucket(bytes::Bytes::from(name.clone())) } else { tx.delete_bucket(name.as_slice()) };
                match r {
                    Ok(()) => Ret::Unit,
                    Err(e) => Ret::Err(err_kind(&e)),
                }
            }
            (Op::Put { .. }, None) | (Op::Del { .. }, None) => {
                panic!("harness: key/value op addressed at the transaction root")
            }
        }
    }));
    match r {
        Ok(r) => r,
        Err(p) => Ret::Panic(format!("{} @ {}", panic_msg(p), last_panic_loc())),
    }
}

/// A reader that calls mutators: every one of them must be refused (and, checked by the caller's
/// next dump, must leave the reader's view alone).  Handles are obtained by name and through the
/// listing iterators.  Returns the calls that were NOT refused.
pub fn reader_mutator_attempts(tx: &Tx, want: &BucketM) -> Result<Vec<String>, String> {
    use jammdb::ToBuckets;
    fn absent(m: &BucketM) -> Vec<u8> {
        let mut n = b"~ro-absent".to_vec();
        while m.items.contains_key(&n) {
            n.push(b'~');
        }
        n
    }
    fn attempts(b: &Bucket, sub: &BucketM, how: &str, depth: usize, bad: &mut Vec<String>) {
        let a = absent(sub);
        if b.get_or_create_bucket(a.clone()).is_ok() {
            bad.push(format!("Bucket::get_or_create_bucket(absent name) on a handle obtained {}", how));
        }
        if b.put(a.clone(), b"x".to_vec()).is_ok() {
            bad.push(format!("Bucket::put(new key) on a handle obtained {}", how));
        }
        if b.create_bucket(a.clone()).is_ok() {
            bad.push(format!("Bucket::create_bucket(absent name) on a handle obtained {}", how));
        }
        if let Some((k, _)) = sub.items.iter().find(|(_, it)| matches!(it, Item::Kv(_))) {
            if b.put(k.clone(), b"changed-by-a-reader".to_vec()).is_ok() {
                bad.push(format!("Bucket::put(existing key) on a handle obtained {}", how));
            }
            if b.delete(k.clone()).is_ok() {
                bad.push(format!("Bucket::delete(existing key) on a handle obtained {}", how));
            }
        }
        if depth < 2 {
            // handles listed by a range / a cursor that has already yielded an entry, or was sought
            let mut r = b.range::<std::ops::RangeFull>(..);
            let _ = r.next();
            for (n, nb) in r.to_buckets().take(3) {
                if let Some(Item::Bucket(inner)) = sub.items.get(n.name()) {
                    attempts(&nb, inner, "from range(..), advanced once, then to_buckets()", 2, bad);
                }
            }
            let mut c = b.cursor();
            let _ = c.next();
            for (n, nb) in c.to_buckets().take(3) {
                if let Some(Item::Bucket(inner)) = sub.items.get(n.name()) {
                    attempts(&nb, inner, "from cursor(), advanced once, then to_buckets()", 2, bad);
                }
            }
            let mut c2 = b.cursor();
            c2.seek(Vec::<u8>::new());
            for (n, nb) in c2.to_buckets().take(3) {
                if let Some(Item::Bucket(inner)) = sub.items.get(n.name()) {
                    attempts(&nb, inner, "from cursor() after seek, then to_buckets()", 2, bad);
                }
            }
        }
        if let Some((n, Item::Bucket(inner))) = sub.items.iter().find(|(_, it)| matches!(it, Item::Bucket(_))) {
            if depth < 2 {
                if let Some((_, nb)) = b.buckets().find(|(x, _)| x.name() == n.as_slice()) {
                    attempts(&nb, inner, &format!("{} and then by listing its parent", how), depth + 1, bad);
                }
            }
            if b.delete_bucket(n.clone()).is_ok() {
                bad.push(format!("Bucket::delete_bucket(existing name) on a handle obtained {}", how));
            }
        }
    }
    guarded(|| {
        let mut bad = vec![];
        let a = absent(want);
        if tx.get_or_create_bucket(a.clone()).is_ok() {
            bad.push("Tx::get_or_create_bucket(absent name)".to_string());
        }
        if tx.create_bucket(a.clone()).is_ok() {
            bad.push("Tx::create_bucket(absent name)".to_string());
        }
        if let Some((name, Item::Bucket(sub))) = want.items.iter().find(|(_, it)| matches!(it, Item::Bucket(_))) {
            if let Some((_, b)) = tx.buckets().find(|(n, _)| n.name() == name.as_slice()) {
                attempts(&b, sub, "from Tx::buckets()", 0, &mut bad);
            }
            if let Ok(b) = tx.get_bucket(name.clone()) {
                attempts(&b, sub, "by name", 0, &mut bad);
            }
            if tx.delete_bucket(name.clone()).is_ok() {
                bad.push("Tx::delete_bucket(existing name)".to_string());
            }
        }
        for (name, sub) in want.items.iter().filter_map(|(k, it)| if let Item::Bucket(s) = it { Some((k, s)) } else { None }).skip(1).take(3) {
            if let Ok(b) = tx.get_bucket(name.clone()) {
                attempts(&b, sub, "by name", 0, &mut bad);
            }
        }
        bad
    })
}

/// Is the advisory lock on `path` held by somebody?  Asked with raw system calls on a descriptor
/// of the harness's own (not seen by the scheduler or the fault plan).  None: cannot tell.
pub fn file_lock_is_held(path: &str) -> Option<bool> {
    let c = std::ffi::CString::new(path).ok()?;
    unsafe {
        let fd = libc::syscall(libc::SYS_open, c.as_ptr(), libc::O_RDONLY | libc::O_CLOEXEC) as i32;
        if fd < 0 {
            return None;
        }
        let r = libc::syscall(libc::SYS_flock, fd, libc::LOCK_EX | libc::LOCK_NB);
        let held = if r == 0 {
            libc::syscall(libc::SYS_flock, fd, libc::LOCK_UN);
            Some(false)
        } else if *libc::__errno_location() == libc::EWOULDBLOCK {
            Some(true)
        } else {
            None
        };
        libc::syscall(libc::SYS_close, fd);
        held
    }
}

/// Like `exec_op`, but the bucket the operation addresses is reached through the listing
/// iterators (`tx.buckets()`, `bucket.buckets()`) instead of by name.  Only for non-root paths.
pub fn exec_op_listed<'tx>(tx: &Tx<'tx>, op: &'tx Op) -> Option<Ret> {
    if op.path().is_empty() {
        return None;
    }
    let r = catch_unwind(AssertUnwindSafe(|| -> Option<Ret> {
        let mut cur: Option<Bucket> = None;
        for name in op.path() {
            let next = match &cur {
                None => tx.buckets().find(|(n, _)| n.name() == name.as_slice()).map(|(_, b)| b),
                Some(b) => b.buckets().find(|(n, _)| n.name() == name.as_slice()).map(|(_, b)| b),
            };
            match next {
                Some(b) => cur = Some(b),
                None => return None,
            }
        }
        let b = cur?;
        Some(match op {
            Op::Put { key, val, .. } => match b.put(key.as_slice(), val.as_slice()) {
                Ok(prev) => Ret::Prev(prev.map(|kv| (kv.key().to_vec(), kv.value().to_vec()))),
                Err(e) => Ret::Err(err_kind(&e)),
            },
            Op::Del { key, .. } => match b.delete(key.as_slice()) {
                Ok(kv) => Ret::Removed(kv.key().to_vec(), kv.value().to_vec()),
                Err(e) => Ret::Err(err_kind(&e)),
            },
            Op::Create { name, .. } => match b.create_bucket(name.as_slice()) {
                Ok(x) => Ret::BucketOk(x.next_int()),
                Err(e) => Ret::Err(err_kind(&e)),
            },
            Op::GetB { name, .. } => match b.get_bucket(name.as_slice()) {
                Ok(x) => Ret::BucketOk(x.next_int()),
                Err(e) => Ret::Err(err_kind(&e)),
            },
            Op::GetOrCreate { name, .. } => match b.get_or_create_bucket(name.as_slice()) {
                Ok(x) => Ret::BucketOk(x.next_int()),
                Err(e) => Ret::Err(err_kind(&e)),
            },
            Op::DelB { name, .. } => match b.delete_bucket(name.as_slice()) {
                Ok(()) => Ret::Unit,
                Err(e) => Ret::Err(err_kind(&e)),
            },
        })
    }));
    match r {
        Ok(r) => r,
        Err(p) => Some(Ret::Panic(format!("{} @ {}", panic_msg(p), last_panic_loc()))),
    }
}

fn dump_bucket<'b, 'tx>(b: &Bucket<'b, 'tx>, depth: usize) -> Result<BucketM, String> {
    if depth > 16 {
        return Err("bucket nesting deeper than 16 (cycle?)".into());
    }
    let mut m = BucketM { next_int: b.next_int(), ..Default::default() };
    let mut last: Option<Bytes> = None;
    let mut n = 0usize;
    let mut cur = b.cursor();
    loop {
        let data = match cur.next() {
            Some(d) => d,
            None => {
                // asking again after the end is harmless
                for again in 0..2 {
                    if let Some(d) = cur.next() {
                        return Err(format!("cursor yields {} on call {} after it had returned None", show(d.key()), again + 1));
                    }
                }
                break;
            }
        };
        n += 1;
        if n > SCAN_CAP {
            return Err("cursor did not terminate".into());
        }
        let key = data.key().to_vec();
        if let Some(l) = &last {
            if *l >= key {
                return Err(format!("cursor out of order / duplicate: {} then {}", show(l), show(&key)));
            }
        }
        last = Some(key.clone());
        match &data {
            Data::Bucket(name) => {
                let sub = b
                    .get_bucket(name.name().to_vec())
                    .map_err(|e| format!("get_bucket({}) of a listed bucket failed: {:?}", show(name.name()), e))?;
                m.items.insert(key, Item::Bucket(dump_bucket(&sub, depth + 1)?));
            }
            Data::KeyValue(kv) => {
                m.items.insert(key, Item::Kv(kv.value().to_vec()));
            }
        }
    }
    Ok(m)
}

/// Full logical contents visible to `tx` (root level holds buckets only).
pub fn dump_tx(tx: &Tx) -> Result<BucketM, String> {
    match guarded(|| -> Result<BucketM, String> {
        let mut m = BucketM::default();
        let mut last: Option<Bytes> = None;
        let mut n = 0;
        for (name, b) in tx.buckets() {
            n += 1;
            if n > SCAN_CAP {
                return Err("root bucket iterator did not terminate".into());
            }
            let key = name.name().to_vec();
            if let Some(l) = &last {
                if *l >= key {
                    return Err(format!("root buckets out of order / duplicate: {} then {}", show(l), show(&key)));
                }
            }
            last = Some(key.clone());
            m.items.insert(key, Item::Bucket(dump_bucket(&b, 0)?));
        }
        Ok(m)
    }) {
        Ok(r) => r,
        Err(p) => Err(format!("panic while reading: {}", p)),
    }
}

fn data_to_pair(d: &Data) -> (Bytes, Option<Bytes>) {
    match d {
        Data::Bucket(n) => (n.name().to_vec(), None),
        Data::KeyValue(kv) => (kv.key().to_vec(), Some(kv.value().to_vec())),
    }
}

fn model_pair(k: &Bytes, it: &Item) -> (Bytes, Option<Bytes>) {
    match it {
        Item::Kv(v) => (k.clone(), Some(v.clone())),
        Item::Bucket(_) => (k.clone(), None),
    }
}

fn show_pairs(v: &[(Bytes, Option<Bytes>)]) -> String {
    let mut s = String::from("[");
    for (k, val) in v.iter().take(12) {
        s.push_str(&show(k));
        if val.is_none() {
            s.push(':');
        }
        s.push(' ');
    }
    if v.len() > 12 {
        s.push_str(&format!("..{} total", v.len()));
    }
    s.push(']');
    s
}

#[derive(Clone, Copy, PartialEq, Eq, Debug, Hash)]
pub enum BoundKind {
    Inc,
    Exc,
    Unb,
}

pub fn mk_bound<'a>(k: BoundKind, key: &'a [u8]) -> Bound<&'a [u8]> {
    match k {
        BoundKind::Inc => Bound::Included(key),
        BoundKind::Exc => Bound::Excluded(key),
        BoundKind::Unb => Bound::Unbounded,
    }
}

fn in_range(k: &[u8], lo: &Bound<&[u8]>, hi: &Bound<&[u8]>) -> bool {
    (match lo {
        Bound::Included(s) => k >= *s,
        Bound::Excluded(s) => k > *s,
        Bound::Unbounded => true,
    }) && (match hi {
        Bound::Included(e) => k <= *e,
        Bound::Excluded(e) => k < *e,
        Bound::Unbounded => true,
    })
}

/// Which parts of the read API to exercise in `probe_bucket`.
#[derive(Clone, Copy)]
pub struct ProbeCfg {
    pub gets: bool,
    pub scan: bool,
    pub filters: bool,
    pub seeks: bool,
    /// after exhaustion, this many further `next()` calls must return None
    pub extra_next: usize,
    pub ranges: bool,
    /// all 9 kinds of bound pairs for every pair of probe keys (else a fixed small menu)
    pub all_range_pairs: bool,
    pub range_filters: bool,
    /// seek on a cursor that has already been iterated (0 = off; n = up to n prior next() calls,
    /// plus a second seek on the same cursor)
    pub reuse: usize,
}

impl ProbeCfg {
    pub const LIGHT: ProbeCfg = ProbeCfg { gets: true, scan: true, filters: true, seeks: true, extra_next: 1, ranges: true, all_range_pairs: false, range_filters: false, reuse: 1 };
    pub const FULL: ProbeCfg = ProbeCfg { gets: true, scan: true, filters: true, seeks: true, extra_next: 3, ranges: true, all_range_pairs: true, range_filters: true, reuse: 4 };
}

/// A single observation that disagreed with the model.
#[derive(Clone, Debug)]
pub struct Mismatch {
    /// stable class id, used for known-finding fingerprints
    pub class: &'static str,
    pub detail: String,
}

#[derive(Default)]
pub struct ProbeStats {
    pub reads: u64,
    /// queries whose expected answer is a non-empty list of entries
    pub nontrivial: u64,
}

/// Compares the whole read API of bucket `b` with model `m` over `probes` (the universe of keys).
/// Returns every mismatch class once (first instance).
pub fn probe_bucket<'b, 'tx>(
    b: &Bucket<'b, 'tx>,
    m: &BucketM,
    probes: &[Bytes],
    cfg: ProbeCfg,
    stats: &mut ProbeStats,
    out: &mut Vec<Mismatch>,
) {
    let mut push = |class: &'static str, detail: String| {
        if !out.iter().any(|x| x.class == class) {
            out.push(Mismatch { class, detail });
        }
    };
    let model_all: Vec<(Bytes, Option<Bytes>)> = m.items.iter().map(|(k, it)| model_pair(k, it)).collect();

    let r = guarded(|| b.next_int());
    stats.reads += 1;
    match r {
        Ok(n) if n == m.next_int => {}
        Ok(n) => push("next_int", format!("next_int {} expected {}", n, m.next_int)),
        Err(p) => push("panic:next_int", p),
    }

    if cfg.gets {
        for k in probes {
            stats.reads += 2;
            let exp = m.items.get(k);
            match guarded(|| b.get(k.as_slice()).map(|d| data_to_pair(&d))) {
                Ok(got) => {
                    let want = exp.map(|it| model_pair(k, it));
                    if got != want {
                        push("get", format!("get({}) = {:?} expected {:?}", show(k), got.map(|g| (show(&g.0), g.1.map(|v| show(&v)))), want.map(|g| (show(&g.0), g.1.map(|v| show(&v))))));
                    }
                }
                Err(p) => push("panic:get", format!("get({}): {}", show(k), p)),
            }
            match guarded(|| b.get_kv(k.as_slice()).map(|kv| (kv.key().to_vec(), kv.value().to_vec()))) {
                Ok(got) => {
                    let want = match exp {
                        Some(Item::Kv(v)) => Some((k.clone(), v.clone())),
                        _ => None,
                    };
                    if got != want {
                        push("get_kv", format!("get_kv({}) disagrees with model", show(k)));
                    }
                }
                Err(p) => push("panic:get_kv", format!("get_kv({}): {}", show(k), p)),
            }
        }
    }

    if cfg.scan {
        stats.reads += 1;
        let r = guarded(|| {
            let mut c = b.cursor();
            let mut v = vec![];
            while let Some(d) = c.next() {
                v.push(data_to_pair(&d));
                if v.len() > SCAN_CAP {
                    break;
                }
            }
            let mut after = 0;
            for _ in 0..cfg.extra_next {
                if c.next().is_some() {
                    after += 1;
                }
            }
            (v, after)
        });
        match r {
            Ok((v, after)) => {
                if v != model_all {
                    push("scan", format!("cursor scan {} expected {}", show_pairs(&v), show_pairs(&model_all)));
                }
                if after > 0 {
                    push("next_after_end", format!("next() after exhaustion returned Some {} times", after));
                }
            }
            Err(p) => {
                if model_all.is_empty() {
                    push("panic:scan_empty", p)
                } else {
                    push("panic:scan", p)
                }
            }
        }
    }

    if cfg.scan {
        // the iterator methods a library may override instead of inheriting them from `next()`:
        // last, count, nth, fold-based consumers, size_hint (only its contract), on fresh cursors and
        // on the filtering adaptors
        stats.reads += 6;
        let r = guarded(|| {
            let last = b.cursor().last().map(|d| data_to_pair(&d));
            let count = b.cursor().count();
            let nth1 = b.cursor().nth(1).map(|d| data_to_pair(&d));
            let mut c = b.cursor();
            let first = c.next().map(|d| data_to_pair(&d));
            let rest_last = c.last().map(|d| data_to_pair(&d));
            // count() on a cursor that has already yielded one entry, and on an exhausted one
            let mut c2 = b.cursor();
            let _ = c2.next();
            let count_after_one = c2.count();
            let mut c3 = b.cursor();
            while c3.next().is_some() {}
            let count_exhausted = c3.count();
            let (lo, hi) = b.cursor().size_hint();
            let kv_last = b.kv_pairs().last().map(|kv| (kv.key().to_vec(), kv.value().to_vec()));
            let kv_count = b.kv_pairs().count();
            let bk_count = b.buckets().count();
            let bk_last = b.buckets().last().map(|(n, _)| n.name().to_vec());
            let into_last = b.cursor().into_iter().last().map(|d| data_to_pair(&d));
            (last, count, nth1, first, rest_last, lo, hi, kv_last, kv_count, bk_count, bk_last, into_last, count_after_one, count_exhausted)
        });
        match r {
            Ok((last, count, nth1, first, rest_last, lo, hi, kv_last, kv_count, bk_count, bk_last, into_last, count_after_one, count_exhausted)) => {
                let n = model_all.len();
                if count_after_one != n.saturating_sub(1) || count_exhausted != 0 {
                    push("iter_count", format!("count() after one next() = {} (expected {}), on an exhausted cursor = {} (expected 0)", count_after_one, n.saturating_sub(1), count_exhausted));
                }
                if last != model_all.last().cloned() || into_last != model_all.last().cloned() {
                    push("iter_last", format!("cursor().last() gives {:?}, the last entry is {:?}", last.as_ref().map(|p| show(&p.0)), model_all.last().map(|p| show(&p.0))));
                }
                if count != n {
                    push("iter_count", format!("cursor().count() = {} for {} entries", count, n));
                }
                if nth1 != model_all.get(1).cloned() {
                    push("iter_nth", format!("cursor().nth(1) gives {:?}, expected {:?}", nth1.as_ref().map(|p| show(&p.0)), model_all.get(1).map(|p| show(&p.0))));
                }
                if first != model_all.first().cloned() || rest_last != if n >= 2 { model_all.last().cloned() } else { None } {
                    push("iter_last", format!("next() then last() give {:?} / {:?}", first.as_ref().map(|p| show(&p.0)), rest_last.as_ref().map(|p| show(&p.0))));
                }
                if lo > n || hi.map(|h| h < n).unwrap_or(false) {
                    push("iter_size_hint", format!("size_hint() = ({}, {:?}) for {} entries", lo, hi, n));
                }
                let kvs: Vec<(Bytes, Bytes)> = model_all.iter().filter_map(|(k, v)| v.as_ref().map(|v| (k.clone(), v.clone()))).collect();
                let bks: Vec<Bytes> = model_all.iter().filter(|(_, v)| v.is_none()).map(|(k, _)| k.clone()).collect();
                if kv_last != kvs.last().cloned() || kv_count != kvs.len() {
                    push("iter_last", format!("kv_pairs(): last {:?} count {}, expected last {:?} count {}", kv_last.as_ref().map(|p| show(&p.0)), kv_count, kvs.last().map(|p| show(&p.0)), kvs.len()));
                }
                if bk_last != bks.last().cloned() || bk_count != bks.len() {
                    push("iter_last", format!("buckets(): last {:?} count {}, expected last {:?} count {}", bk_last.as_ref().map(|k| show(k)), bk_count, bks.last().map(|k| show(k)), bks.len()));
                }
            }
            Err(p) => push("panic:iter_methods", p),
        }
    }

    if cfg.scan && cfg.reuse >= 3 && model_all.len() <= 64 {
        // nth / skip / step_by (all built on `nth`, which a library may override) on cursors that
        // have already yielded m entries: the same as that many calls of next()
        let n = model_all.len();
        let r = guarded(|| {
            let mut bad: Vec<String> = vec![];
            let mut calls = 0u64;
            for m in 0..=n.min(12) {
                for k in 0..=(n - m + 1).min(14) {
                    let mut c = b.cursor();
                    for _ in 0..m {
                        let _ = c.next();
                    }
                    let got = c.nth(k).map(|d| data_to_pair(&d).0);
                    let then = c.next().map(|d| data_to_pair(&d).0);
                    calls += 2;
                    let want = model_all.get(m + k).map(|p| p.0.clone());
                    let want_then = if want.is_some() { model_all.get(m + k + 1).map(|p| p.0.clone()) } else { None };
                    if (got != want || then != want_then) && bad.len() < 3 {
                        bad.push(format!("after {} entries, nth({}) gives {:?} and the following next() {:?}; expected {:?} and {:?}", m, k, got.as_ref().map(|x| show(x)), then.as_ref().map(|x| show(x)), want.as_ref().map(|x| show(x)), want_then.as_ref().map(|x| show(x))));
                    }
                }
            }
            for step in 1..=n.min(9) + 1 {
                let got: Vec<Bytes> = b.cursor().step_by(step).map(|d| data_to_pair(&d).0).collect();
                let want: Vec<Bytes> = model_all.iter().step_by(step).map(|p| p.0.clone()).collect();
                let got_r: Vec<Bytes> = b.range::<std::ops::RangeFull>(..).skip(step).map(|d| data_to_pair(&d).0).collect();
                let want_r: Vec<Bytes> = model_all.iter().skip(step).map(|p| p.0.clone()).collect();
                calls += 2;
                if (got != want || got_r != want_r) && bad.len() < 3 {
                    bad.push(format!("cursor().step_by({}) yields {} entries (expected {}), range(..).skip({}) yields {} (expected {})", step, got.len(), want.len(), step, got_r.len(), want_r.len()));
                }
            }
            (bad, calls)
        });
        match r {
            Ok((bad, calls)) => {
                stats.reads += calls;
                for x in bad {
                    push("iter_nth", x);
                }
            }
            Err(p) => push("panic:iter_methods", p),
        }
    }

    if cfg.filters {
        stats.reads += 2;
        match guarded(|| b.buckets().map(|(n, sub)| (n.name().to_vec(), sub.next_int())).take(SCAN_CAP).collect::<Vec<_>>()) {
            Ok(v) => {
                let want: Vec<(Bytes, u64)> = m
                    .items
                    .iter()
                    .filter_map(|(k, it)| match it {
                        Item::Bucket(s) => Some((k.clone(), s.next_int)),
                        _ => None,
                    })
                    .collect();
                if v != want {
                    push("buckets", format!("buckets() yields {:?} expected {:?}", v.iter().map(|x| show(&x.0)).collect::<Vec<_>>(), want.iter().map(|x| show(&x.0)).collect::<Vec<_>>()));
                }
            }
            Err(p) => push(if model_all.is_empty() { "panic:buckets_empty" } else { "panic:buckets" }, p),
        }
        match guarded(|| b.kv_pairs().map(|kv| (kv.key().to_vec(), Some(kv.value().to_vec()))).take(SCAN_CAP).collect::<Vec<_>>()) {
            Ok(v) => {
                let want: Vec<_> = model_all.iter().filter(|x| x.1.is_some()).cloned().collect();
                if v != want {
                    push("kv_pairs", format!("kv_pairs() yields {} expected {}", show_pairs(&v), show_pairs(&want)));
                }
            }
            Err(p) => push(if model_all.is_empty() { "panic:kv_pairs_empty" } else { "panic:kv_pairs" }, p),
        }
    }

    if cfg.seeks {
        for k in probes {
            stats.reads += 1;
            let r = guarded(|| {
                let mut c = b.cursor();
                let exists = c.seek(k.as_slice());
                let cur = c.current().map(|d| data_to_pair(&d));
                let mut v = vec![];
                while let Some(d) = c.next() {
                    v.push(data_to_pair(&d));
                    if v.len() > SCAN_CAP {
                        break;
                    }
                }
                let mut after = 0;
                for _ in 0..cfg.extra_next {
                    if c.next().is_some() {
                        after += 1;
                    }
                }
                (exists, cur, v, after)
            });
            match r {
                Ok((exists, cur, v, after)) => {
                    let want_exists = m.items.contains_key(k);
                    if exists != want_exists {
                        push("seek_exists", format!("seek({}) returned {} expected {}", show(k), exists, want_exists));
                    }
                    let ge: Vec<_> = model_all.iter().filter(|x| x.0 >= *k).cloned().collect();
                    if !ge.is_empty() {
                        stats.nontrivial += 1;
                    }
                    let pred = model_all.iter().filter(|x| x.0 < *k).last().cloned();
                    let ok = if want_exists {
                        v == ge
                    } else {
                        v == ge || pred.as_ref().map(|p| v.len() == ge.len() + 1 && v[0] == *p && v[1..] == ge[..]).unwrap_or(false)
                    };
                    if !ok {
                        push(
                            if model_all.is_empty() { "seek_iter_empty" } else { "seek_iter" },
                            format!("seek({}) then iteration yields {} expected {} (optionally preceded by the predecessor)", show(k), show_pairs(&v), show_pairs(&ge)),
                        );
                    }
                    // current() right after seek is the first thing next() returns
                    // (None is tolerated: the property speaks about iteration, not about current())
                    if cur.is_some() && cur.as_ref() != v.first() {
                        // current() may legitimately be Some while iteration is empty only if .. never
                        push("seek_current", format!("seek({}): current() = {:?} but first next() = {:?}", show(k), cur.as_ref().map(|c| show(&c.0)), v.first().map(|c| show(&c.0))));
                    }
                    if after > 0 {
                        push("next_after_end", format!("seek({}): next() after exhaustion returned Some", show(k)));
                    }
                }
                Err(p) => push(if model_all.is_empty() { "panic:seek_empty" } else { "panic:seek" }, format!("seek({}): {}", show(k), p)),
            }
        }
    }

    if cfg.seeks && cfg.reuse > 0 {
        // the same cursor object used again: next() a few times, then seek; and seek twice
        for k in probes {
            let want_exists = m.items.contains_key(k);
            let ge: Vec<_> = model_all.iter().filter(|x| x.0 >= *k).cloned().collect();
            let pred = model_all.iter().filter(|x| x.0 < *k).last().cloned();
            let acceptable = |v: &Vec<(Bytes, Option<Bytes>)>| -> bool {
                if want_exists {
                    *v == ge
                } else {
                    *v == ge || pred.as_ref().map(|p| v.len() == ge.len() + 1 && v[0] == *p && v[1..] == ge[..]).unwrap_or(false)
                }
            };
            // cursors advanced 1..n times, and cursors run off the end (one and two calls past the last entry)
            let mut priors: Vec<usize> = (1..=cfg.reuse.min(model_all.len().max(1))).collect();
            if cfg.reuse > 0 {
                priors.push(model_all.len() + 1);
                priors.push(model_all.len() + 2);
            }
            for prior in priors {
                stats.reads += 1;
                let r = guarded(|| {
                    let mut c = b.cursor();
                    for _ in 0..prior {
                        c.next();
                    }
                    let exists = c.seek(k.as_slice());
                    let mut v = vec![];
                    while let Some(d) = c.next() {
                        v.push(data_to_pair(&d));
                        if v.len() > SCAN_CAP {
                            break;
                        }
                    }
                    (exists, v)
                });
                match r {
                    Ok((exists, v)) => {
                        if exists != want_exists || !acceptable(&v) {
                            push("seek_after_next", format!("cursor advanced {} time(s), then seek({}) returned {} and iteration yields {} expected exists={} and {}", prior, show(k), exists, show_pairs(&v), want_exists, show_pairs(&ge)));
                        }
                    }
                    Err(p) => push("panic:seek_after_next", format!("seek({}) after {} next(): {}", show(k), prior, p)),
                }
            }
            // seek somewhere else first, iterate one step, then seek to k
            if let Some(other) = probes.iter().find(|o| *o != k) {
                stats.reads += 1;
                let r = guarded(|| {
                    let mut c = b.cursor();
                    c.seek(other.as_slice());
                    c.next();
                    let exists = c.seek(k.as_slice());
                    let mut v = vec![];
                    while let Some(d) = c.next() {
                        v.push(data_to_pair(&d));
                        if v.len() > SCAN_CAP {
                            break;
                        }
                    }
                    (exists, v)
                });
                match r {
                    Ok((exists, v)) => {
                        if exists != want_exists || !acceptable(&v) {
                            push("seek_after_seek", format!("seek({}), next(), then seek({}) returned {} and iteration yields {} expected {}", show(other), show(k), exists, show_pairs(&v), show_pairs(&ge)));
                        }
                    }
                    Err(p) => push("panic:seek_after_seek", p),
                }
            }
        }
    }

    if cfg.ranges {
        let kinds = [BoundKind::Inc, BoundKind::Exc, BoundKind::Unb];
        let mut specs: Vec<(BoundKind, usize, BoundKind, usize)> = vec![];
        if cfg.all_range_pairs {
            for (i, _) in probes.iter().enumerate() {
                for (j, _) in probes.iter().enumerate() {
                    for lo in kinds {
                        for hi in kinds {
                            if (lo == BoundKind::Unb && i != 0) || (hi == BoundKind::Unb && j != 0) {
                                continue;
                            }
                            specs.push((lo, i, hi, j));
                        }
                    }
                }
            }
        } else if !probes.is_empty() {
            let n = probes.len();
            let picks = [0, n / 3, n / 2, n - 1];
            for &i in &picks {
                for &j in &picks {
                    for lo in kinds {
                        for hi in kinds {
                            if (lo == BoundKind::Unb && i != 0) || (hi == BoundKind::Unb && j != 0) {
                                continue;
                            }
                            specs.push((lo, i, hi, j));
                        }
                    }
                }
            }
            specs.sort_by_key(|s| (s.1, s.3, s.0 as u8, s.2 as u8));
            specs.dedup();
        }
        for (lo, i, hi, j) in specs {
            let lo_b = mk_bound(lo, probes[i].as_slice());
            let hi_b = mk_bound(hi, probes[j].as_slice());
            let want: Vec<_> = model_all.iter().filter(|x| in_range(&x.0, &lo_b, &hi_b)).cloned().collect();
            stats.reads += 1;
            if !want.is_empty() {
                stats.nontrivial += 1;
            }
            let r = guarded(|| {
                let mut it = b.range((lo_b, hi_b));
                let mut v = vec![];
                while let Some(d) = it.next() {
                    v.push(data_to_pair(&d));
                    if v.len() > SCAN_CAP {
                        break;
                    }
                }
                v
            });
            let class_of = |lo: BoundKind, empty: bool, panic: bool| -> &'static str {
                match (lo, empty, panic) {
                    (BoundKind::Exc, _, false) => "range_excl_start",
                    (_, true, false) => "range_empty",
                    (_, false, false) => "range",
                    (_, true, true) => "panic:range_empty",
                    (_, false, true) => "panic:range",
                }
            };
            match r {
                Ok(v) => {
                    if v != want {
                        push(
                            class_of(lo, model_all.is_empty(), false),
                            format!("range({:?} {}, {:?} {}) yields {} expected {}", lo, show(&probes[i]), hi, show(&probes[j]), show_pairs(&v), show_pairs(&want)),
                        );
                    }
                }
                Err(p) => push(class_of(lo, model_all.is_empty(), true), format!("range({:?} {}, {:?} {}): {}", lo, show(&probes[i]), hi, show(&probes[j]), p)),
            }
            if cfg.range_filters {
                use jammdb::{ToBuckets, ToKVPairs};
                stats.reads += 2;
                let r = guarded(|| {
                    let bs: Vec<Bytes> = b.range((lo_b, hi_b)).to_buckets().map(|(n, _)| n.name().to_vec()).take(SCAN_CAP).collect();
                    let kvs: Vec<(Bytes, Option<Bytes>)> = b.range((lo_b, hi_b)).to_kv_pairs().map(|kv| (kv.key().to_vec(), Some(kv.value().to_vec()))).take(SCAN_CAP).collect();
                    (bs, kvs)
                });
                match r {
                    Ok((bs, kvs)) => {
                        let want_b: Vec<Bytes> = want.iter().filter(|x| x.1.is_none()).map(|x| x.0.clone()).collect();
                        let want_kv: Vec<_> = want.iter().filter(|x| x.1.is_some()).cloned().collect();
                        // filtered iterators stop at the first out-of-range element like the range itself;
                        // expected = reference filter of the same range
                        if bs != want_b || kvs != want_kv {
                            push(
                                if lo == BoundKind::Exc { "range_filter_excl_start" } else if model_all.is_empty() { "range_filter_empty" } else { "range_filter" },
                                format!("range({:?} {}, {:?} {}) filtered: buckets {:?} expected {:?}; kv {} expected {}", lo, show(&probes[i]), hi, show(&probes[j]), bs.iter().map(|x| show(x)).collect::<Vec<_>>(), want_b.iter().map(|x| show(x)).collect::<Vec<_>>(), show_pairs(&kvs), show_pairs(&want_kv)),
                            );
                        }
                    }
                    Err(p) => push(if model_all.is_empty() { "panic:range_filter_empty" } else { "panic:range_filter" }, p),
                }
            }
        }
    }
}

/// Probes every bucket of the model through `tx` (recursively, addressing buckets by path).
pub fn probe_tx(tx: &Tx, model: &BucketM, extra_probes: &[Bytes], cfg: ProbeCfg, stats: &mut ProbeStats, out: &mut Vec<Mismatch>) {
    // root level: bucket listing only
    stats.reads += 1;
    match guarded(|| tx.buckets().map(|(n, _)| n.name().to_vec()).take(SCAN_CAP).collect::<Vec<_>>()) {
        Ok(v) => {
            let want: Vec<Bytes> = model.items.keys().cloned().collect();
            if v != want && !out.iter().any(|x| x.class == "root_buckets") {
                out.push(Mismatch { class: "root_buckets", detail: format!("tx.buckets() yields {:?} expected {:?}", v.iter().map(|x| show(x)).collect::<Vec<_>>(), want.iter().map(|x| show(x)).collect::<Vec<_>>()) });
            }
        }
        Err(p) => {
            if !out.iter().any(|x| x.class == "panic:root_buckets") {
                out.push(Mismatch { class: "panic:root_buckets", detail: p })
            }
        }
    }
    for path in model.bucket_paths() {
        if path.is_empty() {
            continue;
        }
        let m = model.resolve(&path).unwrap();
        let r = guarded(|| {
            let mut cur: Option<Bucket> = None;
            for name in &path {
                let next = match &cur {
                    None => tx.get_bucket(name.clone()),
                    Some(b) => b.get_bucket(name.clone()),
                };
                match next {
                    Ok(b) => cur = Some(b),
                    Err(e) => return Err(format!("{:?}", e)),
                }
            }
            Ok(cur.unwrap())
        });
        match r {
            Ok(Ok(b)) => {
                let mut probes: Vec<Bytes> = m.items.keys().cloned().collect();
                for e in extra_probes {
                    if !probes.contains(e) {
                        probes.push(e.clone());
                    }
                }
                probes.sort();
                probe_bucket(&b, m, &probes, cfg, stats, out);
            }
            Ok(Err(e)) => {
                if !out.iter().any(|x| x.class == "resolve") {
                    out.push(Mismatch { class: "resolve", detail: format!("bucket {:?} exists in the model but get_bucket says {}", path.iter().map(|x| show(x)).collect::<Vec<_>>(), e) });
                }
            }
            Err(p) => {
                if !out.iter().any(|x| x.class == "panic:resolve") {
                    out.push(Mismatch { class: "panic:resolve", detail: p });
                }
            }
        }
    }
}
