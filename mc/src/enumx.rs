//! E4 enumx (C08): bounded-exhaustive enumeration of seek keys and range bounds over a catalogue
//! of bucket shapes, committed and mid-transaction, against the reference model.

use serde_json::{json, Value};

use crate::drivers::{subset_action, subset_setup, SUBSET_BASES};
use crate::iosim;
use crate::pool::{Outcome, Pool};
use crate::real::{self, ProbeCfg, ProbeStats};
use crate::refmodel::{blob, show, BucketM, Bytes, Item, Op, OpSpec};
use crate::report::{self, Check, Tier};
use crate::runner::{Action, Cfg, Oracles, Runner};

pub struct Shape {
    pub name: String,
    pub cfg: Cfg,
    /// committed transactions that build the bucket "b"
    pub setup: Vec<Action>,
    /// operations applied inside a write transaction that stays open while probing (empty: probe a
    /// read-only transaction on the committed state)
    pub mid: Vec<OpSpec>,
    pub full: bool,
}

fn tx(ops: Vec<OpSpec>) -> Action {
    Action::Tx { ops, commit: true }
}

fn leaf_shape(n: usize, val: &str) -> Vec<Action> {
    let mut ops = vec![OpSpec::bucket("create", &[], "b")];
    for i in 0..n {
        ops.push(OpSpec::put(&["b"], &format!("s{:02}", 2 * i + 1), val));
    }
    vec![tx(ops), Action::Reopen]
}

pub fn shapes(tier: Tier) -> Vec<Shape> {
    let mut out = vec![];
    let d = Cfg::default();
    let mk = |name: &str, cfg: &Cfg, setup: Vec<Action>, mid: Vec<OpSpec>| Shape { name: name.to_string(), cfg: cfg.clone(), setup, mid, full: true };
    // empty, single leaf
    out.push(mk("empty-committed", &d, leaf_shape(0, "v*8"), vec![]));
    out.push(mk("empty-created-in-tx", &d, vec![], vec![OpSpec::bucket("create", &[], "b")]));
    for n in [1usize, 2, 5] {
        out.push(mk(&format!("leaf-n{}", n), &d, leaf_shape(n, "v*30"), vec![]));
    }
    out.push(mk("leaf-n5-midtx-inserts", &d, leaf_shape(5, "v*30"), vec![OpSpec::put(&["b"], "s00", "v*8"), OpSpec::put(&["b"], "s04", "v*8"), OpSpec::put(&["b"], "s99", "v*8")]));
    out.push(mk("leaf-n5-midtx-delete-all", &d, leaf_shape(5, "v*30"), (0..5).map(|i| OpSpec::del(&["b"], &format!("s{:02}", 2 * i + 1))).collect()));
    out.push(mk("leaf-n2-midtx-delete-first", &d, leaf_shape(2, "v*30"), vec![OpSpec::del(&["b"], "s01")]));
    out.push(mk("inserts-only-in-tx", &d, vec![], {
        let mut v = vec![OpSpec::bucket("create", &[], "b")];
        for i in 0..7 {
            v.push(OpSpec::put(&["b"], &format!("s{:02}", 2 * i + 1), "w*300"));
        }
        v.push(OpSpec::bucket("create", &["b"], "s06"));
        v
    }));
    // the empty byte string as a stored key and as the name of a nested bucket
    for n in [1usize, 5] {
        let mut setup = leaf_shape(n, "v*30");
        setup.push(tx(vec![OpSpec::put(&["b"], "", "empty-key-value")]));
        out.push(mk(&format!("leaf-n{}-with-empty-key", n), &d, setup, vec![]));
        let mut setup = leaf_shape(n, "v*30");
        setup.push(tx(vec![OpSpec::bucket("create", &["b"], ""), OpSpec::put(&["b", ""], "in", "v*8")]));
        out.push(mk(&format!("leaf-n{}-with-bucket-named-empty", n), &d, setup, vec![]));
    }
    out.push(mk("leaf-n5-midtx-empty-key", &d, leaf_shape(5, "v*30"), vec![OpSpec::put(&["b"], "", "z"), OpSpec::bucket("create", &["b"], "s02")]));
    for b in SUBSET_BASES.iter().filter(|b| b.n == 6 || b.n == 12) {
        let mut setup = subset_setup(b);
        setup.push(tx(vec![OpSpec::put(&["b"], "", "w*300")]));
        out.push(mk(&format!("{}-with-empty-key", b.name), &d, setup, vec![]));
        let mut setup = subset_setup(b);
        setup.push(tx(vec![OpSpec::bucket("create", &["b"], ""), OpSpec::put(&["b", ""], "", "v*8")]));
        out.push(mk(&format!("{}-with-bucket-named-empty", b.name), &d, setup, vec![]));
    }
    // multi-level shapes from the subset driver's bases, committed and mid-transaction
    for b in SUBSET_BASES.iter() {
        if b.n < 6 {
            continue;
        }
        out.push(mk(&format!("{}-committed", b.name), &d, subset_setup(b), vec![]));
        let n = b.n as u32;
        let all = (1u32 << n) - 1;
        // deletion patterns that empty the first leaf, a middle stretch, the last leaf, every other key, everything
        let pats: Vec<(&str, u32)> = vec![
            ("del-first3", 0b111),
            ("del-mid", 0b111 << (n / 2 - 1)),
            ("del-last3", 0b111 << (n - 3)),
            ("del-even", 0x5555_5555 & all),
            ("del-all-but-last", all >> 1),
            ("del-all", all),
        ];
        for (pn, mask) in pats {
            let acts = subset_action(b, mask, 0b1111, false, false);
            if let Some(Action::Tx { ops, .. }) = acts.into_iter().next() {
                out.push(mk(&format!("{}-midtx-{}", b.name, pn), &d, subset_setup(b), ops.clone()));
                if tier == Tier::Thorough || pn == "del-mid" || pn == "del-even" {
                    let mut setup = subset_setup(b);
                    setup.push(Action::Tx { ops, commit: true });
                    out.push(mk(&format!("{}-committed-after-{}", b.name, pn), &d, setup, vec![]));
                }
            }
        }
    }
    // a large bucket (several levels, dozens of leaves), committed and with whole stretches deleted
    // in the open transaction; seeks for every key and gap, ranges from a spread of bounds
    {
        let n = if tier == Tier::Quick { 400 } else { 1500 };
        let mut ops = vec![OpSpec::bucket("create", &[], "b")];
        for i in 0..n {
            ops.push(OpSpec::put(&["b"], &format!("s{:05}", 2 * i + 1), if i % 7 == 0 { "w*120" } else { "v*24" }));
        }
        let setup = vec![tx(ops), Action::Reopen];
        out.push(Shape { name: format!("large-n{}-committed", n), cfg: d.clone(), setup: setup.clone(), mid: vec![], full: false });
        let mid: Vec<OpSpec> = (0..n).filter(|i| (i / 37) % 3 == 1 || *i < 20).map(|i| OpSpec::del(&["b"], &format!("s{:05}", 2 * i + 1))).collect();
        out.push(Shape { name: format!("large-n{}-midtx-stretches-deleted", n), cfg: d.clone(), setup, mid, full: false });
    }
    // every deletion subset of the two-level base, left uncommitted in an open write transaction
    // (this is where emptied leaves sit in the middle of the tree) and committed
    for b in SUBSET_BASES.iter().filter(|b| b.n == 6 || (tier == Tier::Thorough && (b.n == 9 || b.n == 12))) {
        for mask in 1u32..(1 << b.n) {
            let acts = subset_action(b, mask, if mask % 3 == 0 { 0b0110 } else { 0 }, false, false);
            if let Some(Action::Tx { ops, .. }) = acts.into_iter().next() {
                out.push(Shape { name: format!("{}-midtx-subset-{:x}", b.name, mask), cfg: d.clone(), setup: subset_setup(b), mid: ops.clone(), full: b.n <= 9 });
                if b.n <= 9 {
                    let mut setup = subset_setup(b);
                    setup.push(Action::Tx { ops, commit: true });
                    out.push(Shape { name: format!("{}-committed-subset-{:x}", b.name, mask), cfg: d.clone(), setup, mid: vec![], full: b.n == 6 });
                }
            }
        }
    }
    // the nested three-level bases after a committed transaction that deleted one key, any two keys,
    // or any contiguous run of keys (surviving nested buckets are opened and touched in that
    // transaction): what the merge of under-filled middle leaves leaves behind in the committed tree
    for b in SUBSET_BASES.iter().filter(|b| b.n >= 11 && !b.buckets.is_empty()) {
        let n = b.n as u32;
        let mut masks: Vec<u32> = vec![];
        for i in 0..n {
            masks.push(1 << i);
            for j in i + 1..n {
                masks.push(1 << i | 1 << j);
            }
            for len in 3..=(n - i) {
                masks.push(((1u32 << len) - 1) << i);
            }
        }
        masks.sort();
        masks.dedup();
        for mask in masks {
            let acts = subset_action(b, mask, 0, false, false);
            if let Some(Action::Tx { ops, .. }) = acts.into_iter().next() {
                let mut setup = subset_setup(b);
                setup.push(Action::Tx { ops, commit: true });
                setup.push(Action::Reopen);
                out.push(Shape { name: format!("{}-committed-after-subset-{:x}", b.name, mask), cfg: d.clone(), setup, mid: vec![], full: false });
            }
        }
    }
    if tier == Tier::Thorough {
        let big = Cfg { pagesize: 4096, ..Cfg::default() };
        // same recipes scaled to 4 KiB pages: 6 and 14 entries of ~1200 B, and 3 levels with 800 B keys
        for (name, n, keylen, val) in [("p4096-2level-n6", 6usize, 0usize, "w*1200"), ("p4096-2level-n14", 14, 0, "w*1200"), ("p4096-3level-n14", 14, 800, "v*10")] {
            let mut ops = vec![OpSpec::bucket("create", &[], "b")];
            for i in 0..n {
                let k = if keylen > 0 { format!("s{:02}*{}", 2 * i + 1, keylen) } else { format!("s{:02}", 2 * i + 1) };
                ops.push(OpSpec::put(&["b"], &k, val));
            }
            out.push(mk(&format!("{}-committed", name), &big, vec![tx(ops.clone()), Action::Reopen], vec![]));
            let mid: Vec<OpSpec> = (0..n / 2).map(|i| { let k = if keylen > 0 { format!("s{:02}*{}", 2 * i + 1, keylen) } else { format!("s{:02}", 2 * i + 1) }; OpSpec::del(&["b"], &k) }).collect();
            out.push(mk(&format!("{}-midtx-del-first-half", name), &big, vec![tx(ops), Action::Reopen], mid));
        }
    }
    // binary keys around the sign bit and keys that are prefixes of each other, one and two levels
    {
        let bkeys = ["0x00", "0x0000", "0x7f", "0x7fff", "0x80", "0x8000", "0xff", "0xff00", "a", "ab", "abc"];
        let mut small = vec![OpSpec::bucket("create", &[], "b")];
        let mut large = vec![OpSpec::bucket("create", &[], "b")];
        for k in bkeys {
            small.push(OpSpec::put(&["b"], k, "v*8"));
            large.push(OpSpec::put(&["b"], k, "w*300"));
        }
        large.push(OpSpec::bucket("create", &["b"], "0x80aa"));
        out.push(mk("binary-keys-leaf", &d, vec![tx(small), Action::Reopen], vec![]));
        out.push(mk("binary-keys-two-level", &d, vec![tx(large.clone()), Action::Reopen], vec![]));
        out.push(mk("binary-keys-two-level-midtx", &d, vec![tx(large), Action::Reopen], vec![OpSpec::del(&["b"], "0x80"), OpSpec::put(&["b"], "0x81", "v*8"), OpSpec::del(&["b"], "ab")]));
    }
    // the empty key as first entry of a two-level tree
    {
        let mut ops = vec![OpSpec::bucket("create", &[], "b"), OpSpec::put(&["b"], "", "w*300")];
        for i in 0..7 {
            ops.push(OpSpec::put(&["b"], &format!("s{:02}", 2 * i + 1), "w*300"));
        }
        out.push(mk("empty-key-two-level-committed", &d, vec![tx(ops.clone()), Action::Reopen], vec![]));
        out.push(mk("empty-key-two-level-midtx", &d, vec![tx(ops), Action::Reopen], vec![OpSpec::del(&["b"], "s01"), OpSpec::put(&["b"], "s02", "v*8")]));
    }
    if tier == Tier::Thorough {
        // a tree of more than 16 levels (handled by `run_deep`; 300 000 keys of 520 bytes, about 300 MB)
        out.push(mk("deep-tree-300000-keys-of-520-bytes", &d, vec![], vec![]));
    }
    // one uncommitted leaf with more than 2^16 entries (handled by `run_wide`)
    out.push(mk(&format!("wide-leaf-{}-entries-in-one-transaction", WIDE_N), &d, vec![], vec![]));
    out
}

/// Probe keys for a bucket holding `keys`: each key, one key in every gap (just above and just
/// below each key), below the minimum, above the maximum, the empty key.
pub fn probe_keys(m: &BucketM, extra: &[Bytes]) -> Vec<Bytes> {
    let mut v: Vec<Bytes> = vec![vec![], vec![0u8], vec![0xff, 0xff]];
    for k in m.items.keys() {
        v.push(k.clone());
        let mut above = k.clone();
        above.push(0);
        v.push(above);
        if !k.is_empty() {
            // prefix: sorts just below k (or equals a shorter existing key)
            v.push(k[..k.len() - 1].to_vec());
            // same length, last byte one lower: in the gap below k
            let mut below = k.clone();
            let l = below.len() - 1;
            if below[l] > 0 {
                below[l] -= 1;
                v.push(below);
            }
        }
    }
    v.extend(extra.iter().cloned());
    v.sort();
    v.dedup();
    v
}

/// The "wide leaf" shape: WIDE_N entries put into one bucket by one write transaction (an in-memory
/// leaf is not split before commit, so slot numbers go beyond 65535), probed inside that
/// transaction, after commit and after reopening, at slot numbers around powers of two.
pub const WIDE_N: u32 = 66_000;

fn wide_key(i: u32) -> [u8; 4] {
    i.to_be_bytes()
}

fn wide_probe(b: &jammdb::Bucket, stage: &str, reads: &mut u64, mism: &mut Vec<Value>) {
    let n = WIDE_N;
    let idxs: Vec<u32> = vec![0, 1, 2, 127, 128, 255, 256, 257, 32767, 32768, 65534, 65535, 65536, 65537, 65538, n - 2, n - 1];
    let val = |i: u32| -> Vec<u8> { format!("v{}", i).into_bytes() };
    for &i in &idxs {
        *reads += 3;
        // point lookup
        match b.get_kv(wide_key(i)) {
            Some(kv) if kv.key() == wide_key(i) && kv.value() == val(i).as_slice() => {}
            Some(kv) => mism.push(json!(["wide_get", format!("[{}] get_kv(entry {}) returned key {:?} value {:?}", stage, i, kv.key(), String::from_utf8_lossy(kv.value()))])),
            None => mism.push(json!(["wide_get", format!("[{}] get_kv(entry {}) found nothing", stage, i)])),
        }
        // seek to a present key, then the following entries
        let mut c = b.cursor();
        let exists = c.seek(wide_key(i));
        let got: Vec<Vec<u8>> = c.by_ref().take(3).map(|d| d.key().to_vec()).collect();
        let want: Vec<Vec<u8>> = (i..n.min(i + 3)).map(|j| wide_key(j).to_vec()).collect();
        if !exists || got != want {
            mism.push(json!(["wide_seek", format!("[{}] seek(entry {}) returned {} and the next entries are {:?}, expected true and {:?}", stage, i, exists, got, want)]));
        }
        // seek to an absent key right after entry i (5 bytes): not found, positioned at a neighbour
        let mut absent = wide_key(i).to_vec();
        absent.push(0);
        let mut c = b.cursor();
        let exists = c.seek(absent.as_slice());
        let got: Vec<Vec<u8>> = c.by_ref().take(2).map(|d| d.key().to_vec()).collect();
        let succ: Vec<Vec<u8>> = (i + 1..n.min(i + 3)).map(|j| wide_key(j).to_vec()).collect();
        let pred: Vec<Vec<u8>> = (i..n.min(i + 2)).map(|j| wide_key(j).to_vec()).collect();
        if exists || !(got == succ || got == pred) {
            mism.push(json!(["wide_seek_absent", format!("[{}] seek(just after entry {}) returned {} and the next entries are {:?}", stage, i, exists, got)]));
        }
    }
    // ranges across the interesting slots
    for (lo, hi) in [(65530u32, 65545u32), (250, 260), (32760, 32775), (65535, 65537), (0, 3), (n - 3, n)] {
        *reads += 2;
        let got: Vec<Vec<u8>> = b.range(wide_key(lo).as_slice()..wide_key(hi).as_slice()).map(|d| d.key().to_vec()).collect();
        let want: Vec<Vec<u8>> = (lo..hi.min(n)).map(|j| wide_key(j).to_vec()).collect();
        if got != want {
            mism.push(json!(["wide_range", format!("[{}] range(entry {} .. entry {}) yields {} entries starting {:?}, expected {} starting {:?}", stage, lo, hi, got.len(), got.first(), want.len(), want.first())]));
        }
        let got: Vec<Vec<u8>> = b.range(wide_key(lo).as_slice()..).take(4).map(|d| d.key().to_vec()).collect();
        let want: Vec<Vec<u8>> = (lo..n.min(lo + 4)).map(|j| wide_key(j).to_vec()).collect();
        if got != want {
            mism.push(json!(["wide_range", format!("[{}] range(entry {} ..) starts {:?}, expected {:?}", stage, lo, got, want)]));
        }
    }
    // the full scan: every entry once, ascending, and the end stays the end
    *reads += 1;
    let mut c = b.cursor();
    let mut count = 0u32;
    let mut bad: Option<String> = None;
    for d in c.by_ref() {
        if count >= n + 10 {
            bad = Some("the scan does not end".into());
            break;
        }
        if d.key() != wide_key(count) && bad.is_none() {
            bad = Some(format!("entry {} of the scan has key {:?}", count, d.key()));
        }
        count += 1;
    }
    if bad.is_none() && count != n {
        bad = Some(format!("the scan yields {} entries of {}", count, n));
    }
    if bad.is_none() && c.next().is_some() {
        bad = Some("next() after the end yields an entry".into());
    }
    if let Some(e) = bad {
        mism.push(json!(["wide_scan", format!("[{}] {}", stage, e)]));
    }
}

/// A tree more than 16 levels high: keys of 520 bytes (one or two per node at page size 1024), built by
/// one commit of `n` keys; point lookups, seeks and a scan inside a following write transaction and
/// in a read-only one.
pub fn run_deep(path: &str, n: u32) -> Value {
    let mut mism: Vec<Value> = vec![];
    let mut reads = 0u64;
    let key = |i: u32| -> Vec<u8> {
        let mut k = format!("{:08}", i).into_bytes();
        k.resize(520, b'k');
        k
    };
    let r = real::guarded(|| -> Result<(), String> {
        let _ = std::fs::remove_file(path);
        let cfg = Cfg::default();
        let db = cfg.open(path).map_err(|e| format!("{:?}", e))?;
        {
            let tx = db.tx(true).map_err(|e| format!("{:?}", e))?;
            let b = tx.create_bucket("b").map_err(|e| format!("{:?}", e))?;
            for i in 0..n {
                b.put(key(i), format!("v{}", i)).map_err(|e| format!("put {}: {:?}", i, e))?;
            }
            drop(b);
            tx.commit().map_err(|e| format!("commit: {:?}", e))?;
        }
        let bytes = crate::runner::read_db_file(path, 1024);
        let levels = crate::fileck::check(&bytes, 1024).map(|r| r.shape.0).unwrap_or(0);
        mism.retain(|_: &Value| true);
        for writable in [true, false] {
            let tx = db.tx(writable).map_err(|e| format!("{:?}", e))?;
            let b = tx.get_bucket("b").map_err(|e| format!("{:?}", e))?;
            if writable {
                b.put(key(n + 1), "late").map_err(|e| format!("{:?}", e))?;
            }
            let stage = if writable { "write transaction" } else { "read-only transaction" };
            for i in (0..n).step_by((n as usize / 300).max(1)) {
                reads += 2;
                match b.get_kv(key(i)) {
                    Some(kv) if kv.value() == format!("v{}", i).as_bytes() => {}
                    other => {
                        if mism.len() < 5 {
                            mism.push(json!(["deep_get", format!("[{} levels, {}] get_kv(entry {}) = {:?}", levels, stage, i, other.map(|kv| String::from_utf8_lossy(kv.value()).to_string()))]));
                        }
                    }
                }
                let mut c = b.cursor();
                let ex = c.seek(key(i));
                let first = c.next().map(|d| d.key().to_vec());
                if (!ex || first != Some(key(i))) && mism.len() < 5 {
                    mism.push(json!(["deep_seek", format!("[{} levels, {}] seek(entry {}) returned {} and the cursor yields {:?}", levels, stage, i, ex, first.map(|k| String::from_utf8_lossy(&k[..8]).to_string()))]));
                }
            }
            reads += 1;
            let cnt = b.cursor().count();
            let want = n as usize + if writable { 1 } else { 0 };
            if cnt != want {
                mism.push(json!(["deep_scan", format!("[{} levels, {}] the scan yields {} entries of {}", levels, stage, cnt, want)]));
            }
            drop(b);
            drop(tx);
        }
        if levels < 17 {
            mism.push(json!(["harness", format!("the deep tree has only {} levels", levels)]));
        }
        Ok(())
    });
    match r {
        Ok(Ok(())) => {}
        Ok(Err(e)) => mism.push(json!(["deep_error", e])),
        Err(p) => mism.push(json!([crate::runner::panic_class("deep_panic", &p), p])),
    }
    let _ = std::fs::remove_file(path);
    json!({"v": mism, "reads": reads, "nontrivial": reads, "levels": [0, 0, 0], "keys": n, "probes": 300})
}

/// One write transaction fills a bucket with 400 entries (one in-memory leaf of several hundred
/// entries) and then, at every position, overwrites and inserts neighbouring keys in every order:
/// new key then its existing successor, new key then its existing predecessor, existing key then
/// a new successor, the same key twice.  Compared with an ordered map after every pair.
fn wide_pairs(path: &str, reads: &mut u64, mism: &mut Vec<Value>) -> Result<(), String> {
    let _ = std::fs::remove_file(path);
    let db = Cfg::default().open(path).map_err(|e| format!("{:?}", e))?;
    let tx = db.tx(true).map_err(|e| format!("{:?}", e))?;
    let b = tx.create_bucket("p").map_err(|e| format!("{:?}", e))?;
    let mut model: std::collections::BTreeMap<Vec<u8>, Vec<u8>> = Default::default();
    let key = |n: u32| format!("k{:05}", n).into_bytes();
    for i in 0..400u32 {
        b.put(key(10 * i), format!("v{}", i)).map_err(|e| format!("{:?}", e))?;
        model.insert(key(10 * i), format!("v{}", i).into_bytes());
    }
    let mut put = |k: Vec<u8>, v: String, model: &mut std::collections::BTreeMap<Vec<u8>, Vec<u8>>| -> Result<(), String> {
        b.put(k.clone(), v.clone()).map_err(|e| format!("{:?}", e))?;
        model.insert(k, v.into_bytes());
        Ok(())
    };
    for i in 1..399u32 {
        match i % 4 {
            0 => {
                put(key(10 * i - 1), format!("n{}", i), &mut model)?;
                put(key(10 * i), format!("s{}", i), &mut model)?;
            }
            1 => {
                put(key(10 * i + 1), format!("n{}", i), &mut model)?;
                put(key(10 * i), format!("p{}", i), &mut model)?;
            }
            2 => {
                put(key(10 * i), format!("e{}", i), &mut model)?;
                put(key(10 * i + 1), format!("n{}", i), &mut model)?;
            }
            _ => {
                put(key(10 * i + 5), format!("a{}", i), &mut model)?;
                put(key(10 * i + 5), format!("b{}", i), &mut model)?;
            }
        }
        *reads += 2;
        let cnt = b.cursor().count();
        let got = b.get_kv(key(10 * i)).map(|kv| kv.value().to_vec());
        if (cnt != model.len() || got.as_ref() != model.get(&key(10 * i))) && mism.len() < 5 {
            mism.push(json!(["wide_pairs", format!("after the pair of puts around entry {} (pattern {}) inside the write transaction the scan yields {} entries (the map holds {}) and get returns {:?} (the map: {:?})", i, i % 4, cnt, model.len(), got.map(|v| String::from_utf8_lossy(&v).to_string()), model.get(&key(10 * i)).map(|v| String::from_utf8_lossy(v).to_string()))]));
        }
    }
    // one delete must remove the key for good
    for i in (4..399u32).step_by(4) {
        b.delete(key(10 * i)).map_err(|e| format!("delete: {:?}", e))?;
        model.remove(&key(10 * i));
        *reads += 1;
        if b.get_kv(key(10 * i)).is_some() && mism.len() < 5 {
            mism.push(json!(["wide_pairs", format!("entry {} was overwritten right after its new predecessor had been put, then deleted, and is still found", i)]));
        }
    }
    let scan: Vec<(Vec<u8>, Vec<u8>)> = b.kv_pairs().map(|kv| (kv.key().to_vec(), kv.value().to_vec())).collect();
    let want: Vec<(Vec<u8>, Vec<u8>)> = model.iter().map(|(k, v)| (k.clone(), v.clone())).collect();
    *reads += 1;
    if scan != want {
        mism.push(json!(["wide_pairs", format!("at the end of the write transaction the scan yields {} entries, the map holds {}", scan.len(), want.len())]));
    }
    drop(b);
    tx.commit().map_err(|e| format!("commit: {:?}", e))?;
    let tx = db.tx(false).map_err(|e| format!("{:?}", e))?;
    let b = tx.get_bucket("p").map_err(|e| format!("{:?}", e))?;
    let scan: Vec<(Vec<u8>, Vec<u8>)> = b.kv_pairs().map(|kv| (kv.key().to_vec(), kv.value().to_vec())).collect();
    *reads += 1;
    if scan != want {
        mism.push(json!(["wide_pairs", format!("after commit the scan yields {} entries, the map holds {}", scan.len(), want.len())]));
    }
    Ok(())
}

pub fn run_wide(path: &str) -> Value {
    let mut mism: Vec<Value> = vec![];
    let mut reads = 0u64;
    match real::guarded(|| wide_pairs(path, &mut reads, &mut mism)) {
        Ok(Ok(())) => {}
        Ok(Err(e)) => mism.push(json!(["wide_pairs_error", e])),
        Err(p) => mism.push(json!([crate::runner::panic_class("wide_pairs_panic", &p), p])),
    }
    let r = real::guarded(|| -> Result<(), String> {
        let _ = std::fs::remove_file(path);
        let cfg = Cfg::default();
        let db = cfg.open(path).map_err(|e| format!("{:?}", e))?;
        {
            let tx = db.tx(true).map_err(|e| format!("{:?}", e))?;
            let b = tx.create_bucket("b").map_err(|e| format!("{:?}", e))?;
            for i in 0..WIDE_N {
                b.put(wide_key(i), format!("v{}", i)).map_err(|e| format!("put {}: {:?}", i, e))?;
            }
            wide_probe(&b, "inside the filling write transaction", &mut reads, &mut mism);
            drop(b);
            tx.commit().map_err(|e| format!("commit: {:?}", e))?;
        }
        {
            let tx = db.tx(false).map_err(|e| format!("{:?}", e))?;
            let b = tx.get_bucket("b").map_err(|e| format!("{:?}", e))?;
            wide_probe(&b, "after commit", &mut reads, &mut mism);
        }
        drop(db);
        let db = cfg.open(path).map_err(|e| format!("reopen: {:?}", e))?;
        let tx = db.tx(false).map_err(|e| format!("{:?}", e))?;
        let b = tx.get_bucket("b").map_err(|e| format!("{:?}", e))?;
        wide_probe(&b, "after reopening", &mut reads, &mut mism);
        Ok(())
    });
    match r {
        Ok(Ok(())) => {}
        Ok(Err(e)) => mism.push(json!(["wide_error", e])),
        Err(p) => mism.push(json!([crate::runner::panic_class("wide_panic", &p), p])),
    }
    let _ = std::fs::remove_file(path);
    json!({"v": mism, "reads": reads, "nontrivial": reads, "levels": [0, 0, 0], "keys": WIDE_N, "probes": 17})
}

fn run_shape(sh: &Shape, path: &str) -> Value {
    if sh.name.starts_with("wide-leaf") {
        return run_wide(path);
    }
    if sh.name.starts_with("deep-tree") {
        return run_deep(path, 300_000);
    }
    let mut mism: Vec<Value> = vec![];
    let mut stats = ProbeStats::default();
    let mut levels = (0, 0, 0);
    let mut nkeys = 0usize;
    let mut nprobes = 0usize;
    let r = real::guarded(|| {
        let mut r = match Runner::new(path, sh.cfg.clone()) {
            Ok(r) => r,
            Err(e) => {
                mism.push(json!(["create_failed", e]));
                return;
            }
        };
        let fk = Oracles { fileck: true, ..Oracles::NONE };
        for a in &sh.setup {
            let v = r.step(a, &fk);
            for x in v {
                mism.push(json!([format!("setup:{}", x.class), x.detail]));
            }
            if r.poisoned {
                mism.push(json!(["setup_poisoned", "shape setup could not complete"]));
                return;
            }
        }
        levels = r.last_shape;
        let mut model = r.model.clone();
        let ops: Vec<Op> = sh.mid.iter().map(|o| o.to_op()).collect();
        let ops_ref: &'static Vec<Op> = Box::leak(Box::new(ops));
        let db = r.db();
        let tx = match db.tx(!sh.mid.is_empty()) {
            Ok(tx) => tx,
            Err(e) => {
                mism.push(json!(["tx_begin_error", format!("{:?}", e)]));
                return;
            }
        };
        for (i, op) in ops_ref.iter().enumerate() {
            let want = model.apply(op);
            let got = real::exec_op(&tx, op, false);
            if got != want {
                mism.push(json!(["mid_ret_mismatch", format!("mid-transaction op {} `{}` returned {:?}, model {:?}", i, sh.mid[i].to_json(), got, want)]));
            }
        }
        let m = match model.items.get(&blob("b")) {
            Some(Item::Bucket(m)) => m.clone(),
            _ => BucketM::default(),
        };
        if !model.items.contains_key(&blob("b")) {
            mism.push(json!(["harness", "shape has no bucket b"]));
            return;
        }
        nkeys = m.items.len();
        let probes = probe_keys(&m, &[]);
        nprobes = probes.len();
        let b = match tx.get_bucket("b") {
            Ok(b) => b,
            Err(e) => {
                mism.push(json!(["resolve", format!("get_bucket(b): {:?}", e)]));
                return;
            }
        };
        let mut out = vec![];
        let cfg = if sh.full { ProbeCfg::FULL } else { ProbeCfg { all_range_pairs: false, range_filters: true, extra_next: 3, reuse: 3, ..ProbeCfg::LIGHT } };
        real::probe_bucket(&b, &m, &probes, cfg, &mut stats, &mut out);
        for x in out {
            mism.push(json!([x.class, x.detail]));
        }
        // nested buckets of the shape get the light probe as well
        for (k, it) in &m.items {
            if let Item::Bucket(sm) = it {
                if let Ok(sb) = b.get_bucket(k.clone()) {
                    let sp = probe_keys(sm, &[]);
                    let mut out = vec![];
                    real::probe_bucket(&sb, sm, &sp, ProbeCfg::FULL, &mut stats, &mut out);
                    for x in out {
                        mism.push(json!([x.class, format!("nested bucket {}: {}", show(k), x.detail)]));
                    }
                }
            }
        }
    });
    if let Err(p) = r {
        mism.push(json!(["harness_panic", p]));
    }
    json!({"v": mism, "reads": stats.reads, "nontrivial": stats.nontrivial, "levels": [levels.0, levels.1, levels.2], "keys": nkeys, "probes": nprobes})
}

pub fn worker(idx: usize) {
    real::install_quiet_panic_hook();
    let scratch = report::scratch_dir();
    iosim::set_track_prefix(&scratch);
    let dir = format!("{}/e{}", scratch, idx);
    std::fs::create_dir_all(&dir).ok();
    let path = format!("{}/enumx.db", dir);
    let mut cache: Option<(String, Vec<Shape>)> = None;
    crate::pool::serve(|init, job, emit| {
        if cache.as_ref().map(|c| c.0 != init).unwrap_or(true) {
            let v: Value = serde_json::from_str(init).unwrap();
            let tier = if v["tier"].as_str() == Some("thorough") { Tier::Thorough } else { Tier::Quick };
            cache = Some((init.to_string(), shapes(tier)));
        }
        if job.trim() == "wide" {
            emit("wide");
            return run_wide(&path).to_string();
        }
        if job.trim() == "deep" {
            emit("deep");
            return run_deep(&path, 300_000).to_string();
        }
        let shs = &cache.as_ref().unwrap().1;
        let i: usize = job.trim().parse().unwrap();
        emit(&format!("{}", i));
        run_shape(&shs[i], &path).to_string()
    });
}

pub fn run(check: &mut Check) {
    let tier = check.tier;
    let shs = shapes(tier);
    let scratch = report::scratch_dir();
    std::env::set_var("VCHECK_ENTROPY_SEED", check.seed.max(1).to_string());
    let init = json!({"tier": tier.name()}).to_string();
    let mut pool = Pool::new("enumx", &init, report::ncpu(), &scratch);
    let jobs: Vec<String> = (0..shs.len()).map(|i| i.to_string()).collect();
    let mut reads = 0u64;
    let mut nontrivial = 0u64;
    let mut results: Vec<(usize, Value)> = vec![];
    let mut died: Vec<(usize, String)> = vec![];
    pool.run(jobs, |ji, o| match o {
        Outcome::Done(r) => {
            if let Ok(v) = serde_json::from_str::<Value>(&r) {
                results.push((ji, v));
            }
        }
        other => died.push((ji, format!("{:?}", other))),
    });
    results.sort_by_key(|r| r.0);
    let mut shape_rows = vec![];
    for (ji, v) in &results {
        reads += v["reads"].as_u64().unwrap_or(0);
        nontrivial += v["nontrivial"].as_u64().unwrap_or(0);
        let sh = &shs[*ji];
        if shape_rows.len() < 60 {
            shape_rows.push(json!({"shape": sh.name, "levels_leaves_branches": v["levels"], "keys": v["keys"], "probe_keys": v["probes"], "api_calls": v["reads"], "mid_tx": !sh.mid.is_empty()}));
        }
        for x in v["v"].as_array().cloned().unwrap_or_default() {
            let class = x[0].as_str().unwrap_or("").to_string();
            let detail = format!("[shape {}] {}", sh.name, x[1].as_str().unwrap_or(""));
            check.violation(&format!("read:{}", class), &detail, || json!({"engine": "enumx", "tier": tier.name(), "seed": check_seed(), "shape": sh.name, "shape_index": ji, "setup": sh.setup.iter().map(|a| a.to_json()).collect::<Vec<_>>(), "mid_tx_ops": sh.mid.iter().map(|o| o.to_json()).collect::<Vec<_>>(), "pagesize": sh.cfg.pagesize}));
        }
    }
    for (ji, d) in died {
        let sh = &shs[ji];
        check.violation("process_death", &format!("[shape {}] worker died or hung: {}", sh.name, d), || json!({"engine": "enumx", "tier": tier.name(), "shape": sh.name, "shape_index": ji}));
    }
    check.sample(json!({"shape": shs[shs.len() / 2].name, "setup": shs[shs.len() / 2].setup.iter().map(|a| a.to_json()).collect::<Vec<_>>(), "mid_tx_ops": shs[shs.len() / 2].mid.iter().map(|o| o.to_json()).collect::<Vec<_>>()}));
    check.sample(json!({"query_kinds": ["get/get_kv of every probe key", "full scan + 3 extra next()", "buckets()/kv_pairs()", "seek(probe) + iterate to exhaustion + 3 extra next()", "range((lo_kind probe_i, hi_kind probe_j)) for all i, j and all 9 kind pairs, each also through to_buckets()/to_kv_pairs()"]}));
    check.cov("evaluations", json!(reads));
    check.cov("distinct_nontrivial", json!(nontrivial));
    check.cov("rule", json!("one evaluation = one read-API call sequence (get, scan, seek+iterate, range+iterate, filtered range) on one bucket shape, compared with the reference filter of the reference ordered map; (shape, query) pairs are distinct by construction; non-trivial = the expected answer is a non-empty list of entries"));
    check.cov("shapes", json!(shs.len()));
    check.cov("shape_table_first_60", json!(shape_rows));
    check.cov("exhaustive", json!(true));
    check.cov("worker_restarts", json!(pool.restarts));
}

/// The wide-leaf probe alone, in a worker process (used by C07 next to its history search).
pub fn run_wide_check(check: &mut Check) {
    let scratch = report::scratch_dir();
    let init = json!({"tier": check.tier.name()}).to_string();
    let mut pool = Pool::new("enumx", &init, 1, &scratch);
    pool.job_timeout = std::time::Duration::from_secs(300);
    let mut res: Option<Value> = None;
    let mut died: Option<String> = None;
    let mut jobs = vec!["wide".to_string()];
    if check.tier == Tier::Thorough {
        jobs.push("deep".to_string());
    }
    let mut res_deep: Option<Value> = None;
    pool.run(jobs, |ji, o| match o {
        Outcome::Done(r) => {
            if ji == 0 {
                res = serde_json::from_str::<Value>(&r).ok()
            } else {
                res_deep = serde_json::from_str::<Value>(&r).ok()
            }
        }
        other => died = Some(format!("{:?}", other)),
    });
    if let Some(v) = res_deep {
        let tier2 = check.tier;
        for x in v["v"].as_array().cloned().unwrap_or_default() {
            let class = x[0].as_str().unwrap_or("").to_string();
            check.violation(&format!("read:{}", class), &format!("[300 000 keys of 520 bytes] {}", x[1].as_str().unwrap_or("")), || json!({"engine": "enumx", "tier": tier2.name(), "shape": "deep-tree-300000-keys-of-520-bytes", "deep": true}));
        }
        check.cov("deep_tree.api_calls", v["reads"].clone());
    }
    let tier = check.tier;
    if let Some(d) = died {
        check.violation("process_death", &format!("[wide leaf] worker died or hung: {}", d), || json!({"engine": "enumx", "tier": tier.name(), "shape": "wide-leaf", "wide": true}));
    }
    if let Some(v) = res {
        for x in v["v"].as_array().cloned().unwrap_or_default() {
            let class = x[0].as_str().unwrap_or("").to_string();
            check.violation(&format!("read:{}", class), &format!("[{} entries put by one write transaction] {}", WIDE_N, x[1].as_str().unwrap_or("")), || json!({"engine": "enumx", "tier": tier.name(), "shape": "wide-leaf", "wide": true}));
        }
        check.cov("wide_leaf.entries", json!(WIDE_N));
        check.cov("wide_leaf.api_calls", v["reads"].clone());
    }
}

fn check_seed() -> u64 {
    std::env::var("VERIF_SEED").ok().and_then(|s| s.parse().ok()).unwrap_or(1)
}

pub fn replay(v: &Value) -> i32 {
    real::install_quiet_panic_hook();
    let scratch = report::scratch_dir();
    iosim::set_track_prefix(&scratch);
    let tier = if v["tier"].as_str() == Some("thorough") { Tier::Thorough } else { Tier::Quick };
    let shs = shapes(tier);
    let name = v["shape"].as_str().unwrap_or("");
    let code = match shs.iter().find(|s| s.name == name || (name == "wide-leaf" && s.name.starts_with("wide-leaf"))) {
        Some(sh) => {
            let r = run_shape(sh, &format!("{}/replay.db", scratch));
            let vs = r["v"].as_array().cloned().unwrap_or_default();
            println!("shape {}: {} API calls, {} mismatch classes", name, r["reads"], vs.len());
            for x in &vs {
                println!("   !! {}: {}", x[0].as_str().unwrap_or(""), x[1].as_str().unwrap_or(""));
            }
            if vs.is_empty() {
                0
            } else {
                1
            }
        }
        None => {
            println!("unknown shape {}", name);
            2
        }
    };
    report::cleanup_scratch(&scratch);
    code
}
