//! E3 faultx (C11): for every I/O call a commit issues, that call failing (errno, or short write
//! then errno), then further transactions on the same handle and a reopen.

use serde_json::{json, Value};

use crate::crashx::{scripts, Script};
use crate::iosim::{self, Fault, FaultMode, Kind};
use crate::pool::{Outcome, Pool};
use crate::real;
use crate::refmodel::{BucketM, OpSpec};
use crate::report::{self, Check, Tier};
use crate::runner::{Action, Oracles, Runner, Violation};

#[derive(Clone, Debug, PartialEq)]
pub struct FaultSpec {
    pub call: u64,
    pub mode: String,
}

pub fn modes_for(kind: Kind, arg_len: usize) -> Vec<(&'static str, FaultMode)> {
    match kind {
        Kind::Write => {
            let mut v = vec![("EIO", FaultMode::Errno(libc::EIO)), ("ENOSPC", FaultMode::Errno(libc::ENOSPC)), ("short-half-then-EIO", FaultMode::ShortThenErrno((arg_len / 2).max(1), libc::EIO))];
            if arg_len > 512 {
                v.push(("short-sector-then-EIO", FaultMode::ShortThenErrno(512, libc::EIO)));
            }
            if arg_len > 72 {
                // cut inside the first record / element headers of the page (a torn header slot)
                v.push(("short-72-then-EIO", FaultMode::ShortThenErrno(72, libc::EIO)));
            }
            if arg_len > 104 {
                // just past the header record / first elements
                v.push(("short-104-then-ENOSPC", FaultMode::ShortThenErrno(104, libc::ENOSPC)));
            }
            v
        }
        Kind::Fsync => vec![("EIO", FaultMode::Errno(libc::EIO))],
        Kind::Fallocate => vec![("ENOSPC", FaultMode::Errno(libc::ENOSPC)), ("EFBIG", FaultMode::Errno(libc::EFBIG))],
        Kind::Lseek => vec![("EIO", FaultMode::Errno(libc::EIO))],
        Kind::Stat => vec![("EIO", FaultMode::Errno(libc::EIO))],
        Kind::Mmap => vec![("ENOMEM", FaultMode::Errno(libc::ENOMEM))],
        Kind::Ftruncate => vec![("EFBIG", FaultMode::Errno(libc::EFBIG))],
        _ => vec![],
    }
}

fn mode_by_name(kind: Kind, name: &str, arg_len: usize) -> Option<FaultMode> {
    modes_for(kind, arg_len).into_iter().find(|m| m.0 == name).map(|m| m.1)
}

fn followups() -> Vec<Action> {
    let mut big = vec![OpSpec::bucket("goc", &[], "fu")];
    for i in 0..8 {
        big.push(OpSpec::put(&["fu"], &format!("f{}", i), "w*300"));
    }
    big.push(OpSpec::put(&["fu"], "ovf", "L*5000"));
    vec![
        Action::Tx { ops: vec![OpSpec::bucket("goc", &[], "fu"), OpSpec::put(&["fu"], "first", "v*8")], commit: true },
        Action::Tx { ops: big, commit: true },
        Action::Tx { ops: vec![OpSpec::del(&["fu"], "f1"), OpSpec::del(&["fu"], "f3"), OpSpec::del(&["fu"], "ovf"), OpSpec::put(&["fu"], "first", "w*300")], commit: true },
    ]
}

pub struct CaseOut {
    pub kinds: Vec<Kind>,
    pub violations: Vec<Violation>,
    pub outcome: &'static str,
}

/// Runs script[..step], then script[step] with the fault (or counting only), then the follow-ups.
/// `second`: optional second fault, injected into the follow-up commit `second.0`.
pub fn run_case(script: &Script, path: &str, step: usize, fault: Option<Fault>, second: Option<(usize, Fault)>) -> CaseOut {
    run_case_r(script, path, step, fault, second, false)
}

/// `with_reader`: a read transaction opened on the pre-state right before the target commit stays
/// open across the failure and the follow-up transactions and must keep showing that state.
pub fn run_case_r(script: &Script, path: &str, step: usize, fault: Option<Fault>, second: Option<(usize, Fault)>, with_reader: bool) -> CaseOut {
    run_case_x(script, path, step, fault, second, with_reader, false)
}

/// `rollback_first`: right after the failed commit a write transaction is begun and abandoned
/// (and a read-only one is opened and closed) before the follow-up commits.
pub fn run_case_x(script: &Script, path: &str, step: usize, fault: Option<Fault>, second: Option<(usize, Fault)>, with_reader: bool, rollback_first: bool) -> CaseOut {
    run_case_y(script, path, step, fault, second, with_reader, rollback_first, 0)
}

/// `extras` bit 0: a reader is opened right after the failed commit and kept over the follow-ups
/// (it must stay frozen); bit 1: one more follow-up that needs more than one growth step (9.5 MB).
#[allow(clippy::too_many_arguments)]
pub fn run_case_y(script: &Script, path: &str, step: usize, fault: Option<Fault>, second: Option<(usize, Fault)>, with_reader: bool, rollback_first: bool, extras: u8) -> CaseOut {
    let mut out = CaseOut { kinds: vec![], violations: vec![], outcome: "none" };
    let mut r = match Runner::new(path, script.cfg.clone()) {
        Ok(r) => r,
        Err(e) => {
            out.violations.push(Violation::new("harness", e));
            return out;
        }
    };
    let two_ages = extras & 4 != 0 && step >= 1;
    for (ai, a) in script.actions[..step].iter().enumerate() {
        if two_ages && ai == step - 1 {
            // an older reader: it begins one commit before the reader of the pre-state
            r.step(&Action::OpenReader, &Oracles::NONE);
        }
        let v = r.step(a, &Oracles::NONE);
        if !v.is_empty() || r.poisoned {
            out.violations.push(Violation::new("harness", format!("script prefix failed: {:?}", v)));
            return out;
        }
    }
    let pre = r.model.clone();
    if with_reader {
        r.step(&Action::OpenReader, &Oracles::NONE);
    }
    match fault {
        Some(f) => r.fault_next_commit = Some(f),
        None => r.count_next_commit = true,
    }
    let v = r.step(&script.actions[step], &Oracles::NONE);
    out.kinds = r.last_commit_kinds.clone();
    out.violations.extend(v);
    if r.poisoned {
        return out;
    }
    let reader_between = extras & 1 != 0;
    let huge_followup = extras & 2 != 0;
    let full = Oracles { rets: true, dump_after: true, fileck: true, dbcheck: true, reopen_copy: true, readers_frozen: with_reader || reader_between, ..Oracles::NONE };
    if fault.is_none() {
        out.outcome = "no-fault";
        return out;
    }
    if !r.last_fault_fired {
        out.outcome = "fault-not-reached";
        return out;
    }
    // resolve pre / post right away on the same handle
    if let Some(post) = r.pending_post.take() {
        let db = r.db();
        let got = match real::guarded(|| db.tx(false).map(|tx| real::dump_tx(&tx))) {
            Ok(Ok(Ok(d))) => d,
            other => {
                out.violations.push(Violation::new("read_after_failed_commit", format!("cannot read on the same handle after the failed commit: {:?}", other.map(|x| x.map(|y| y.map(|_| ())))) ));
                return out;
            }
        };
        if got.same_contents(&pre) {
            out.outcome = "err-pre";
            r.model = pre.clone();
        } else if got.same_contents(&post) {
            out.outcome = "err-post";
            r.model = post.clone();
        } else {
            out.violations.push(Violation::new("half_applied", format!("after the failed commit the same handle shows neither the pre- nor the post-transaction state; vs pre: {}; vs post: {}", got.diff(&pre).unwrap_or_default(), got.diff(&post).unwrap_or_default())));
            return out;
        }
        // structural soundness right after the failure
        let bytes = r.file_bytes();
        match crate::fileck::check(&bytes, script.cfg.pagesize) {
            Ok(rep) => {
                if !rep.ok() {
                    out.violations.push(Violation::new("fileck_after_failure", format!("right after the failed commit: {}", rep.errors[0])));
                } else if !rep.contents.same_contents(&r.model) {
                    out.violations.push(Violation::new("fileck_after_failure", "right after the failed commit the file's newest valid header records a different state than the handle shows".to_string()));
                }
            }
            Err(e) => out.violations.push(Violation::new("fileck_after_failure", e)),
        }
    } else {
        out.outcome = "ok-despite-fault";
    }
    if reader_between {
        for mut x in r.step(&Action::OpenReader, &Oracles::NONE) {
            x.class = format!("reader_after_failure:{}", x.class);
            out.violations.push(x);
        }
    }
    if rollback_first {
        let drop_tx = Action::Tx { ops: vec![OpSpec::bucket("goc", &[], "fu"), OpSpec::put(&["fu"], "abandoned", "w*300"), OpSpec::put(&["fu"], "abandoned2", "x*1500")], commit: false };
        for mut x in r.step(&drop_tx, &full) {
            x.class = format!("rollback_after_failure:{}", x.class);
            out.violations.push(x);
        }
        for mut x in r.step(&Action::RoTx { ops: vec![] }, &full) {
            x.class = format!("reader_after_failure:{}", x.class);
            out.violations.push(x);
        }
        if r.poisoned {
            return out;
        }
    }
    // (first, if asked for: a commit crossing more than one growth step directly after the failure,
    // before any smaller commit has had the chance to map the file again)
    if huge_followup && !r.poisoned {
        let v = r.step(&Action::Tx { ops: vec![OpSpec::bucket("goc", &[], "fu"), OpSpec::put(&["fu"], "huge", "H*9500000")], commit: true }, &full);
        for mut x in v {
            x.class = format!("followup_huge:{}", x.class);
            x.detail = format!("a follow-up commit that needs more than one 8 MiB growth step, after the failed commit (outcome {}): {}", out.outcome, x.detail);
            out.violations.push(x);
        }
        if !r.poisoned {
            for mut x in r.step(&Action::RoTx { ops: vec![] }, &full) {
                x.class = format!("followup_huge:{}", x.class);
                out.violations.push(x);
            }
        }
        if r.poisoned {
            return out;
        }
    }
    // follow-up transactions on the same handle
    for (i, f) in followups().iter().enumerate() {
        if two_ages && i == 1 {
            // the older reader ends after the first writer that followed the failure has begun and
            // committed; the younger one stays over the remaining follow-ups
            for mut x in r.step(&Action::CloseReader(0), &Oracles::NONE) {
                x.class = format!("close_older_reader:{}", x.class);
                out.violations.push(x);
            }
        }
        if let Some((k, sf)) = &second {
            if *k == i {
                let pre2 = r.model.clone();
                r.fault_next_commit = Some(*sf);
                let v = r.step(f, &Oracles::NONE);
                out.violations.extend(v.into_iter().map(|mut x| {
                    x.class = format!("second_fault:{}", x.class);
                    x
                }));
                if r.poisoned {
                    return out;
                }
                if let Some(post2) = r.pending_post.take() {
                    let db = r.db();
                    match real::guarded(|| db.tx(false).map(|tx| real::dump_tx(&tx))) {
                        Ok(Ok(Ok(d))) if d.same_contents(&pre2) => r.model = pre2,
                        Ok(Ok(Ok(d))) if d.same_contents(&post2) => r.model = post2,
                        other => {
                            out.violations.push(Violation::new("second_fault:half_applied", format!("after the second failed commit neither state is shown: {:?}", other.map(|x| x.map(|y| y.map(|m| m.render()))))));
                            return out;
                        }
                    }
                }
                continue;
            }
        }
        let v = r.step(f, &full);
        for mut x in v {
            x.class = format!("followup{}:{}", i + 1, x.class);
            x.detail = format!("follow-up transaction {} on the same handle after the failed commit (outcome {}): {}", i + 1, out.outcome, x.detail);
            out.violations.push(x);
        }
        if r.poisoned {
            return out;
        }
    }
    // and after reopening
    if with_reader || reader_between {
        for mut x in r.step(&Action::CloseReader(0), &Oracles::NONE) {
            x.class = format!("close_reader:{}", x.class);
            out.violations.push(x);
        }
    }
    let v = r.step(&Action::Reopen, &full);
    for mut x in v {
        x.class = format!("reopen:{}", x.class);
        out.violations.push(x);
    }
    if !r.poisoned {
        let v = r.step(&Action::Tx { ops: vec![OpSpec::bucket("goc", &[], "fu"), OpSpec::put(&["fu"], "after-reopen", "w*300")], commit: true }, &full);
        for mut x in v {
            x.class = format!("after_reopen:{}", x.class);
            out.violations.push(x);
        }
    }
    out
}

/// Every write of the commit at `step` answered short once (half of it transferred, no error): the
/// commit must succeed and everything must be as after an undisturbed commit.
pub fn benign_short_writes(script: &Script, path: &str, step: usize) -> Vec<(usize, String, String)> {
    let mut out = vec![];
    let base = run_case(script, path, step, None, None);
    if !base.violations.is_empty() {
        return out;
    }
    for (ci, k) in base.kinds.iter().enumerate() {
        if *k != Kind::Write {
            continue;
        }
        let alen = arg_len_of(script, path, step, ci);
        for n in [alen / 2, 1, alen.saturating_sub(1)] {
            if n == 0 || n >= alen {
                continue;
            }
            let mut r = match Runner::new(path, script.cfg.clone()) {
                Ok(r) => r,
                Err(_) => return out,
            };
            let mut ok = true;
            for a in &script.actions[..step] {
                if !r.step(a, &Oracles::NONE).is_empty() || r.poisoned {
                    ok = false;
                    break;
                }
            }
            if !ok {
                continue;
            }
            r.fault_next_commit = Some(Fault::at(ci as u64, FaultMode::ShortOk(n)));
            let full = Oracles { rets: true, dump_after: true, fileck: true, dbcheck: true, reopen_copy: true, ..Oracles::NONE };
            for v in r.step(&script.actions[step], &full) {
                out.push((ci, format!("short_write_ok:{}", v.class), format!("write #{} of the commit transfers only {} of {} bytes (no error): {}", ci, n, alen, v.detail)));
            }
            if !r.poisoned {
                for v in r.step(&Action::Tx { ops: vec![OpSpec::bucket("goc", &[], "fu"), OpSpec::put(&["fu"], "after", "w*300")], commit: true }, &full) {
                    out.push((ci, format!("short_write_ok:followup:{}", v.class), format!("after a commit whose write #{} was answered short: {}", ci, v.detail)));
                }
            }
        }
    }
    out
}

fn arg_len_of(script: &Script, path: &str, step: usize, call: usize) -> usize {
    // length of the write at call index `call`, from a logged fault-free run
    let mut r = match Runner::new(path, script.cfg.clone()) {
        Ok(r) => r,
        Err(_) => return 0,
    };
    for a in &script.actions[..step] {
        r.step(a, &Oracles::NONE);
    }
    let (_, ev) = iosim::logged(|| r.step(&script.actions[step], &Oracles::NONE));
    // map: k-th tracked call -> event; events log only successful writes in order
    let mut idx = 0usize;
    for e in ev {
        let counted = matches!(e, iosim::IoEvent::Write { .. } | iosim::IoEvent::Fsync | iosim::IoEvent::Fallocate { .. } | iosim::IoEvent::Lseek | iosim::IoEvent::Stat | iosim::IoEvent::Mmap { .. } | iosim::IoEvent::Ftruncate { .. } | iosim::IoEvent::Flock { .. } | iosim::IoEvent::Open { .. } | iosim::IoEvent::Close);
        if !counted {
            continue;
        }
        if idx == call {
            if let iosim::IoEvent::Write { data, .. } = e {
                return data.len();
            }
            return 0;
        }
        idx += 1;
    }
    0
}

pub fn worker(idx: usize) {
    real::install_quiet_panic_hook();
    let scratch = report::scratch_dir();
    iosim::set_track_prefix(&scratch);
    let dir = format!("{}/f{}", scratch, idx);
    std::fs::create_dir_all(&dir).ok();
    let path = format!("{}/faultx.db", dir);
    crate::pool::serve(|init, job, emit| {
        let iv: Value = serde_json::from_str(init).unwrap();
        let tier = if iv["tier"].as_str() == Some("thorough") { Tier::Thorough } else { Tier::Quick };
        let j: Value = serde_json::from_str(job).unwrap();
        let si = j["script"].as_u64().unwrap() as usize;
        let step = j["step"].as_u64().unwrap() as usize;
        let pairs = j["pairs"].as_bool().unwrap_or(false);
        let path2 = path.clone();
        emit("count");
        let marker_path = format!("{}/marker-faultx-{}", scratch, idx);
        // everything for one commit runs on one fresh thread: same hash-map orders everywhere
        let r = crate::fresh::on_fresh_thread(move || {
            let scs = scripts(tier);
            let sc = &scs[si];
            let base = run_case(sc, &path2, step, None, None);
            let mut cases = 0u64;
            let mut viols: Vec<Value> = vec![];
            let mut outcomes: std::collections::BTreeMap<String, u64> = Default::default();
            if !base.violations.is_empty() {
                return json!({"err": format!("fault-free run failed: {:?}", base.violations)});
            }
            let kinds = base.kinds.clone();
            for (ci, k) in kinds.iter().enumerate() {
                let alen = if *k == Kind::Write { arg_len_of(sc, &path2, step, ci) } else { 0 };
                for (mname, mode) in modes_for(*k, alen) {
                    cases += 1;
                    let _ = std::fs::write(&marker_path, format!("{:<63}\n", format!("call {} {} {}", ci, k.name(), mname)));
                    let f = Fault::at(ci as u64, mode);
                    let out = run_case(sc, &path2, step, Some(f), None);
                    *outcomes.entry(format!("{}:{}", k.name(), out.outcome)).or_insert(0) += 1;
                    if out.kinds.len() < ci || (ci < out.kinds.len() && out.kinds[ci] != *k) {
                        viols.push(json!([ci, k.name(), mname, "nondeterministic_io", "the faulted run issued different calls than the counting run", Value::Null]));
                    }
                    for v in out.violations {
                        viols.push(json!([ci, k.name(), mname, v.class, v.detail, Value::Null]));
                    }
                    {
                        // the same case with an abandoned write transaction right after the failure
                        cases += 1;
                        let outx = run_case_x(sc, &path2, step, Some(f), None, false, true);
                        *outcomes.entry(format!("{}:{}+rollback", k.name(), outx.outcome)).or_insert(0) += 1;
                        for v in outx.violations {
                            viols.push(json!([ci, k.name(), mname, format!("with_rollback:{}", v.class), format!("(a write transaction is abandoned right after the failed commit) {}", v.detail), "rollback"]));
                        }
                    }
                    if sc.cfg.num_pages >= 64 {
                        // the same case with a reader that was opened before the failing commit
                        cases += 1;
                        let outr = run_case_r(sc, &path2, step, Some(f), None, true);
                        *outcomes.entry(format!("{}:{}+reader", k.name(), outr.outcome)).or_insert(0) += 1;
                        for v in outr.violations {
                            viols.push(json!([ci, k.name(), mname, format!("with_reader:{}", v.class), format!("(a reader opened before the failing commit is kept open) {}", v.detail), "reader"]));
                        }
                    }
                    if sc.cfg.num_pages >= 64 && step >= 1 && *k == Kind::Fsync {
                        // two readers of different ages opened before the failing commit; the older
                        // one ends after the first follow-up commit
                        cases += 1;
                        let outr = run_case_y(sc, &path2, step, Some(f), None, true, false, 4);
                        *outcomes.entry(format!("{}:{}+readers2", k.name(), outr.outcome)).or_insert(0) += 1;
                        for v in outr.violations {
                            viols.push(json!([ci, k.name(), mname, format!("with_two_readers:{}", v.class), format!("(two readers of different ages are open across the failing commit, the older one ends after the first follow-up commit) {}", v.detail), "readers2"]));
                        }
                    }
                    if *k == Kind::Mmap || *k == Kind::Fallocate || *k == Kind::Ftruncate {
                        // a failed growth step, then a commit that needs more than one step
                        cases += 1;
                        let outh = run_case_y(sc, &path2, step, Some(f), None, false, false, 2);
                        for v in outh.violations {
                            viols.push(json!([ci, k.name(), mname, format!("with_huge_followup:{}", v.class), v.detail, "huge"]));
                        }
                    }
                    // a second fault in a follow-up commit.  thorough: in the large second follow-up at
                    // each of its first 24 calls; every tier: after a first fault that hit a sync (the
                    // commits that may be half through), in the first and in the second follow-up
                    let mut second_sets: Vec<(usize, usize)> = vec![];
                    if pairs && kinds.len() <= 14 {
                        second_sets.push((1, 24));
                    }
                    // ... and after a write that was cut short (a torn page, possibly a torn header slot)
                    let torn_write = *k == Kind::Write && mname.starts_with("short-7") || *k == Kind::Write && mname.starts_with("short-half");
                    if (*k == Kind::Fsync || torn_write) && kinds.len() <= 14 {
                        second_sets.push((0, 14));
                        if !pairs && *k == Kind::Fsync {
                            second_sets.push((1, 14));
                        }
                    }
                    for (which, ncalls) in second_sets {
                        for cj in 0..ncalls {
                            cases += 1;
                            let f2 = Fault::at(cj as u64, FaultMode::Errno(libc::EIO));
                            let out2 = run_case(sc, &path2, step, Some(f), Some((which, f2)));
                            for v in out2.violations {
                                viols.push(json!([ci, k.name(), mname, v.class, v.detail, cj + 1000 * (which + 1)]));
                            }
                            if torn_write && which == 0 {
                                // the second failure is itself a write cut short (40 bytes: inside the page header
                                // and the first words of a record)
                                cases += 1;
                                let f3 = Fault::at(cj as u64, FaultMode::ShortThenErrno(40, libc::EIO));
                                let out4 = run_case(sc, &path2, step, Some(f), Some((which, f3)));
                                for v in out4.violations {
                                    viols.push(json!([ci, k.name(), mname, format!("second_short_write:{}", v.class), v.detail, cj + 1000 * (which + 1) + 50_000]));
                                }
                            }
                            if *k == Kind::Fsync && which == 0 && sc.cfg.num_pages >= 64 {
                                // the same with a reader opened between the two failures
                                cases += 1;
                                let out3 = run_case_y(sc, &path2, step, Some(f), Some((which, f2)), false, false, 1);
                                for v in out3.violations {
                                    viols.push(json!([ci, k.name(), mname, format!("reader_between_failures:{}", v.class), v.detail, cj + 1000 * (which + 1) + 100_000]));
                                }
                            }
                        }
                    }
                }
            }
            for (ci, class, detail) in benign_short_writes(sc, &path2, step) {
                cases += 1;
                viols.push(json!([ci, "write", "short-ok", class, detail, Value::Null]));
            }
            json!({"cases": cases, "calls": kinds.iter().map(|k| k.name()).collect::<Vec<_>>(), "v": viols, "outcomes": outcomes})
        });
        match r {
            Ok(v) => v.to_string(),
            Err(_) => json!({"err": "case thread panicked"}).to_string(),
        }
    });
}

pub fn run(check: &mut Check) {
    let tier = check.tier;
    let scs = scripts(tier);
    let scratch = report::scratch_dir();
    std::env::set_var("VCHECK_ENTROPY_SEED", check.seed.max(1).to_string());
    let init = json!({"tier": tier.name()}).to_string();
    let mut pool = Pool::new("faultx", &init, report::ncpu(), &scratch);
    pool.job_timeout = std::time::Duration::from_secs(600);
    let mut jobs = vec![];
    let mut meta = vec![];
    for (si, sc) in scs.iter().enumerate() {
        // the pair scripts of the kv alphabet are only used by the crash engine in full; here every 5th
        if sc.name.starts_with("kv2-") && si % (if tier == Tier::Quick { 12 } else { 1 }) != 0 {
            continue;
        }
        // the free-list boundary walk is a crash-engine script (its bulk commits have hundreds of
        // calls, and they grow the file, which the variants holding a reader on this thread cannot do)
        if sc.name.starts_with("flb-") {
            continue;
        }
        for (step, a) in sc.actions.iter().enumerate() {
            if !matches!(a, Action::Tx { commit: true, .. }) {
                continue;
            }
            let pairs = tier == Tier::Thorough && (!sc.name.starts_with("kv2-") || si % 9 == 0);
            jobs.push(json!({"script": si, "step": step, "pairs": pairs}).to_string());
            meta.push((si, step));
        }
    }
    let mut cases = 0u64;
    let mut commits = 0u64;
    let mut outcomes: std::collections::BTreeMap<String, u64> = Default::default();
    let mut found: Vec<(usize, usize, u64, String, String, String, String, Value)> = vec![];
    let mut errs = vec![];
    let mut call_rows = vec![];
    pool.run(jobs, |ji, o| {
        let (si, step) = meta[ji];
        match o {
            Outcome::Done(r) => {
                let v: Value = serde_json::from_str(&r).unwrap_or(Value::Null);
                if let Some(e) = v["err"].as_str() {
                    errs.push(format!("{} step {}: {}", scs[si].name, step, e));
                    return;
                }
                commits += 1;
                cases += v["cases"].as_u64().unwrap_or(0);
                if call_rows.len() < 40 {
                    call_rows.push(json!({"script": scs[si].name, "step": step, "calls": v["calls"]}));
                }
                if let Some(m) = v["outcomes"].as_object() {
                    for (k, c) in m {
                        *outcomes.entry(k.clone()).or_insert(0) += c.as_u64().unwrap_or(0);
                    }
                }
                for x in v["v"].as_array().cloned().unwrap_or_default() {
                    found.push((si, step, x[0].as_u64().unwrap_or(0), x[1].as_str().unwrap_or("").into(), x[2].as_str().unwrap_or("").into(), x[3].as_str().unwrap_or("").into(), x[4].as_str().unwrap_or("").into(), x[5].clone()));
                }
            }
            Outcome::Crashed { last_marker, status, stderr_tail } => {
                let m = last_marker.unwrap_or_default();
                let parts: Vec<&str> = m.split_whitespace().collect();
                let (call, kind, mode) = if parts.len() >= 4 && parts[0] == "call" { (parts[1].parse().unwrap_or(0), parts[2].to_string(), parts[3].to_string()) } else { (0, "?".to_string(), "?".to_string()) };
                found.push((si, step, call, kind, mode, "process_death".into(), format!("the process died ({}) while this fault case (or its follow-up transactions) was running; stderr: {}", status, stderr_tail), Value::Null));
            }
            Outcome::Timeout { last_marker } => {
                found.push((si, step, 0, "?".into(), "?".into(), "hang".into(), format!("no answer within the job timeout at {:?}", last_marker), Value::Null));
            }
        }
    });
    for e in errs {
        check.machinery_error(e);
    }
    found.sort_by(|a, b| (a.0, a.1, a.2, &a.4).cmp(&(b.0, b.1, b.2, &b.4)));
    for (si, step, call, kind, mode, class, detail, second) in found {
        let sc = &scs[si];
        check.violation(&class, &format!("[script {} commit at step {}: call #{} ({}) fails with {}{}] {}", sc.name, step, call, kind, mode, if second.is_null() || second.as_str().is_some() { String::new() } else { format!(", second fault EIO at call #{} of follow-up {}", second.as_u64().unwrap_or(0) % 1000, if second.as_u64().unwrap_or(0) < 1000 { 2 } else { (second.as_u64().unwrap_or(0) % 50_000) / 1000 }) }, detail), || {
            json!({"engine": "faultx", "tier": tier.name(), "script": sc.name, "script_index": si, "step": step, "call": call, "kind": kind, "mode": mode, "second": second, "actions": sc.actions.iter().map(|a| a.to_json()).collect::<Vec<_>>()})
        });
    }
    check.sample(json!({"script": scs[0].name, "step": 0, "fault": {"call": 3, "kind": "write", "mode": "short-half-then-EIO"}, "then": "3 follow-up transactions on the same handle, reopen, one more transaction"}));
    check.cov("evaluations", json!(cases));
    check.cov("distinct_nontrivial", json!(cases));
    check.cov("rule", json!("one evaluation = one (commit, failing call index, failure mode) triple replayed from an empty file on the real library: every I/O call the commit issues on the database fd (lseek, write, fsync, fallocate, mmap) fails in every mode of its kind (errno variants; for writes also short count then errno); all triples are distinct by construction and each one reaches its fault"));
    check.cov("commits", json!(commits));
    check.cov("outcomes_by_kind", json!(outcomes));
    check.cov("calls_per_commit_first_40", json!(call_rows));
    check.cov("exhaustive", json!(true));
    check.cov("worker_restarts", json!(pool.restarts));
}

pub fn replay(v: &Value) -> i32 {
    real::install_quiet_panic_hook();
    let scratch = report::scratch_dir();
    iosim::set_track_prefix(&scratch);
    let path = format!("{}/replay.db", scratch);
    let tier = if v["tier"].as_str() == Some("thorough") { Tier::Thorough } else { Tier::Quick };
    let si = v["script_index"].as_u64().unwrap_or(0) as usize;
    let step = v["step"].as_u64().unwrap_or(0) as usize;
    let call = v["call"].as_u64().unwrap_or(0);
    let kind = Kind::from_name(v["kind"].as_str().unwrap_or("write")).unwrap_or(Kind::Write);
    let mode_name = v["mode"].as_str().unwrap_or("EIO").to_string();
    let second = v["second"].as_u64();
    let two_readers = v["second"].as_str() == Some("readers2");
    let with_reader = v["second"].as_str() == Some("reader") || two_readers;
    let rollback_first = v["second"].as_str() == Some("rollback");
    let v_second_is_huge = v["second"].as_str() == Some("huge");
    let r = crate::fresh::on_fresh_thread(move || {
        let scs = scripts(tier);
        let sc = &scs[si];
        let base = run_case(sc, &path, step, None, None);
        println!("fault-free commit issues: {:?}", base.kinds.iter().map(|k| k.name()).collect::<Vec<_>>());
        if mode_name == "short-ok" {
            let v = benign_short_writes(sc, &path, step);
            for (ci, class, detail) in &v {
                println!("   !! [write #{}] {}: {}", ci, class, detail);
            }
            return if v.is_empty() { 0 } else { 1 };
        }
        let alen = if kind == Kind::Write { arg_len_of(sc, &path, step, call as usize) } else { 0 };
        let mode = match mode_by_name(kind, &mode_name, alen) {
            Some(m) => m,
            None => {
                println!("unknown mode");
                return 2;
            }
        };
        let f = Fault::at(call, mode);
        let huge = v_second_is_huge;
        let reader_between = second.map(|cj| cj >= 100_000).unwrap_or(false);
        let second_short = second.map(|cj| cj % 100_000 >= 50_000).unwrap_or(false);
        let second = second.map(|cj| cj % 50_000);
        let out = run_case_y(sc, &path, step, Some(f), second.map(|cj| { let m2 = if second_short { FaultMode::ShortThenErrno(40, libc::EIO) } else { FaultMode::Errno(libc::EIO) }; if cj >= 1000 { ((cj / 1000 - 1) as usize, Fault::at(cj % 1000, m2)) } else { (1usize, Fault::at(cj, m2)) } }), with_reader, rollback_first, (reader_between as u8) | ((huge as u8) << 1) | ((two_readers as u8) << 2));
        println!("outcome of the failed commit: {}", out.outcome);
        for x in &out.violations {
            println!("   !! {}: {}", x.class, x.detail);
        }
        if out.violations.is_empty() {
            0
        } else {
            1
        }
    });
    report::cleanup_scratch(&scratch);
    r.unwrap_or(2)
}

#[allow(dead_code)]
fn _unused(_: BucketM) {}
