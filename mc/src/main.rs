mod c03;
mod c09;
mod c10;
mod c13;
mod c13p;
mod compatx;
mod crashx;
mod drivers;
mod enumx;
mod faultx;
mod fileck;
mod fresh;
mod iosim;
mod isolate;
mod linear;
mod metax;
mod optx;
mod pool;
mod real;
mod refmodel;
mod report;
mod runner;
mod sched;
mod schedx;
mod seqx;

use report::{Check, Tier};

fn usage() -> ! {
    eprintln!("usage: vcheck check <Cxx> [--tier quick|thorough] | vcheck replay <file> | vcheck worker <engine> <idx>");
    std::process::exit(2)
}

fn main() {
    // before anything can create a HashMap on this thread
    if let Some(seed) = std::env::var("VCHECK_ENTROPY_SEED").ok().and_then(|s| s.parse::<u64>().ok()) {
        iosim::set_entropy_seed(seed.max(1));
    }
    let args: Vec<String> = std::env::args().collect();
    if args.len() < 2 {
        usage();
    }
    match args[1].as_str() {
        "worker" => {
            let engine = args.get(2).cloned().unwrap_or_default();
            let idx: usize = args.get(3).and_then(|s| s.parse().ok()).unwrap_or(0);
            match engine.as_str() {
                "seqx" => seqx::worker(idx),
                "enumx" => enumx::worker(idx),
                "metax" => metax::worker(idx),
                "crashx" => crashx::worker(idx),
                "faultx" => faultx::worker(idx),
                "schedx" => schedx::worker(idx),
                "c10laps" => c10::lap_worker(idx),
                "optx" => optx::worker(idx),
                _ => usage(),
            }
        }
        "c13p-run" => c13p::debug_run(&args[2..]),
        "golden-gen" => std::process::exit(compatx::generate()),
        "bench" => bench(),
        "dbg" => debug_bisim(),
        "dbg-flb" => {
            // prints the length of the persisted free list after every commit of the boundary walk
            real::install_quiet_panic_hook();
            let scratch = report::scratch_dir();
            iosim::set_track_prefix(&scratch);
            let p: u64 = args.get(2).and_then(|s| s.parse().ok()).unwrap_or(1024);
            let path = format!("{}/dbg.db", scratch);
            let cfg = runner::Cfg { pagesize: p, num_pages: 32, ..runner::Cfg::default() };
            let mut r = runner::Runner::new(&path, cfg.clone()).unwrap();
            let mut counts = vec![];
            let variant: u8 = args.get(3).and_then(|s| s.parse().ok()).unwrap_or(0);
            for a in optx::freelist_boundary_walk(p, variant) {
                r.step(&a, &runner::Oracles::NONE);
                if matches!(a, runner::Action::Tx { .. }) {
                    if let Ok(rep) = fileck::check(&r.file_bytes(), p) {
                        counts.push(rep.free.len());
                    }
                }
            }
            println!("{:?}", counts);
        }
        "bench-fresh" => bench_fresh(),
        "check" => {
            let id = args.get(2).cloned().unwrap_or_else(|| usage());
            let mut tier = match std::env::var("VERIF_TIER").as_deref() {
                Ok("thorough") => Tier::Thorough,
                _ => Tier::Quick,
            };
            let mut i = 3;
            while i < args.len() {
                if args[i] == "--tier" {
                    tier = if args.get(i + 1).map(|s| s.as_str()) == Some("thorough") { Tier::Thorough } else { Tier::Quick };
                    i += 1;
                }
                i += 1;
            }
            let scratch = report::scratch_dir();
            std::env::set_var("VCHECK_SCRATCH", &scratch);
            let code = run_check(&id, tier);
            report::cleanup_scratch(&scratch);
            std::process::exit(code);
        }
        "replay" => {
            let f = args.get(2).cloned().unwrap_or_else(|| usage());
            let v: serde_json::Value = serde_json::from_str(&std::fs::read_to_string(&f).expect("read replay file")).expect("replay json");
            if std::env::var("VCHECK_ENTROPY_SEED").is_err() {
                // re-exec with the seed in the environment so it is in force from the first instruction
                let seed = v["seed"].as_u64().unwrap_or(1).max(1);
                let st = std::process::Command::new(std::env::current_exe().unwrap()).args(&args[1..]).env("VCHECK_ENTROPY_SEED", seed.to_string()).status().expect("re-exec");
                std::process::exit(st.code().unwrap_or(2));
            }
            let code = match v["engine"].as_str() {
                Some("seqx") => seqx::replay(&v),
                Some("enumx") => enumx::replay(&v),
                Some("metax") => metax::replay(&v),
                Some("crashx") => crashx::replay(&v),
                Some("faultx") => faultx::replay(&v),
                Some("schedx") => schedx::replay(&v),
                Some("c10laps") => c10::replay_lap(&v),
                Some("optx") => optx::replay_odd(&v),
                _ => {
                    eprintln!("unknown engine in replay file");
                    2
                }
            };
            std::process::exit(code);
        }
        _ => usage(),
    }
}

fn run_check(id: &str, tier: Tier) -> i32 {
    match id {
        "C01" | "C03" | "C05" | "C06" | "C07" => {
            let mut c = Check::new(id, tier, "model_checking");
            c.assumptions = vec![
                "bounded: alphabets, transaction lengths and history depths as listed per scenario in coverage.scenarios".into(),
                "oracles: reference nested ordered map (refmodel) and the independent file parser (fileck) are trusted".into(),
                "strict profile: debug assertions and overflow checks on; tmpfs as the device; page size 1024".into(),
                "hash-map iteration order inside the library fixed by the entropy seed (VERIF_SEED)".into(),
            ];
            if id == "C05" {
                // the persisted free list walked one or two ids per commit across the capacity of one page,
                // reopened after every commit (first, while this process is still single-threaded)
                c.assumptions.push("plus long fixed histories (coverage.long_histories): the free list walked across the one-page capacity with a reopen after every commit, at page sizes 1024 and 2048 (thorough: also 4096)".into());
                let or = runner::Oracles { fileck: true, dbcheck: true, dump_after: true, ..runner::Oracles::NONE };
                let mut list = vec![];
                for p in if tier == Tier::Quick { vec![1024u64, 2048] } else { vec![1024u64, 2048, 4096] } {
                    for variant in 0..4u8 {
                        list.push((format!("free-list-boundary-walk-p{}-v{}", p, variant), runner::Cfg { pagesize: p, num_pages: 32, ..runner::Cfg::default() }, optx::freelist_boundary_walk(p, variant), or));
                    }
                }
                linear::run_histories(&mut c, list, "long_histories");
            }
            if id == "C03" {
                // (first, while this process is still single-threaded: each history runs in a forked copy)
                // long staged histories (a reader held over tens of commits)
                c.assumptions.push("plus staged histories in which one reader is held open over 8 to 66 (thorough: up to 260) commits while a second, younger one outlives it (coverage.long_histories)".into());
                let or = runner::Oracles { readers_frozen: true, dump_after: true, ..runner::Oracles::NONE };
                let mut list: Vec<(String, runner::Cfg, Vec<runner::Action>, runner::Oracles)> = c03::long_histories(tier).into_iter().map(|(n, cfg, acts)| (n, cfg, acts, or)).collect();
                // the persisted free list walked across the capacity of one page, with rolling readers
                for p in if tier == Tier::Quick { vec![1024u64] } else { vec![1024u64, 4096] } {
                    for variant in 0..4u8 {
                        list.push((format!("free-list-boundary-walk-with-readers-p{}-v{}", p, variant), runner::Cfg { pagesize: p, num_pages: 4 * ((p as usize - 32) / 8 + 100), ..runner::Cfg::default() }, linear::boundary_walk_with_readers(p, variant), or));
                    }
                }
                linear::run_histories(&mut c, list, "long_histories");
            }
            seqx::explore(&mut c, id, "seqx");
            if id == "C07" {
                // one leaf of more than 2^16 entries filled and read by a single write transaction
                c.assumptions.push(format!("plus one write transaction that puts {} entries into a fresh bucket and reads around slot numbers 2^7, 2^8, 2^15, 2^16 before it commits (coverage.wide_leaf.*)", enumx::WIDE_N));
                enumx::run_wide_check(&mut c);
            }
            if id == "C03" {
                // threaded supplement: a reader that begins inside another thread's commit
                c.assumptions.push("threaded supplement (coverage.threaded.*): one writer thread running chains of three commits against 1-2 reader threads under the controlled scheduler, all schedules up to two preemptions; scheduling points as in C04".into());
                c.cov_prefix = "threaded.".into();
                schedx::run(&mut c, "C03", schedx::c03_thread_case_infos(tier), &["free"]);
                c.cov_prefix.clear();
            }
            c.finish()
        }
        "C08" => {
            let mut c = Check::new(id, tier, "exploration");
            c.assumptions = vec![
                "bounded-exhaustive over inputs: every probe key and every pair of bounds of every kind for each shape in the catalogue (coverage.shapes)".into(),
                "the reference filter over the reference ordered map is the oracle; seek may position at the key or, if absent, at the predecessor or successor".into(),
                "strict profile (debug assertions, overflow checks); page size 1024 (quick), 1024 and 4096 (thorough)".into(),
            ];
            enumx::run(&mut c);
            c.finish()
        }
        "C02" => {
            let mut c = Check::new(id, tier, "fault_enumeration");
            c.assumptions = vec![
                "crash model: everything before the last completed fsync is durable; ops issued since then persist in any subset, a write may be torn at 512-byte sectors, the header write at 8-byte words; file length = max(durable length, persisted extensions, extent of persisted writes)".into(),
                "the write path is observed at the libc boundary (write/fsync/fallocate on the database fd) inside the harness process; tmpfs is the device".into(),
                "creation of a new file is not a commit and is outside the property".into(),
            ];
            crashx::run(&mut c);
            c.finish()
        }
        "C10" => {
            let mut c = Check::new(id, tier, "model_checking");
            c.assumptions = vec![
                "closure search: the state key leaves out the absolute transaction id, the header slot and every insertion counter (they enter behaviour only through order comparisons / not at all); pending lists and reader ids are expressed relative to the current id; merged pairs across different ids are cross-checked by comparing all one-step successors (coverage.scenarios[].successor_comparisons)".into(),
                "a workload whose reachable set closes has a bounded page high-water mark for all infinite runs over its alphabet; non-closure under the state cap is reported as exhaustive:false, not as a violation; budget 4 x largest snapshot + 16 pages is only a tripwire".into(),
                "long laps are specific deterministic histories (2 000 / 20 000 transactions), not samples".into(),
            ];
            {
                // (first, while this process is single-threaded) the persisted free list walked across the
                // one-page capacity with a reopen after every commit: no page may drop out of every category
                c.assumptions.push("plus the free-list boundary walks (four variants, reopen after every commit) judged by the independent page accounting (coverage.long_histories)".into());
                let or = runner::Oracles { fileck: true, dbcheck: true, ..runner::Oracles::NONE };
                let mut list = vec![];
                for p in if tier == Tier::Quick { vec![1024u64] } else { vec![1024u64, 4096] } {
                    for variant in 0..4u8 {
                        list.push((format!("free-list-boundary-walk-p{}-v{}", p, variant), runner::Cfg { pagesize: p, num_pages: 32, ..runner::Cfg::default() }, optx::freelist_boundary_walk(p, variant), or));
                    }
                }
                linear::run_histories(&mut c, list, "long_histories");
            }
            seqx::explore(&mut c, id, "seqx");
            let (txs, rows) = c10::run_laps(&mut c);
            c.cov("lap_transactions", serde_json::json!(txs));
            c.cov("laps", serde_json::json!(rows));
            // threaded supplement: writers that begin while another writer's transaction is open
            c.assumptions.push("threaded supplement (coverage.threaded.*): two writer threads and a reader thread under the controlled scheduler on a base with more than 40 free pages, all schedules up to two (thorough: three) preemptions; the page high-water mark must not move".into());
            c.cov_prefix = "threaded.".into();
            schedx::run(&mut c, "C10", schedx::c10_thread_case_infos(tier), &["free"]);
            c.cov_prefix.clear();
            c.finish()
        }
        "C16" => {
            let mut c = Check::new(id, tier, "exploration");
            c.assumptions = vec![
                "configurations: the full product {1024, 1032, 2048, 3000, 4096, 5000, 16384, 65536, 1 MiB} x {4, 32, 1000} x strict x populate; histories use key / value sizes that are fractions of the page size; direct_writes is outside the property".into(),
                "oracle: the reference model (so all configurations agree with each other), fileck, DB::check(); an unusual page size may be refused by a panic or Err at the builder or at open, anything else must work".into(),
            ];
            optx::run(&mut c);
            c.finish()
        }
        "C15" => {
            let mut c = Check::new(id, tier, "exploration");
            c.assumptions = vec![
                "golden files were generated once by this harness built against commit 0f60b35 (the pinned source plus the off-by-default verif-hooks guard, which does not touch the write path); they are stored run-length encoded under /verif/golden with the generating history".into(),
                "the legacy header is reconstructed from the golden header fields with an independent SHA3-256 (the real 0.10 writer is not available offline)".into(),
                "fileck encodes the pinned layout constants and is the write-side oracle".into(),
            ];
            compatx::run(&mut c);
            c.finish()
        }
        "C04" => {
            let mut c = Check::new(id, tier, "model_checking");
            c.assumptions = vec![
                "bounded: one writer thread (chains of 2-4 commits from a menu of six bodies of different dirty-set sizes), in three cases a second writer thread with a commuting chain, against 1-2 reader threads; all schedules up to the preemption bound given per case".into(),
                "scheduling points: acquisition of every library lock (verif-hooks lock seam), every write/fsync/fallocate/mmap/flock/close on the database fd, every load / store of the library's one atomic (the free-list transaction tag, through the second hooks commit), a harness yield before every bucket a reader scans and between its dumps; the library has no other lock-free sharing on the transaction paths".into(),
                "std::sync::RwLock explored under both a policy-free and a writer-preferring model".into(),
            ];
            schedx::run(&mut c, "C04", schedx::c04_case_infos(tier), if tier == Tier::Quick { &["free"] } else { &["free", "wp"] });
            c.finish()
        }
        "C09" => {
            let mut c = Check::new(id, tier, "model_checking");
            c.assumptions = vec![
                "bounded: 1-3 writer threads (read-modify-write increment of one counter) with 0-2 reader threads, each thread holding at most one transaction; all schedules up to the preemption bound given per case; fresh 4-page files so that the first commit grows and remaps the file".into(),
                "scheduling points: every library lock acquisition, every load / store of the library's atomic, every system call on the database fd, harness yields inside the read-modify-write and between a reader's reads; deadlock = no enabled thread while some are unfinished (the scheduler owns the lock model)".into(),
                "std::sync::RwLock explored under a policy-free and a writer-preferring model".into(),
            ];
            schedx::run(&mut c, "C09", c09::case_infos(tier), &["free", "wp"]);
            c.finish()
        }
        "C13" => {
            let mut c = Check::new(id, tier, "model_checking");
            c.assumptions = vec![
                "thread cases: openers are threads of one process, each with its own descriptor, mapping and DBInner (flock locks belong to the open file description, so two independent DB::open calls in one process conflict exactly as two processes do; the library has no process-wide state); flock is a scheduler-modelled lock there".into(),
                "process cases (labels processes-*): openers are forked child processes stopped before every system call on the database file and released one at a time through pipes; flock is the kernel's (a blocking request is made as a non-blocking attempt when the opener is released, 'would block' disables the opener until another one unlocks, closes or exits); same oracle; this binds the scheduler's flock model to the real semantics".into(),
                "scheduling points at every interposed system call of the open / initialise / commit / close path (open, fallocate, write, fsync, flock, mmap, close) plus lock acquisitions and one harness yield while holding the database; flock is a scheduler-modelled lock keyed by inode, released at close".into(),
                "bounded: 2 and 3 openers, all schedules up to the preemption bound given per case; varied start offsets / hold times of the property text are subsumed by the schedule enumeration".into(),
            ];
            schedx::run(&mut c, "C13", c13::case_infos(tier), &["free"]);
            c.finish()
        }
        "C11" => {
            let mut c = Check::new(id, tier, "fault_enumeration");
            c.assumptions = vec![
                "faults are injected at the libc boundary of the harness process (lseek/write/fsync/fallocate/mmap on the database fd); a file-size limit is modelled as fallocate/write failing with EFBIG/ENOSPC".into(),
                "single faults exhaustively for every call of every target commit; pairs (thorough) = first fault x EIO at each call of the large follow-up commit".into(),
                "after the failed commit: same-handle read, 3 follow-up transactions (the second reuses free pages), reopen, one more transaction, each judged by refmodel + fileck + DB::check()".into(),
            ];
            faultx::run(&mut c);
            c.finish()
        }
        "C12" => {
            let mut c = Check::new(id, tier, "fault_enumeration");
            c.assumptions = vec![
                "exactly one of the two header pages is damaged; the other one and all data pages are intact; the file was closed cleanly before the damage".into(),
                "expected header = the valid one with the higher transaction id according to the independent checker (type byte + FNV-1a / SHA3 checksum restated in fileck)".into(),
                "damage classes are bounded (see coverage.rule); random multi-byte overwrites of the property text are replaced by the exhaustive structured classes".into(),
            ];
            metax::run(&mut c);
            c.finish()
        }
        _ => {
            eprintln!("no check for {}", id);
            2
        }
    }
}

#[allow(dead_code)]
pub fn bench() {
    use std::time::Instant;
    real::install_quiet_panic_hook();
    let scratch = report::scratch_dir();
    iosim::set_track_prefix(&scratch);
    let path = format!("{}/bench.db", scratch);
    let scs = drivers::scenarios("C01", Tier::Quick);
    let sc = scs.iter().find(|s| s.name == "subset-2level-n9-nested").unwrap();
    let n = 2000;
    let mut t_new = 0.0; let mut t_setup = 0.0; let mut t_step = 0.0; let mut t_digest = 0.0; let mut t_drop = 0.0; let mut t_thread=0.0;
    let none = runner::Oracles::NONE;
    for i in 0..n {
        let t = Instant::now();
        fresh::on_fresh_thread(||{ let mut m=std::collections::HashMap::new(); m.insert(1,2); m.len() }).unwrap();
        t_thread += t.elapsed().as_secs_f64();
        let t = Instant::now();
        let mut r = runner::Runner::new(&path, sc.cfg.clone()).unwrap();
        t_new += t.elapsed().as_secs_f64();
        let t = Instant::now();
        for a in &sc.setup { r.step(a, &none); }
        t_setup += t.elapsed().as_secs_f64();
        let t = Instant::now();
        r.step(&sc.alphabet.get(i * 3 + 1), &sc.oracles);
        t_step += t.elapsed().as_secs_f64();
        let t = Instant::now();
        let _ = r.digest();
        t_digest += t.elapsed().as_secs_f64();
        let t = Instant::now();
        drop(r);
        t_drop += t.elapsed().as_secs_f64();
    }
    let f = 1e6 / n as f64;
    println!("us per iteration: thread {:.1} new {:.1} setup {:.1} step(with oracles) {:.1} digest {:.1} drop {:.1}", t_thread*f, t_new * f, t_setup * f, t_step * f, t_digest * f, t_drop * f);
    report::cleanup_scratch(&scratch);
}

#[allow(dead_code)]
pub fn debug_bisim() {
    use runner::*;
    real::install_quiet_panic_hook();
    let scratch = report::scratch_dir();
    iosim::set_track_prefix(&scratch);
    let scs = drivers::scenarios("C06", Tier::Quick);
    let sc = &scs[0];
    let path = format!("{}/dbg.db", scratch);
    for ai in 0..sc.alphabet.len() {
        let t = std::time::Instant::now();
        let mut r = Runner::new(&path, sc.cfg.clone()).unwrap();
        for a in &sc.setup { r.step(a, &Oracles::NONE); }
        let t1 = t.elapsed();
        let act = sc.alphabet.get(ai);
        let v = r.step(&act, &sc.oracles);
        let t2 = t.elapsed();
        let d = r.digest();
        let t3 = t.elapsed();
        let s = act.to_json().to_string();
        println!("{:3} setup {:?} step {:?} digest {:?} viol {} {}", ai, t1, t2 - t1, t3 - t2, v.len(), &s[..s.len().min(70)]);
    }
    report::cleanup_scratch(&scratch);
}

#[allow(dead_code)]
pub fn bench_fresh() {
    let t = std::time::Instant::now();
    for _ in 0..200 {
        fresh::on_fresh_thread(|| { let mut m = std::collections::HashMap::new(); m.insert(1, 2); m.len() }).unwrap();
    }
    println!("fresh thread: {:?} each", t.elapsed() / 200);
    let t = std::time::Instant::now();
    for _ in 0..200 {
        let p = fresh::on_fresh_thread(|| { for _ in 0..300 { let _ = std::collections::hash_map::RandomState::new(); } fresh::rs_probe() }).unwrap();
        fresh::on_fresh_thread(move || fresh::rs_seek(p)).unwrap();
    }
    println!("probe+seek pair: {:?} each", t.elapsed() / 200);
}
