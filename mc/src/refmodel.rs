//! Reference model: a nested ordered map with the documented semantics of jammdb's public API.
//! Deliberately boring.  I/O errors and resource exhaustion are not modelled.

use std::collections::BTreeMap;

use serde_json::{json, Value};

pub type Bytes = Vec<u8>;

#[derive(Clone, PartialEq, Eq, Debug, Hash)]
pub enum Item {
    Kv(Bytes),
    Bucket(BucketM),
}

#[derive(Clone, PartialEq, Eq, Debug, Default, Hash)]
pub struct BucketM {
    pub items: BTreeMap<Bytes, Item>,
    pub next_int: u64,
}

#[derive(Clone, Copy, PartialEq, Eq, Debug, Hash)]
pub enum ErrKind {
    BucketExists,
    BucketMissing,
    KeyValueMissing,
    IncompatibleValue,
    ReadOnlyTx,
    /// anything the model does not define (I/O, sync, invalid db, alloc)
    Other,
}

#[derive(Clone, PartialEq, Eq, Debug)]
pub enum Ret {
    /// delete_bucket succeeded
    Unit,
    /// put succeeded, previous pair if any
    Prev(Option<(Bytes, Bytes)>),
    /// delete succeeded, removed pair
    Removed(Bytes, Bytes),
    /// a bucket handle was returned; its insertion counter
    BucketOk(u64),
    Err(ErrKind),
    Panic(String),
}

/// Expands a blob spec: `"abc"` is literal, `"abc*300"` is `abc` padded to 300 bytes with a
/// pattern that depends on the base (so two different keys never share padding by accident).
pub fn blob(spec: &str) -> Bytes {
    // "0x80ff00": raw bytes
    if let Some(hex) = spec.strip_prefix("0x") {
        if hex.len() % 2 == 0 && hex.bytes().all(|c| c.is_ascii_hexdigit()) {
            return (0..hex.len() / 2).map(|i| u8::from_str_radix(&hex[2 * i..2 * i + 2], 16).unwrap()).collect();
        }
    }
    if let Some((base, n)) = spec.rsplit_once('*') {
        if let Ok(n) = n.parse::<usize>() {
            let mut v = base.as_bytes().to_vec();
            let s: usize = base.bytes().map(|b| b as usize).sum();
            let mut i = 0usize;
            while v.len() < n {
                v.push(b'a' + ((i + s) % 26) as u8);
                i += 1;
            }
            v.truncate(n.max(base.len()));
            return v;
        }
    }
    spec.as_bytes().to_vec()
}

/// Short printable rendering of a byte string (for messages and evidence samples).
pub fn show(b: &[u8]) -> String {
    let printable = b.iter().all(|c| (0x20..0x7f).contains(c));
    if b.len() <= 24 && printable {
        format!("{:?}", String::from_utf8_lossy(b))
    } else if printable {
        format!("{:?}..[{}B]", String::from_utf8_lossy(&b[..12]), b.len())
    } else {
        let hex: String = b.iter().take(12).map(|c| format!("{:02x}", c)).collect();
        format!("0x{}..[{}B]", hex, b.len())
    }
}

#[derive(Clone, PartialEq, Eq, Debug)]
pub enum Op {
    Put { path: Vec<Bytes>, key: Bytes, val: Bytes },
    Del { path: Vec<Bytes>, key: Bytes },
    Create { path: Vec<Bytes>, name: Bytes },
    GetB { path: Vec<Bytes>, name: Bytes },
    GetOrCreate { path: Vec<Bytes>, name: Bytes },
    DelB { path: Vec<Bytes>, name: Bytes },
}

impl Op {
    pub fn path(&self) -> &Vec<Bytes> {
        match self {
            Op::Put { path, .. }
            | Op::Del { path, .. }
            | Op::Create { path, .. }
            | Op::GetB { path, .. }
            | Op::GetOrCreate { path, .. }
            | Op::DelB { path, .. } => path,
        }
    }
    pub fn is_mutator(&self) -> bool {
        !matches!(self, Op::GetB { .. })
    }
}

/// Compact spec form of an op, e.g. `put b/x k01*300 = v*8`, used in JSON and messages.
#[derive(Clone, PartialEq, Eq, Debug)]
pub struct OpSpec {
    pub kind: String,
    pub path: Vec<String>,
    pub key: String,
    pub val: Option<String>,
}

impl OpSpec {
    pub fn put(path: &[&str], key: &str, val: &str) -> OpSpec {
        OpSpec { kind: "put".into(), path: path.iter().map(|s| s.to_string()).collect(), key: key.into(), val: Some(val.into()) }
    }
    pub fn del(path: &[&str], key: &str) -> OpSpec {
        OpSpec { kind: "del".into(), path: path.iter().map(|s| s.to_string()).collect(), key: key.into(), val: None }
    }
    pub fn bucket(kind: &str, path: &[&str], name: &str) -> OpSpec {
        OpSpec { kind: kind.into(), path: path.iter().map(|s| s.to_string()).collect(), key: name.into(), val: None }
    }
    pub fn to_op(&self) -> Op {
        let path: Vec<Bytes> = self.path.iter().map(|s| blob(s)).collect();
        let key = blob(&self.key);
        match self.kind.as_str() {
            "put" => Op::Put { path, key, val: blob(self.val.as_deref().unwrap_or("")) },
            "del" => Op::Del { path, key },
            "create" => Op::Create { path, name: key },
            "getb" => Op::GetB { path, name: key },
            "goc" => Op::GetOrCreate { path, name: key },
            "delb" => Op::DelB { path, name: key },
            k => panic!("unknown op kind {}", k),
        }
    }
    pub fn to_json(&self) -> Value {
        let mut s = format!("{} {}", self.kind, self.path.join("/"));
        s.push('|');
        s.push_str(&self.key);
        if let Some(v) = &self.val {
            s.push('|');
            s.push_str(v);
        }
        json!(s)
    }
    pub fn from_json(v: &Value) -> OpSpec {
        let s = v.as_str().expect("op spec string");
        let (kind, rest) = s.split_once(' ').expect("op kind");
        let mut parts = rest.splitn(3, '|');
        let path = parts.next().unwrap();
        let key = parts.next().expect("op key");
        let val = parts.next();
        OpSpec {
            kind: kind.to_string(),
            path: if path.is_empty() { vec![] } else { path.split('/').map(|s| s.to_string()).collect() },
            key: key.to_string(),
            val: val.map(|s| s.to_string()),
        }
    }
}

impl BucketM {
    pub fn resolve(&self, path: &[Bytes]) -> Result<&BucketM, ErrKind> {
        let mut cur = self;
        for name in path {
            match cur.items.get(name) {
                None => return Err(ErrKind::BucketMissing),
                Some(Item::Kv(_)) => return Err(ErrKind::IncompatibleValue),
                Some(Item::Bucket(b)) => cur = b,
            }
        }
        Ok(cur)
    }

    pub fn resolve_mut(&mut self, path: &[Bytes]) -> Result<&mut BucketM, ErrKind> {
        let mut cur = self;
        for name in path {
            match cur.items.get_mut(name) {
                None => return Err(ErrKind::BucketMissing),
                Some(Item::Kv(_)) => return Err(ErrKind::IncompatibleValue),
                Some(Item::Bucket(b)) => cur = b,
            }
        }
        Ok(cur)
    }

    /// Applies `op` in a *writable* transaction.  On error the model is unchanged.
    pub fn apply(&mut self, op: &Op) -> Ret {
        let b = match self.resolve_mut(op.path()) {
            Ok(b) => b,
            Err(e) => return Ret::Err(e),
        };
        match op {
            Op::Put { key, val, .. } => match b.items.get(key) {
                Some(Item::Bucket(_)) => Ret::Err(ErrKind::IncompatibleValue),
                Some(Item::Kv(old)) => {
                    let old = old.clone();
                    b.items.insert(key.clone(), Item::Kv(val.clone()));
                    Ret::Prev(Some((key.clone(), old)))
                }
                None => {
                    b.next_int += 1;
                    b.items.insert(key.clone(), Item::Kv(val.clone()));
                    Ret::Prev(None)
                }
            },
            Op::Del { key, .. } => match b.items.get(key) {
                None => Ret::Err(ErrKind::KeyValueMissing),
                Some(Item::Bucket(_)) => Ret::Err(ErrKind::IncompatibleValue),
                Some(Item::Kv(_)) => {
                    if let Some(Item::Kv(v)) = b.items.remove(key) {
                        Ret::Removed(key.clone(), v)
                    } else {
                        unreachable!()
                    }
                }
            },
            Op::Create { name, .. } => match b.items.get(name) {
                Some(Item::Bucket(_)) => Ret::Err(ErrKind::BucketExists),
                Some(Item::Kv(_)) => Ret::Err(ErrKind::IncompatibleValue),
                None => {
                    b.next_int += 1;
                    b.items.insert(name.clone(), Item::Bucket(BucketM::default()));
                    Ret::BucketOk(0)
                }
            },
            Op::GetB { name, .. } => match b.items.get(name) {
                Some(Item::Bucket(s)) => Ret::BucketOk(s.next_int),
                Some(Item::Kv(_)) => Ret::Err(ErrKind::IncompatibleValue),
                None => Ret::Err(ErrKind::BucketMissing),
            },
            Op::GetOrCreate { name, .. } => match b.items.get(name) {
                Some(Item::Bucket(s)) => Ret::BucketOk(s.next_int),
                Some(Item::Kv(_)) => Ret::Err(ErrKind::IncompatibleValue),
                None => {
                    b.next_int += 1;
                    b.items.insert(name.clone(), Item::Bucket(BucketM::default()));
                    Ret::BucketOk(0)
                }
            },
            Op::DelB { name, .. } => match b.items.get(name) {
                Some(Item::Bucket(_)) => {
                    b.items.remove(name);
                    Ret::Unit
                }
                Some(Item::Kv(_)) => Ret::Err(ErrKind::IncompatibleValue),
                None => Ret::Err(ErrKind::BucketMissing),
            },
        }
    }

    /// What a *read-only* transaction must answer for `op`.
    pub fn apply_ro(&self, op: &Op) -> Ret {
        // At the root, the writable check comes before anything else.  Below the root the path is
        // resolved first (through get_bucket, which is allowed), then the mutator refuses.
        let b = match self.resolve(op.path()) {
            Ok(b) => b,
            Err(e) => return Ret::Err(e),
        };
        match op {
            Op::GetB { name, .. } => match b.items.get(name) {
                Some(Item::Bucket(s)) => Ret::BucketOk(s.next_int),
                Some(Item::Kv(_)) => Ret::Err(ErrKind::IncompatibleValue),
                None => Ret::Err(ErrKind::BucketMissing),
            },
            _ => Ret::Err(ErrKind::ReadOnlyTx),
        }
    }

    /// Every bucket path in the model (root = empty path), depth first, ascending.
    pub fn bucket_paths(&self) -> Vec<Vec<Bytes>> {
        fn rec(b: &BucketM, cur: &mut Vec<Bytes>, out: &mut Vec<Vec<Bytes>>) {
            out.push(cur.clone());
            for (k, it) in &b.items {
                if let Item::Bucket(s) = it {
                    cur.push(k.clone());
                    rec(s, cur, out);
                    cur.pop();
                }
            }
        }
        let mut out = vec![];
        rec(self, &mut vec![], &mut out);
        out
    }

    pub fn count_items(&self) -> usize {
        self.items
            .values()
            .map(|it| match it {
                Item::Kv(_) => 1,
                Item::Bucket(b) => 1 + b.count_items(),
            })
            .sum()
    }

    /// Equality that ignores the root's own counter (not observable through the API).
    pub fn same_contents(&self, other: &BucketM) -> bool {
        self.items == other.items
    }

    pub fn render(&self) -> String {
        fn rec(b: &BucketM, out: &mut String) {
            out.push_str(&format!("{{#{} ", b.next_int));
            for (k, it) in &b.items {
                match it {
                    Item::Kv(v) => out.push_str(&format!("{}={} ", show(k), show(v))),
                    Item::Bucket(s) => {
                        out.push_str(&format!("{}:", show(k)));
                        rec(s, out);
                    }
                }
            }
            out.push('}');
        }
        let mut s = String::new();
        rec(self, &mut s);
        s
    }

    /// First difference between two models, for messages.
    pub fn diff(&self, other: &BucketM) -> Option<String> {
        fn rec(a: &BucketM, b: &BucketM, path: &str, top: bool) -> Option<String> {
            if !top && a.next_int != b.next_int {
                return Some(format!("{}: next_int {} vs {}", path, a.next_int, b.next_int));
            }
            let ka: Vec<_> = a.items.keys().collect();
            let kb: Vec<_> = b.items.keys().collect();
            if ka != kb {
                for k in &ka {
                    if !b.items.contains_key(*k) {
                        return Some(format!("{}: key {} only on left", path, show(k)));
                    }
                }
                for k in &kb {
                    if !a.items.contains_key(*k) {
                        return Some(format!("{}: key {} only on right", path, show(k)));
                    }
                }
            }
            for (k, ia) in &a.items {
                match (ia, &b.items[k]) {
                    (Item::Kv(x), Item::Kv(y)) => {
                        if x != y {
                            return Some(format!("{}/{}: value {} vs {}", path, show(k), show(x), show(y)));
                        }
                    }
                    (Item::Bucket(x), Item::Bucket(y)) => {
                        if let Some(d) = rec(x, y, &format!("{}/{}", path, show(k)), false) {
                            return Some(d);
                        }
                    }
                    _ => return Some(format!("{}/{}: kv vs bucket", path, show(k))),
                }
            }
            None
        }
        rec(self, other, "", true)
    }
}
