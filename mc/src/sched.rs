//! E2: stateless, preemption-bounded exploration of real threads running the real library.
//! A baton scheduler lets exactly one controlled thread run at a time.  Scheduling points are the
//! acquisition of every library lock (lock seam of the verif-hooks feature), every interposed
//! system call on the database file, and explicit harness yields / waits.  The scheduler owns the
//! lock model, so a thread is only released into an acquisition that cannot block, and "no thread
//! enabled while some are unfinished" is a deadlock.

use std::cell::Cell;
use std::collections::HashMap;
use std::sync::{Arc, Condvar, Mutex};

use jammdb::verif::{Hooks, LockId, Mode};

use crate::iosim::{IoSched, Kind};

/// errno a lock request answered from the interruption budget fails with
static INTERRUPT_ERRNO: std::sync::atomic::AtomicI32 = std::sync::atomic::AtomicI32::new(libc::EINTR);

#[derive(Clone, Copy, PartialEq, Eq, Debug)]

pub enum RwPolicy {
    /// a read is enabled iff no writer holds the lock
    PolicyFree,
    /// additionally a read is disabled while a write request is pending (Linux futex RwLock)
    WriterPreferring,
}

#[derive(Clone, Debug, PartialEq)]
pub enum Op {
    Start,
    Yield(&'static str),
    Acquire(LockId, Mode),
    Flock { ino: u64, fd: i32, shared: bool },
    Io(Kind),
    Await(usize),
}

impl Op {
    pub fn describe(&self) -> String {
        match self {
            Op::Start => "start".into(),
            Op::Yield(s) => format!("yield:{}", s),
            Op::Acquire(l, m) => format!("{:?}:{}", m, short_payload(l.payload)),
            Op::Flock { .. } => "flock".into(),
            Op::Io(k) => format!("io:{}", k.name()),
            Op::Await(i) => format!("await:{}", i),
        }
    }
}

fn short_payload(p: &str) -> String {
    p.rsplit("::").next().unwrap_or(p).trim_end_matches('>').to_string()
}

#[derive(Clone, Debug)]
pub struct PointRec {
    /// thread ids enabled at this point, canonical order (running thread first if enabled)
    pub enabled: Vec<u8>,
    pub running_enabled: bool,
    pub chosen: u8,
    pub op: String,
}

#[derive(Default)]
struct LockState {
    mutex_holder: Option<usize>,
    writer: Option<usize>,
    readers: Vec<usize>,
}

struct ThreadState {
    pending: Option<Op>,
    finished: bool,
    registered: bool,
}

struct State {
    threads: Vec<ThreadState>,
    running: Option<usize>,
    locks: HashMap<usize, LockState>,
    /// holders of the advisory lock per inode: (thread, descriptor, shared)
    flocks: HashMap<u64, Vec<(usize, i32, bool)>>,
    flags: Vec<bool>,
    prefix: Vec<u8>,
    points: Vec<PointRec>,
    aborted: bool,
    deadlock: Option<String>,
    diverged: Option<String>,
    policy: RwPolicy,
    active: bool,
    max_points: usize,
    /// how many blocking lock requests may still be answered with EINTR in this execution
    eintr_budget: usize,
    /// lock requests the model granted and the kernel refused (see `flock_denied_by_kernel`)
    kernel_denials: u64,
    interrupted: Vec<bool>,
}

pub struct Sched {
    state: Mutex<State>,
    cv: Condvar,
}

thread_local! {
    static TID: Cell<Option<usize>> = const { Cell::new(None) };
}

/// Payload used to unwind a controlled thread when the execution is aborted.
pub struct AbortExecution;

pub struct SchedHooks;
pub static SCHED_HOOKS: SchedHooks = SchedHooks;

impl Hooks for SchedHooks {
    fn before_acquire(&self, lock: LockId, mode: Mode) {
        if let Some(t) = TID.with(|c| c.get()) {
            sched().point(t, Op::Acquire(lock, mode));
        }
    }
    fn after_release(&self, lock: LockId, mode: Mode) {
        if let Some(t) = TID.with(|c| c.get()) {
            sched().released(t, lock, mode);
        }
    }
    fn before_atomic(&self, _addr: usize, store: bool) {
        if let Some(t) = TID.with(|c| c.get()) {
            sched().point(t, Op::Yield(if store { "atomic-store" } else { "atomic-load" }));
        }
    }
}

impl IoSched for SchedHooks {
    fn io_point(&self, kind: Kind, fd: i32, ino: u64, arg: i64) -> Option<i32> {
        if let Some(t) = TID.with(|c| c.get()) {
            let locking = arg & (libc::LOCK_EX as i64) != 0 || arg & (libc::LOCK_SH as i64) != 0;
            let nonblocking = arg & (libc::LOCK_NB as i64) != 0;
            let op = match kind {
                // a blocking lock request is modelled by the scheduler; a non-blocking one is an
                // ordinary call whose real answer (EWOULDBLOCK or success) is taken as it comes
                Kind::Flock if locking && !nonblocking => Op::Flock { ino, fd, shared: arg & (libc::LOCK_SH as i64) != 0 },
                Kind::Lseek => return None, // seek + write form one step: the write is the point
                Kind::Stat => return None, // reads the file length only: no scheduling point (faults still apply)
                k => Op::Io(k),
            };
            let model_lock = matches!(op, Op::Flock { .. });
            loop {
                sched().point(t, op.clone());
                if sched().take_interrupt(t) {
                    return Some(INTERRUPT_ERRNO.load(std::sync::atomic::Ordering::Relaxed));
                }
                if !model_lock {
                    break;
                }
                // the model granted the lock: ask the kernel without waiting.  It can disagree when a
                // descriptor that held the lock was closed while a mapping made through it is still
                // alive (the lock belongs to the open file description, which the mapping pins).
                // Then the kernel is right: a phantom holder keeps this thread disabled until
                // something is unmapped, unlocked or closed, and the request is made again.
                let r = unsafe { libc::syscall(libc::SYS_flock, fd, arg as i32 | libc::LOCK_NB) };
                if r == 0 {
                    break;
                }
                let e = unsafe { *libc::__errno_location() };
                if e != libc::EWOULDBLOCK {
                    return Some(e);
                }
                sched().flock_denied_by_kernel(t, ino, fd);
            }
        }
        None
    }
    fn io_done(&self, kind: Kind, fd: i32, ino: u64, arg: i64, ok: bool) {
        if let Some(t) = TID.with(|c| c.get()) {
            match kind {
                Kind::Close => sched().flock_released(t, ino, fd),
                Kind::Munmap => sched().flock_phantoms_clear(),
                Kind::Flock if arg & (libc::LOCK_UN as i64) != 0 => sched().flock_released(t, ino, fd),
                Kind::Flock if ok && arg & (libc::LOCK_NB as i64) != 0 => sched().flock_acquired(t, ino, fd, arg & (libc::LOCK_SH as i64) != 0),
                _ => {}
            }
        }
    }
}

// The scheduler lives in a lazily initialised static (HashMap::new is not const).
static SCHED_CELL: std::sync::OnceLock<Sched> = std::sync::OnceLock::new();

pub fn sched() -> &'static Sched {
    SCHED_CELL.get_or_init(|| Sched {
        state: Mutex::new(State { threads: Vec::new(), running: None, locks: HashMap::new(), flocks: HashMap::new(), flags: Vec::new(), prefix: Vec::new(), points: Vec::new(), aborted: false, deadlock: None, diverged: None, policy: RwPolicy::PolicyFree, active: false, max_points: 20_000, eintr_budget: 0, interrupted: Vec::new(), kernel_denials: 0 }),
        cv: Condvar::new(),
    })
}

impl State {
    /// may (thread, fd) take the lock on `ino` in the given mode without waiting?
    fn flock_free(&self, ino: u64, t: usize, fd: i32, shared: bool) -> bool {
        match self.flocks.get(&ino) {
            None => true,
            Some(holders) => holders.iter().all(|h| (h.0 == t && h.1 == fd) || (shared && h.2)),
        }
    }

    fn enabled(&self, t: usize) -> bool {
        let th = &self.threads[t];
        if th.finished || !th.registered {
            return false;
        }
        match &th.pending {
            None => false,
            Some(Op::Start) | Some(Op::Yield(_)) | Some(Op::Io(_)) => true,
            Some(Op::Await(i)) => self.flags.get(*i).copied().unwrap_or(false),
            // a blocked lock request can also be "enabled" by a signal interrupting it
            Some(Op::Flock { ino, fd, shared }) => self.flock_free(*ino, t, *fd, *shared) || self.eintr_budget > 0,
            Some(Op::Acquire(l, m)) => {
                let ls = self.locks.get(&l.addr);
                match m {
                    Mode::Mutex => ls.map(|s| s.mutex_holder.is_none()).unwrap_or(true),
                    Mode::Write => ls.map(|s| s.writer.is_none() && s.readers.is_empty()).unwrap_or(true),
                    Mode::Read => {
                        let held = ls.map(|s| s.writer.is_some()).unwrap_or(false);
                        if held {
                            return false;
                        }
                        if self.policy == RwPolicy::WriterPreferring {
                            // a pending write request by another thread blocks new readers
                            for (o, ot) in self.threads.iter().enumerate() {
                                if o != t && !ot.finished {
                                    if let Some(Op::Acquire(l2, Mode::Write)) = &ot.pending {
                                        if l2.addr == l.addr {
                                            return false;
                                        }
                                    }
                                }
                            }
                        }
                        true
                    }
                }
            }
        }
    }

    fn grant(&mut self, t: usize, op: &Op) {
        match op {
            Op::Acquire(l, m) => {
                let ls = self.locks.entry(l.addr).or_default();
                match m {
                    Mode::Mutex => ls.mutex_holder = Some(t),
                    Mode::Write => ls.writer = Some(t),
                    Mode::Read => ls.readers.push(t),
                }
            }
            Op::Flock { ino, fd, shared } => {
                if !self.flock_free(*ino, t, *fd, *shared) {
                    // only reachable through the interruption budget
                    self.eintr_budget -= 1;
                    if self.interrupted.len() <= t {
                        self.interrupted.resize(t + 1, false);
                    }
                    self.interrupted[t] = true;
                } else {
                    let v = self.flocks.entry(*ino).or_default();
                    v.retain(|h| !(h.0 == t && h.1 == *fd));
                    v.push((t, *fd, *shared));
                }
            }
            _ => {}
        }
    }

    /// Picks the next thread to run; `from` is the thread that just arrived at a point (if any).
    fn schedule_next(&mut self, from: Option<usize>) {
        let n = self.threads.len();
        if self.threads.iter().all(|t| t.finished) {
            self.running = None;
            return;
        }
        let mut enabled: Vec<u8> = vec![];
        let mut running_enabled = false;
        if let Some(f) = from {
            if self.enabled(f) {
                enabled.push(f as u8);
                running_enabled = true;
            }
        }
        for t in 0..n {
            if Some(t) != from && self.enabled(t) {
                enabled.push(t as u8);
            }
        }
        if enabled.is_empty() {
            let mut desc = String::new();
            for (i, t) in self.threads.iter().enumerate() {
                if !t.finished {
                    desc.push_str(&format!("thread {} blocked at {}; ", i, t.pending.as_ref().map(|o| o.describe()).unwrap_or_else(|| "?".into())));
                }
            }
            for (a, l) in &self.locks {
                if l.mutex_holder.is_some() || l.writer.is_some() || !l.readers.is_empty() {
                    desc.push_str(&format!("lock@{:x}: mutex holder {:?} writer {:?} readers {:?}; ", a & 0xffff, l.mutex_holder, l.writer, l.readers));
                }
            }
            for (ino, hs) in &self.flocks {
                for h in hs {
                    desc.push_str(&format!("flock ino {} held by thread {} ({}); ", ino, h.0, if h.2 { "shared" } else { "exclusive" }));
                }
            }
            self.deadlock = Some(desc);
            self.aborted = true;
            self.running = None;
            return;
        }
        if self.points.len() >= self.max_points {
            self.diverged = Some("execution exceeded the point horizon (livelock?)".into());
            self.aborted = true;
            self.running = None;
            return;
        }
        let i = self.points.len();
        let choice = if i < self.prefix.len() { self.prefix[i] } else { 0 };
        if choice as usize >= enabled.len() {
            self.diverged = Some(format!("replay diverged at point {}: choice {} but only {} enabled", i, choice, enabled.len()));
            self.aborted = true;
            self.running = None;
            return;
        }
        let next = enabled[choice as usize] as usize;
        let op = self.threads[next].pending.take().unwrap();
        self.points.push(PointRec { enabled, running_enabled, chosen: choice, op: format!("t{}:{}", next, op.describe()) });
        self.grant(next, &op);
        self.running = Some(next);
    }
}

impl Sched {
    pub fn point(&self, t: usize, op: Op) {
        if std::thread::panicking() {
            // a lock taken by a destructor while this thread is already unwinding (the execution
            // is being torn down): do not raise a second panic, just let it run
            return;
        }
        let mut st = self.state.lock().unwrap();
        if !st.active {
            return;
        }
        if st.aborted {
            drop(st);
            std::panic::resume_unwind(Box::new(AbortExecution));
        }
        st.threads[t].pending = Some(op);
        st.schedule_next(Some(t));
        self.cv.notify_all();
        while st.running != Some(t) && !st.aborted {
            st = self.cv.wait(st).unwrap();
        }
        if st.aborted && st.running != Some(t) {
            drop(st);
            std::panic::resume_unwind(Box::new(AbortExecution));
        }
    }

    fn released(&self, t: usize, lock: LockId, mode: Mode) {
        let mut st = self.state.lock().unwrap();
        if !st.active {
            return;
        }
        if let Some(ls) = st.locks.get_mut(&lock.addr) {
            match mode {
                Mode::Mutex => {
                    if ls.mutex_holder == Some(t) {
                        ls.mutex_holder = None
                    }
                }
                Mode::Write => {
                    if ls.writer == Some(t) {
                        ls.writer = None
                    }
                }
                Mode::Read => {
                    if let Some(p) = ls.readers.iter().position(|x| *x == t) {
                        ls.readers.remove(p);
                    }
                }
            }
        }
    }

    fn flock_acquired(&self, t: usize, ino: u64, fd: i32, shared: bool) {
        let mut st = self.state.lock().unwrap();
        if st.active {
            let v = st.flocks.entry(ino).or_default();
            v.retain(|h| !(h.0 == t && h.1 == fd));
            v.push((t, fd, shared));
        }
    }

    fn take_interrupt(&self, t: usize) -> bool {
        let mut st = self.state.lock().unwrap();
        if st.active && st.interrupted.get(t).copied().unwrap_or(false) {
            st.interrupted[t] = false;
            return true;
        }
        false
    }

    pub fn set_eintr_budget(&self, n: usize) {
        self.state.lock().unwrap().eintr_budget = n;
        INTERRUPT_ERRNO.store(libc::EINTR, std::sync::atomic::Ordering::Relaxed);
    }

    /// like `set_eintr_budget`, with another errno (the lock request is refused, e.g. ENOLCK)
    pub fn set_lock_failure_budget(&self, n: usize, errno: i32) {
        self.state.lock().unwrap().eintr_budget = n;
        INTERRUPT_ERRNO.store(errno, std::sync::atomic::Ordering::Relaxed);
    }

    /// the kernel refused a lock the model had granted: undo the grant, park the request behind a
    /// phantom holder
    fn flock_denied_by_kernel(&self, t: usize, ino: u64, fd: i32) {
        let mut st = self.state.lock().unwrap();
        if !st.active {
            return;
        }
        let v = st.flocks.entry(ino).or_default();
        v.retain(|h| !(h.0 == t && h.1 == fd));
        if !v.iter().any(|h| h.0 == usize::MAX) {
            v.push((usize::MAX, -1, false));
        }
        st.kernel_denials += 1;
    }

    fn flock_phantoms_clear(&self) {
        let mut st = self.state.lock().unwrap();
        if !st.active {
            return;
        }
        for v in st.flocks.values_mut() {
            v.retain(|h| h.0 != usize::MAX);
        }
        st.flocks.retain(|_, v| !v.is_empty());
    }

    pub fn kernel_denials(&self) -> u64 {
        self.state.lock().unwrap().kernel_denials
    }

    fn flock_released(&self, t: usize, ino: u64, fd: i32) {
        let mut st = self.state.lock().unwrap();
        if !st.active {
            return;
        }
        if let Some(v) = st.flocks.get_mut(&ino) {
            v.retain(|h| !(h.0 == t && h.1 == fd) && h.0 != usize::MAX);
            if v.is_empty() {
                st.flocks.remove(&ino);
            }
        }
    }

    pub fn set_flag(&self, i: usize) {
        let mut st = self.state.lock().unwrap();
        if st.flags.len() <= i {
            st.flags.resize(i + 1, false);
        }
        st.flags[i] = true;
    }
}

/// Handle given to each controlled thread body.
pub struct Ctx {
    pub tid: usize,
}

impl Ctx {
    pub fn yield_now(&self, what: &'static str) {
        sched().point(self.tid, Op::Yield(what));
    }
    pub fn await_flag(&self, i: usize) {
        sched().point(self.tid, Op::Await(i));
    }
    pub fn set_flag(&self, i: usize) {
        sched().set_flag(i);
    }
}

pub struct ExecResult {
    pub points: Vec<PointRec>,
    pub deadlock: Option<String>,
    pub diverged: Option<String>,
    /// panics of thread bodies that were not execution aborts: (thread, message)
    pub panics: Vec<(usize, String)>,
}

pub type Body = Box<dyn FnOnce(&Ctx) + Send + 'static>;

/// Runs one execution: the bodies on fresh threads under the scheduler, following `prefix` and the
/// default choice (continue the running thread, else lowest id) afterwards.
pub fn run_execution(prefix: &[u8], bodies: Vec<Body>, policy: RwPolicy, io_points: bool) -> ExecResult {
    let s = sched();
    let n = bodies.len();
    {
        let mut st = s.state.lock().unwrap();
        st.threads = (0..n).map(|_| ThreadState { pending: None, finished: false, registered: false }).collect();
        st.running = None;
        st.locks.clear();
        st.flocks.clear();
        st.flags.clear();
        st.prefix = prefix.to_vec();
        st.points.clear();
        st.aborted = false;
        st.deadlock = None;
        st.diverged = None;
        st.policy = policy;
        st.interrupted = vec![false; n];
        st.active = true;
    }
    let panics: Arc<Mutex<Vec<(usize, String)>>> = Arc::new(Mutex::new(vec![]));
    let mut handles = vec![];
    for (tid, body) in bodies.into_iter().enumerate() {
        let panics = panics.clone();
        handles.push(
            std::thread::Builder::new()
                .stack_size(2 << 20)
                .spawn(move || {
                    TID.with(|c| c.set(Some(tid)));
                    jammdb::verif::install(Some(&SCHED_HOOKS));
                    if io_points {
                        crate::iosim::install_plan(crate::iosim::Plan { sched: Some(&SCHED_HOOKS), ..Default::default() });
                    }
                    let s = sched();
                    // register and wait for the first turn
                    {
                        let mut st = s.state.lock().unwrap();
                        st.threads[tid].registered = true;
                        st.threads[tid].pending = Some(Op::Start);
                        s.cv.notify_all();
                        while st.running != Some(tid) && !st.aborted {
                            st = s.cv.wait(st).unwrap();
                        }
                        if st.aborted && st.running != Some(tid) {
                            st.threads[tid].finished = true;
                            s.cv.notify_all();
                            return;
                        }
                    }
                    let ctx = Ctx { tid };
                    let r = std::panic::catch_unwind(std::panic::AssertUnwindSafe(|| body(&ctx)));
                    if let Err(p) = r {
                        if !p.is::<AbortExecution>() {
                            let msg = crate::real::panic_msg(p);
                            panics.lock().unwrap().push((tid, format!("{} @ {}", msg, crate::real::last_panic_loc())));
                        }
                    }
                    jammdb::verif::install(None);
                    crate::iosim::take_plan();
                    TID.with(|c| c.set(None));
                    let mut st = s.state.lock().unwrap();
                    st.threads[tid].finished = true;
                    // anything this thread still holds in the model is gone with it
                    for l in st.locks.values_mut() {
                        if l.mutex_holder == Some(tid) {
                            l.mutex_holder = None;
                        }
                        if l.writer == Some(tid) {
                            l.writer = None;
                        }
                        l.readers.retain(|x| *x != tid);
                    }
                    for v in st.flocks.values_mut() {
                        v.retain(|h| h.0 != tid);
                    }
                    st.flocks.retain(|_, v| !v.is_empty());
                    if !st.aborted {
                        st.schedule_next(None);
                    }
                    s.cv.notify_all();
                })
                .expect("spawn controlled thread"),
        );
    }
    // wait until everyone is registered, then hand out the first turn
    {
        let mut st = s.state.lock().unwrap();
        while !st.threads.iter().all(|t| t.registered) {
            st = s.cv.wait(st).unwrap();
        }
        st.schedule_next(None);
        s.cv.notify_all();
    }
    for h in handles {
        let _ = h.join();
    }
    let mut st = s.state.lock().unwrap();
    st.active = false;
    let res = ExecResult { points: std::mem::take(&mut st.points), deadlock: st.deadlock.take(), diverged: st.diverged.take(), panics: std::mem::take(&mut *panics.lock().unwrap()) };
    res
}

pub struct ExploreStats {
    pub schedules: u64,
    pub by_bound: Vec<u64>,
    pub max_points: usize,
    pub context_switches: u64,
    pub capped: bool,
    /// highest preemption bound for which every schedule was run
    pub bound_completed: i64,
}

/// Preemptions used by an execution, and the alternatives (child prefixes) that branch off at or
/// after position `from` while staying within `bound`.
fn children(points: &[PointRec], from: usize, bound: usize) -> (usize, Vec<Vec<u8>>) {
    let mut cost = 0usize;
    let mut out = vec![];
    for (i, p) in points.iter().enumerate() {
        if i >= from {
            for alt in 1..p.enabled.len() {
                let ncost = cost + if p.running_enabled { 1 } else { 0 };
                if ncost <= bound {
                    let mut np: Vec<u8> = points[..i].iter().map(|q| q.chosen).collect();
                    np.push(alt as u8);
                    out.push(np);
                }
            }
        }
        if p.running_enabled && p.chosen != 0 {
            cost += 1;
        }
    }
    (cost, out)
}

/// Context-bounded exploration (CHESS): every schedule with at most `bound` preemptions in the
/// subtree below `start` (the empty prefix = everything).  With `expand_only` the start prefix
/// is executed and its children are returned instead of being explored (used to spread one case
/// over several worker processes).  `run` executes one schedule for a prefix, judges it itself and
/// may return false to stop the search.
pub fn explore_from(bound: usize, start: Vec<u8>, expand_only: bool, max_schedules: u64, mut run: impl FnMut(&[u8]) -> (Vec<PointRec>, bool)) -> (ExploreStats, Vec<Vec<u8>>) {
    explore_until(bound, start, expand_only, max_schedules, None, &mut run)
}

/// As `explore_from`, giving up (reported as capped) once the wall-clock deadline has passed.
pub fn explore_until(bound: usize, start: Vec<u8>, expand_only: bool, max_schedules: u64, deadline: Option<std::time::SystemTime>, run: &mut dyn FnMut(&[u8]) -> (Vec<PointRec>, bool)) -> (ExploreStats, Vec<Vec<u8>>) {
    let mut stats = ExploreStats { schedules: 0, by_bound: vec![0; bound + 1], max_points: 0, context_switches: 0, capped: false, bound_completed: -1 };
    let mut stack: Vec<Vec<u8>> = vec![start];
    let mut handed_out = vec![];
    while let Some(prefix) = stack.pop() {
        if stats.schedules >= max_schedules || deadline.map(|d| std::time::SystemTime::now() > d).unwrap_or(false) {
            stats.capped = true;
            return (stats, handed_out);
        }
        let (points, go_on) = run(&prefix);
        stats.schedules += 1;
        stats.max_points = stats.max_points.max(points.len());
        let mut prev: Option<u8> = None;
        for p in &points {
            let t = p.enabled[p.chosen as usize];
            if prev.is_some() && prev != Some(t) {
                stats.context_switches += 1;
            }
            prev = Some(t);
        }
        let (cost, kids) = children(&points, prefix.len(), bound);
        if cost < stats.by_bound.len() {
            stats.by_bound[cost] += 1;
        }
        if !go_on {
            return (stats, handed_out);
        }
        if expand_only {
            handed_out = kids;
            stats.bound_completed = bound as i64;
            return (stats, handed_out);
        }
        stack.extend(kids);
    }
    stats.bound_completed = bound as i64;
    (stats, handed_out)
}

pub fn explore(bound: usize, max_schedules: u64, run: impl FnMut(&[u8]) -> (Vec<PointRec>, bool)) -> ExploreStats {
    explore_from(bound, vec![], false, max_schedules, run).0
}
