//! E4 compatx (C15): golden files written by the pinned code (and re-headed with the legacy
//! header record) must open under the current code with identical logical contents and accept
//! further commits; a mismatching page size is refused without touching the file; files written by
//! the current code are parsed by the independent reader that encodes the pinned layout.

use std::io::{Read, Write};

use serde_json::{json, Value};

use crate::fileck;
use crate::iosim;
use crate::real::{self, guarded};
use crate::refmodel::{BucketM, OpSpec};
use crate::report::{self, Check, Tier};
use crate::runner::{hash128, Action, Cfg, History, Oracles, Runner};

pub const GOLDEN_SIZES: [u64; 4] = [1024, 4096, 5000, 16384];
/// (file stem, page size, history kind): kind 1 leaves a free list that needs more than one page
/// kind 2: the last commit deleted a nested bucket and then its ancestor, which makes the pinned
/// release write the nested bucket's page ids twice into the free-list page
pub const GOLDENS: [(&str, u64, u8); 6] = [("p1024", 1024, 0), ("p4096", 4096, 0), ("p5000", 5000, 0), ("p16384", 16384, 0), ("p1024-bigfree", 1024, 1), ("p1024-dupfree", 1024, 2)];

pub fn golden_history_dupfree(p: u64) -> Vec<Action> {
    let third = format!("w*{}", p * 3 / 10);
    let mut c1 = vec![OpSpec::bucket("create", &[], "a"), OpSpec::bucket("create", &["a"], "b"), OpSpec::bucket("create", &["a", "b"], "c"), OpSpec::bucket("create", &[], "keep")];
    for i in 0..6 {
        c1.push(OpSpec::put(&["a", "b", "c"], &format!("c{:02}", i), &third));
        c1.push(OpSpec::put(&["a", "b"], &format!("b{:02}", i), &third));
        c1.push(OpSpec::put(&["a"], &format!("a{:02}", i), &third));
        c1.push(OpSpec::put(&["keep"], &format!("k{:02}", i), &third));
    }
    vec![
        tx(c1),
        tx(vec![OpSpec::put(&["keep"], "k00", "v*16"), OpSpec::put(&["a", "b", "c"], "c00", "v*16")]),
        tx(vec![OpSpec::bucket("delb", &["a", "b"], "c"), OpSpec::bucket("delb", &["a"], "b"), OpSpec::put(&["keep"], "k07", &third)]),
    ]
}

/// History of the `bigfree` golden: a three-level tree of 330 entries, most of them deleted again,
/// so that the persisted free list is longer than one page.
pub fn golden_history_bigfree(p: u64) -> Vec<Action> {
    let third = format!("w*{}", p * 3 / 10);
    let mut c1 = vec![OpSpec::bucket("create", &[], "a"), OpSpec::bucket("create", &["a"], "b"), OpSpec::bucket("create", &["a", "b"], "c")];
    for i in 0..330 {
        c1.push(OpSpec::put(&["a"], &format!("f{:03}", i), &third));
    }
    c1.push(OpSpec::put(&["a", "b", "c"], "deep-small", "v*16"));
    // delete from the back in slices, keeping every 11th key, over several commits
    let mut acts = vec![tx(c1)];
    for part in 0..4 {
        let ops: Vec<OpSpec> = (0..330).rev().filter(|i| i % 11 != 0 && i % 4 == part).map(|i| OpSpec::del(&["a"], &format!("f{:03}", i))).collect();
        acts.push(tx(ops));
    }
    acts.push(tx(vec![OpSpec::put(&["a", "b"], "b00", &third), OpSpec::put(&["a"], "a02", &third)]));
    acts
}

fn tx(ops: Vec<OpSpec>) -> Action {
    Action::Tx { ops, commit: true }
}

/// The history every golden file was generated with (sizes are fractions of the page size).
pub fn golden_history(p: u64) -> Vec<Action> {
    let f = |num: u64, den: u64| -> u64 { (p * num / den).max(1) };
    let small = format!("v*{}", f(1, 64).max(8));
    let third = format!("w*{}", f(3, 10));
    let over = format!("x*{}", f(3, 2));
    let big = format!("L*{}", f(5, 1));
    let mut c1 = vec![OpSpec::bucket("create", &[], "a"), OpSpec::bucket("create", &["a"], "b"), OpSpec::bucket("create", &["a", "b"], "c"), OpSpec::bucket("create", &[], "tmp")];
    for i in 0..7 {
        c1.push(OpSpec::put(&["a"], &format!("a{:02}", i), &third));
        c1.push(OpSpec::put(&["a", "b"], &format!("b{:02}", i), &small));
    }
    c1.push(OpSpec::put(&["a", "b", "c"], "deep-big", &big));
    c1.push(OpSpec::put(&["a", "b", "c"], "deep-small", &small));
    c1.push(OpSpec::put(&["tmp"], "t1", &over));
    c1.push(OpSpec::put(&["tmp"], "t2", &third));
    let mut c2 = vec![];
    for i in 7..16 {
        c2.push(OpSpec::put(&["a", "b"], &format!("b{:02}", i), &third));
    }
    c2.push(OpSpec::put(&["a"], "over", &over));
    let c3 = vec![OpSpec::put(&["a"], "a01", &small), OpSpec::put(&["a"], "a03", &over), OpSpec::put(&["a", "b", "c"], "deep-big", &third), OpSpec::put(&["a", "b"], "b03", &big)];
    let c4 = vec![OpSpec::del(&["a"], "a05"), OpSpec::del(&["a", "b"], "b09"), OpSpec::del(&["a", "b"], "b12"), OpSpec::bucket("delb", &[], "tmp")];
    let c5 = vec![OpSpec::put(&["a"], "a02", &third), OpSpec::put(&["a", "b", "c"], "late", &small)];
    let c6 = vec![OpSpec::put(&["a", "b"], "b00", &third)];
    vec![tx(c1), tx(c2), tx(c3), tx(c4), tx(c5), tx(c6)]
}

fn model_of(actions: &[Action]) -> BucketM {
    let mut m = BucketM::default();
    for a in actions {
        if let Action::Tx { ops, commit: true } = a {
            for o in ops {
                let _ = m.apply(&o.to_op());
            }
        }
    }
    m
}

pub fn golden_dir() -> String {
    format!("{}/golden", report::verif_root())
}

fn gz_write(path: &str, data: &[u8]) -> std::io::Result<()> {
    // stored uncompressed inside a gzip container would need a crate; use a trivial run-length
    // encoding of zero runs instead (the files are mostly zero slack and repeated padding)
    let mut out = Vec::with_capacity(data.len() / 2);
    let mut i = 0;
    while i < data.len() {
        if data[i] == 0 {
            let mut j = i;
            while j < data.len() && data[j] == 0 && j - i < 0xFFFF_FF {
                j += 1;
            }
            out.push(0u8);
            out.extend_from_slice(&((j - i) as u32).to_le_bytes());
            i = j;
        } else {
            let mut j = i;
            while j < data.len() && data[j] != 0 && j - i < 0xFFFF {
                j += 1;
            }
            out.push(1u8);
            out.extend_from_slice(&((j - i) as u32).to_le_bytes());
            out.extend_from_slice(&data[i..j]);
            i = j;
        }
    }
    std::fs::File::create(path)?.write_all(&out)
}

fn gz_read(path: &str) -> std::io::Result<Vec<u8>> {
    let mut raw = vec![];
    std::fs::File::open(path)?.read_to_end(&mut raw)?;
    let mut out = vec![];
    let mut i = 0;
    while i + 5 <= raw.len() {
        let n = u32::from_le_bytes(raw[i + 1..i + 5].try_into().unwrap()) as usize;
        if raw[i] == 0 {
            out.resize(out.len() + n, 0);
            i += 5;
        } else {
            out.extend_from_slice(&raw[i + 5..i + 5 + n]);
            i += 5 + n;
        }
    }
    Ok(out)
}

/// `vcheck golden-gen`: writes the golden files with whatever jammdb this binary was built against
/// (run once from a build against the pinned tree; see golden/README).
pub fn generate() -> i32 {
    real::install_quiet_panic_hook();
    let scratch = report::scratch_dir();
    let dir = golden_dir();
    std::fs::create_dir_all(&dir).unwrap();
    let only = std::env::var("GOLDEN_ONLY").ok();
    for &(stem, p, kind) in &GOLDENS {
        if let Some(o) = &only {
            if o != stem {
                continue;
            }
        }
        let path = format!("{}/gen.db", scratch);
        let cfg = Cfg { pagesize: p, num_pages: 32, ..Cfg::default() };
        let acts = if kind == 2 { golden_history_dupfree(p) } else if kind == 1 { golden_history_bigfree(p) } else { golden_history(p) };
        let mut r = Runner::new(&path, cfg.clone()).expect("create");
        // (kind 2 is about a free list the independent reader and DB::check object to)
        let or = if kind == 2 { Oracles { rets: true, dump_after: true, ..Oracles::NONE } } else { Oracles { rets: true, dump_after: true, fileck: true, dbcheck: true, ..Oracles::NONE } };
        for a in &acts {
            let v = r.step(a, &or);
            if !v.is_empty() || r.poisoned {
                println!("generation failed at page size {}: {:?}", p, v);
                return 1;
            }
        }
        let model = r.model.clone();
        drop(r);
        let bytes = std::fs::read(&path).unwrap();
        let hw = fileck::high_water(&bytes, p);
        let rep = fileck::check(&bytes[..hw], p).expect("golden must parse");
        if kind == 2 {
            assert!(!rep.ok() && rep.errors.iter().all(|e| e.contains("free")), "dupfree golden: expected only free-list complaints, got {:?}", rep.errors);
            println!("dupfree golden, complaints of the independent reader: {:?}", rep.errors);
        } else {
            assert!(rep.ok(), "golden not well-formed: {:?}", rep.errors);
        }
        assert!(rep.contents.same_contents(&model));
        assert!(!rep.free.is_empty(), "golden must have a non-empty free list");
        if kind == 1 {
            assert!(rep.free.len() > 124, "bigfree golden has only {} free-list entries", rep.free.len());
        }
        gz_write(&format!("{}/{}.db.rle", dir, stem), &bytes[..hw]).unwrap();
        let meta = json!({"pagesize": p, "file_len": bytes.len(), "high_water": hw, "commits": acts.len(), "tx_id": rep.tx_id, "free_list_entries": rep.free.len(), "tree_shape_levels_leaves_branches": [rep.shape.0, rep.shape.1, rep.shape.2], "contents_hash": format!("{:032x}", hash128(model.render().as_bytes())), "history": acts.iter().map(|a| a.to_json()).collect::<Vec<_>>()});
        std::fs::write(format!("{}/{}.json", dir, stem), serde_json::to_string_pretty(&meta).unwrap()).unwrap();
        println!("golden {} (p{}): {} bytes below the high-water mark, tx {}, {} free-list entries, shape {:?}", stem, p, hw, rep.tx_id, rep.free.len(), rep.shape);
    }
    report::cleanup_scratch(&scratch);
    0
}

pub struct Golden {
    pub stem: String,
    pub pagesize: u64,
    pub bytes: Vec<u8>,
    pub file_len: u64,
    pub model: BucketM,
    pub tx_id: u64,
}

pub fn load_goldens() -> Result<Vec<Golden>, String> {
    let dir = golden_dir();
    let mut out = vec![];
    for &(stem, p, _kind) in &GOLDENS {
        let meta: Value = serde_json::from_str(&std::fs::read_to_string(format!("{}/{}.json", dir, stem)).map_err(|e| format!("golden {}: {}", stem, e))?).map_err(|e| e.to_string())?;
        let bytes = gz_read(&format!("{}/{}.db.rle", dir, stem)).map_err(|e| format!("golden {}: {}", stem, e))?;
        let acts: Vec<Action> = meta["history"].as_array().ok_or("history")?.iter().map(Action::from_json).collect();
        let model = model_of(&acts);
        if format!("{:032x}", hash128(model.render().as_bytes())) != meta["contents_hash"].as_str().unwrap_or("") {
            return Err(format!("golden p{}: the recorded history no longer produces the recorded contents", p));
        }
        out.push(Golden { stem: stem.to_string(), pagesize: p, bytes, file_len: meta["file_len"].as_u64().unwrap_or(0), model, tx_id: meta["tx_id"].as_u64().unwrap_or(0) });
    }
    Ok(out)
}

/// Rewrites header slot(s) with the legacy (<= 0.10) record: same fields, SHA3-256 checksum.
pub fn legacy_rehead(bytes: &mut [u8], p: u64, slots: &[u64]) {
    for &slot in slots {
        if let Ok(m) = fileck::read_meta(bytes, p, slot) {
            let base = (slot * p) as usize + fileck::REC_OFF;
            let h = m.sha3();
            bytes[base + 64..base + 96].copy_from_slice(&h);
        }
    }
}

fn write_file(path: &str, bytes: &[u8], len: u64) {
    use std::os::unix::fs::FileExt;
    let _ = std::fs::remove_file(path);
    let f = std::fs::File::create(path).unwrap();
    f.write_all_at(bytes, 0).unwrap();
    f.set_len(len.max(bytes.len() as u64)).unwrap();
}

fn followups(p: u64) -> Vec<Action> {
    let third = format!("w*{}", p * 3 / 10);
    let over = format!("x*{}", p * 3 / 2);
    let mut reuse = vec![];
    for i in 0..6 {
        reuse.push(OpSpec::put(&["a"], &format!("new{}", i), &third));
    }
    reuse.push(OpSpec::put(&["a", "b", "c"], "deep-big", &over));
    vec![tx(vec![OpSpec::put(&["a"], "a00", "v*8"), OpSpec::bucket("create", &[], "fresh")]), tx(reuse), tx(vec![OpSpec::del(&["a"], "new1"), OpSpec::del(&["a", "b"], "b01"), OpSpec::put(&["fresh"], "k", "v*8")]), Action::Reopen, tx(vec![OpSpec::put(&["fresh"], "k2", &third)])]
}

/// collects what `check_golden_inner` finds inside the forked copy
struct Coll(Vec<(String, String)>);

impl Coll {
    fn violation(&mut self, class: &str, detail: &str, _replay: impl FnOnce() -> Value) {
        self.0.push((class.to_string(), detail.to_string()));
    }
}

/// One golden variant, in a forked copy of the check (a change that corrupts memory while reading
/// or continuing an old file must end the copy, not the check).
fn check_golden(check: &mut Check, g: &Golden, variant: &str, bytes: &[u8], expect: &BucketM, path: &str, counts: &mut (u64, u64)) {
    let res = crate::isolate::run_in_child(300, || {
        let mut c = Coll(vec![]);
        let mut cnt = (0u64, 0u64);
        check_golden_inner(&mut c, g, variant, bytes, expect, path, &mut cnt);
        json!({"v": c.0.iter().map(|(a, b)| json!([a, b])).collect::<Vec<_>>(), "opened": cnt.0, "followups": cnt.1}).to_string()
    });
    match res {
        Ok(out) => {
            let v: Value = serde_json::from_str(&out).unwrap_or(Value::Null);
            counts.0 += v["opened"].as_u64().unwrap_or(0);
            counts.1 += v["followups"].as_u64().unwrap_or(0);
            for x in v["v"].as_array().cloned().unwrap_or_default() {
                check.violation(x[0].as_str().unwrap_or("golden"), x[1].as_str().unwrap_or(""), || json!({"engine": "compatx", "golden": g.pagesize, "variant": variant}));
            }
        }
        Err(e) => check.violation("golden_process_death", &format!("[golden {} {}] the process opening and continuing this file {}", g.stem, variant, e), || json!({"engine": "compatx", "golden": g.pagesize, "variant": variant})),
    }
}

fn check_golden_inner(check: &mut Coll, g: &Golden, variant: &str, bytes: &[u8], expect: &BucketM, path: &str, counts: &mut (u64, u64)) {
    write_file(path, bytes, g.file_len);
    let cfg = Cfg { pagesize: g.pagesize, num_pages: 32, ..Cfg::default() };
    counts.0 += 1;
    let mut r = match Runner::adopt(path, cfg.clone(), expect.clone()) {
        Ok(r) => r,
        Err(e) => {
            check.violation("golden_open_failed", &format!("[golden {} {}] {}", g.stem, variant, e), || json!({"engine": "compatx", "golden": g.pagesize, "variant": variant}));
            return;
        }
    };
    // contents right after open
    {
    let db = r.db();
    match guarded(|| db.tx(false).map(|tx| real::dump_tx(&tx))) {
        Ok(Ok(Ok(d))) => {
            if let Some(diff) = d.diff(expect) {
                check.violation("golden_contents", &format!("[golden p{} {}] contents differ from what the pinned code wrote (left = observed): {}", g.pagesize, variant, diff), || json!({"engine": "compatx", "golden": g.pagesize, "variant": variant}));
                return;
            }
        }
        other => {
            check.violation("golden_read_failed", &format!("[golden p{} {}] {:?}", g.pagesize, variant, other.map(|x| x.map(|y| y.map(|_| ())))), || json!({"engine": "compatx", "golden": g.pagesize, "variant": variant}));
            return;
        }
    }
    // (not for the dupfree golden: the pinned release listed free pages twice there, and the
    // library's own check says so until the first commit has rewritten the list)
    if g.stem.ends_with("dupfree") {
    } else if let Err(e) = guarded(|| db.check()).unwrap_or_else(|p| Err(jammdb::Error::InvalidDB(p))) {
        check.violation("golden_dbcheck", &format!("[golden p{} {}] DB::check(): {:?}", g.pagesize, variant, e), || json!({"engine": "compatx", "golden": g.pagesize, "variant": variant}));
    }
    }
    // further commits, one of them reusing free pages, then reopen
    let or = Oracles { rets: true, dump_after: true, fileck: true, dbcheck: true, both_headers: true, ..Oracles::NONE };
    for a in followups(g.pagesize) {
        counts.1 += 1;
        for v in r.step(&a, &or) {
            check.violation(&format!("golden_followup:{}", v.class), &format!("[golden p{} {}] {}", g.pagesize, variant, v.detail), || json!({"engine": "compatx", "golden": g.pagesize, "variant": variant}));
        }
        if r.poisoned {
            break;
        }
    }
}

pub fn run(check: &mut Check) {
    real::install_quiet_panic_hook();
    let tier = check.tier;
    let scratch = report::scratch_dir();
    iosim::set_track_prefix(&scratch);
    let path = format!("{}/compat.db", scratch);
    let goldens = match load_goldens() {
        Ok(g) => g,
        Err(e) => {
            check.machinery_error(e);
            return;
        }
    };
    let mut counts = (0u64, 0u64);
    let mut refused = 0u64;
    let mut produced = 0u64;
    for g in &goldens {
        // the independent reader must agree with the recorded contents first
        match fileck::check(&g.bytes, g.pagesize) {
            Ok(rep) if rep.ok() && rep.contents.same_contents(&g.model) => {}
            // the dupfree golden: the pinned release listed some free pages twice
            Ok(rep) if g.stem.ends_with("dupfree") && rep.contents.same_contents(&g.model) && rep.errors.iter().all(|e| e.contains("free")) => {}
            other => check.machinery_error(format!("golden p{} does not parse with fileck: {:?}", g.pagesize, other.map(|r| r.errors))),
        }
        check_golden(check, g, "as-written", &g.bytes, &g.model, &path, &mut counts);
        // legacy header in both slots, and in the older slot only
        let mut both = g.bytes.clone();
        legacy_rehead(&mut both, g.pagesize, &[0, 1]);
        check_golden(check, g, "legacy-header-both-slots", &both, &g.model, &path, &mut counts);
        let newest = fileck::choose_meta(&g.bytes, g.pagesize).map(|m| m.slot).unwrap_or(0);
        let mut older = g.bytes.clone();
        legacy_rehead(&mut older, g.pagesize, &[1 - newest]);
        check_golden(check, g, "legacy-header-older-slot", &older, &g.model, &path, &mut counts);
        // the older slot torn (what a crash inside the pinned release's last-but-one header write
        // would have left): the file opens on the newest header and must be continued correctly
        if !g.stem.ends_with("dupfree") {
            let mut torn = g.bytes.clone();
            let at = ((1 - newest) * g.pagesize) as usize + fileck::REC_OFF + 56;
            if at + 8 <= torn.len() {
                for b in &mut torn[at..at + 8] {
                    *b = 0xA5;
                }
                check_golden(check, g, "older-slot-torn", &torn, &g.model, &path, &mut counts);
            }
        }
        // every other page size must be refused and leave the file alone
        let mut others: Vec<u64> = GOLDEN_SIZES.iter().copied().filter(|p| *p != g.pagesize).collect();
        let os = unsafe { libc::sysconf(libc::_SC_PAGESIZE) } as u64;
        if os != g.pagesize && !others.contains(&os) {
            others.push(os);
        }
        if tier == Tier::Thorough {
            others.extend([2048u64, 8192, 65536, 1032].iter().filter(|p| **p != g.pagesize));
        }
        for op in others {
            write_file(&path, &g.bytes, g.file_len);
            let before = std::fs::read(&path).unwrap();
            let cfg = Cfg { pagesize: op, num_pages: 32, ..Cfg::default() };
            let r = guarded(|| cfg.open(&path).map(|db| db.tx(false).map(|tx| real::dump_tx(&tx))));
            refused += 1;
            match r {
                Err(_) | Ok(Err(_)) => {}
                Ok(Ok(inner)) => {
                    check.violation("pagesize_mismatch_accepted", &format!("[golden p{}] opening with page size {} was not refused (then: {:?})", g.pagesize, op, inner.map(|d| d.map(|m| m.count_items()))), || json!({"engine": "compatx", "golden": g.pagesize, "open_with": op}));
                }
            }
            let after = std::fs::read(&path).unwrap();
            if after != before {
                check.violation("refused_open_modified_file", &format!("[golden p{}] a refused open with page size {} changed the file", g.pagesize, op), || json!({"engine": "compatx", "golden": g.pagesize, "open_with": op}));
            }
        }
        // write side: files produced by the current tree at this page size conform to the pinned layout
        let cfg = Cfg { pagesize: g.pagesize, num_pages: 32, ..Cfg::default() };
        let or = Oracles { fileck: true, strict_layout: true, dump_after: true, rets: true, dbcheck: true, ..Oracles::NONE };
        let mut hs = crate::optx::histories(g.pagesize, tier, false);
        if g.pagesize <= 5000 {
            // a free list that moves across the capacity of one page (overflow pages of the list page)
            hs.push(crate::optx::freelist_boundary_history(g.pagesize));
        }
        if g.pagesize <= 4096 {
            // one commit that has to grow the file by more than one 8 MiB step (and not by a whole
            // number of steps), then an ordinary one and a reopen
            hs.push(vec![
                Action::Tx { ops: vec![OpSpec::bucket("create", &[], "big"), OpSpec::put(&["big"], "v12", "T*12582912"), OpSpec::put(&["big"], "small", "v*8")], commit: true },
                Action::Tx { ops: vec![OpSpec::put(&["big"], "small", "w*300")], commit: true },
                Action::Reopen,
                Action::Tx { ops: vec![OpSpec::del(&["big"], "v12")], commit: true },
            ]);
        }
        let nh = hs.len();
        if g.pagesize <= 5000 {
            // the same while a reader pins every freed page (pre-sized file), last in the list
            hs.push(crate::optx::pinned_freelist_history(g.pagesize));
        }
        for (hi, h) in hs.into_iter().enumerate() {
            produced += 1;
            let cfg = if hi >= nh { Cfg { num_pages: 4 * ((g.pagesize as usize - 32) / 8 + 100), ..cfg.clone() } } else { cfg.clone() };
            let hist = History { cfg: cfg.clone(), actions: h.clone() };
            // in a forked copy: a change that corrupts memory must end the copy, not the check
            let res = crate::isolate::run_in_child(300, || {
                let mut vs: Vec<Value> = vec![];
                match Runner::new(&path, cfg.clone()) {
                    Ok(mut r) => {
                        for a in &h {
                            for v in r.step(a, &or) {
                                vs.push(json!([format!("produced:{}", v.class), v.detail]));
                            }
                            if r.poisoned {
                                break;
                            }
                        }
                    }
                    Err(e) => vs.push(json!(["produced:create_failed", e])),
                }
                Value::Array(vs).to_string()
            });
            match res {
                Ok(out) => {
                    for v in serde_json::from_str::<Value>(&out).ok().and_then(|v| v.as_array().cloned()).unwrap_or_default() {
                        check.violation(v[0].as_str().unwrap_or("produced"), &format!("[page size {}] {}", g.pagesize, v[1].as_str().unwrap_or("")), || json!({"engine": "seqx", "seed": 1, "history": hist.to_json()}));
                    }
                }
                Err(e) => check.violation("produced:process_death", &format!("[page size {}] the process running this history {}", g.pagesize, e), || json!({"engine": "seqx", "seed": 1, "history": hist.to_json()})),
            }
        }
    }
    // small, never-grown files: a mismatching page size must be refused as well (the file may be
    // shorter than a few pages of the wrong size)
    let mut small_sizes: Vec<u64> = GOLDEN_SIZES.to_vec();
    small_sizes.extend([2048u64, 65536]);
    for &p in &small_sizes {
        for np in [4usize, 16] {
            let cfg = Cfg { pagesize: p, num_pages: np, ..Cfg::default() };
            let mut model = BucketM::default();
            match Runner::new(&path, cfg.clone()) {
                Ok(mut r) => {
                    r.step(&tx(vec![OpSpec::bucket("create", &[], "s"), OpSpec::put(&["s"], "k", "v*40")]), &Oracles::NONE);
                    model = r.model.clone();
                }
                Err(e) => check.machinery_error(format!("small file at page size {}: {}", p, e)),
            }
            let before = std::fs::read(&path).unwrap_or_default();
            for &op in &small_sizes {
                if op == p {
                    continue;
                }
                refused += 1;
                let ocfg = Cfg { pagesize: op, num_pages: np, ..Cfg::default() };
                let r = guarded(|| ocfg.open(&path).map(|db| db.tx(false).map(|tx| real::dump_tx(&tx))));
                if let Ok(Ok(inner)) = r {
                    check.violation("pagesize_mismatch_accepted", &format!("[fresh {}-page file of page size {}] opening with page size {} was not refused (then: {:?})", np, p, op, inner.map(|d| d.map(|m| m.count_items()))), || json!({"engine": "compatx", "small_file_pagesize": p, "num_pages": np, "open_with": op}));
                }
                let after = std::fs::read(&path).unwrap_or_default();
                if after != before {
                    check.violation("refused_open_modified_file", &format!("[fresh {}-page file of page size {}] an open with page size {} changed the file ({} -> {} bytes)", np, p, op, before.len(), after.len()), || json!({"engine": "compatx", "small_file_pagesize": p, "num_pages": np, "open_with": op}));
                    std::fs::write(&path, &before).ok();
                }
            }
            // and it still opens with its own page size
            let r = guarded(|| cfg.open(&path).map(|db| db.tx(false).map(|tx| real::dump_tx(&tx))));
            match r {
                Ok(Ok(Ok(Ok(d)))) if d.same_contents(&model) => {}
                other => check.violation("small_file_unreadable", &format!("[fresh {}-page file of page size {}] no longer opens with its own page size after the refused opens: {:?}", np, p, other.map(|x| x.map(|y| y.map(|z| z.map(|m| m.count_items()))))), || json!({"engine": "compatx", "small_file_pagesize": p, "num_pages": np})),
            }
        }
    }
    check.sample(json!({"golden": "p4096", "variant": "legacy-header-both-slots", "then": followups(4096).iter().map(|a| a.to_json()).collect::<Vec<_>>()}));
    check.cov("evaluations", json!(counts.0 + refused + produced));
    check.cov("distinct_nontrivial", json!(counts.0));
    check.cov("rule", json!("evaluations = golden-file variants opened and continued (4 page sizes x {as written, legacy header in both slots, legacy header in the older slot}) + mismatching-page-size opens that must be refused byte-identically + files produced by the current tree and parsed by the independent reader; all distinct by construction; non-trivial = golden variants (each holds three-deep nested buckets, multi-page values, a non-empty free list and 6 commits)"));
    check.cov("golden_variants_opened", json!(counts.0));
    check.cov("followup_commits_on_goldens", json!(counts.1));
    check.cov("mismatching_page_size_opens", json!(refused));
    check.cov("files_produced_and_parsed", json!(produced));
    check.cov("exhaustive", json!(true));
}
