//! Scenario definitions (alphabets, bounds, oracles) for the seqx engine, per property.

use crate::real::ProbeCfg;
use crate::refmodel::{blob, OpSpec};
use crate::report::Tier;
use crate::runner::{Action, Cfg, Oracles};
use crate::seqx::{FnAlphabet, Scenario};

fn tx(ops: Vec<OpSpec>) -> Action {
    Action::Tx { ops, commit: true }
}

/// All op sequences of length 1..=m as transactions (commit, and optionally drop), plus reopen.
pub fn txs_of(ops: &[OpSpec], m: usize, with_drop: bool, with_reopen: bool) -> Vec<Action> {
    let mut out = vec![];
    if with_reopen {
        out.push(Action::Reopen);
    }
    let mut seqs: Vec<Vec<OpSpec>> = vec![vec![]];
    for _ in 0..m {
        let mut next = vec![];
        for s in &seqs {
            for o in ops {
                let mut t = s.clone();
                t.push(o.clone());
                next.push(t);
            }
        }
        for t in &next {
            out.push(Action::Tx { ops: t.clone(), commit: true });
            if with_drop {
                out.push(Action::Tx { ops: t.clone(), commit: false });
            }
        }
        seqs = next;
    }
    // simplest first: stable sort by number of ops
    out.sort_by_key(|a| match a {
        Action::Reopen => 0,
        Action::Tx { ops, commit } => ops.len() * 2 + (!*commit) as usize,
        _ => 99,
    });
    out
}

pub const KV_KEYS: [&str; 6] = ["k0", "k1", "k2", "k3", "k4", "k5"];
pub const KV_VALS: [&str; 3] = ["v*8", "w*300", "x*1500"];

pub fn kv_ops(keys: &[&str], vals: &[&str]) -> Vec<OpSpec> {
    let mut ops = vec![];
    for k in keys {
        for v in vals {
            ops.push(OpSpec::put(&["b"], k, v));
        }
    }
    for k in keys {
        ops.push(OpSpec::del(&["b"], k));
    }
    ops
}

fn kv_base(fill: Option<&str>) -> Vec<Action> {
    let mut ops = vec![OpSpec::bucket("create", &[], "b")];
    if let Some(v) = fill {
        for k in KV_KEYS {
            ops.push(OpSpec::put(&["b"], k, v));
        }
    }
    vec![tx(ops)]
}

pub fn nest_ops() -> Vec<OpSpec> {
    let names = ["x", "y"];
    let paths: Vec<Vec<&str>> = vec![vec![], vec!["x"], vec!["y"], vec!["x", "x"], vec!["x", "y"], vec!["y", "x"], vec!["y", "y"]];
    let mut ops = vec![];
    for p in &paths {
        for n in names {
            for kind in ["create", "goc", "getb", "delb"] {
                ops.push(OpSpec::bucket(kind, p, n));
            }
            if !p.is_empty() {
                ops.push(OpSpec::put(p, n, "v*20"));
                ops.push(OpSpec::del(p, n));
            }
        }
    }
    ops
}

/// A smaller nesting alphabet (depth <= 2 below the root) for deeper histories.
pub fn nest_ops_small() -> Vec<OpSpec> {
    let names = ["x", "y"];
    let paths: Vec<Vec<&str>> = vec![vec![], vec!["x"], vec!["x", "y"]];
    let mut ops = vec![];
    for p in &paths {
        for n in names {
            for kind in ["create", "goc", "delb"] {
                ops.push(OpSpec::bucket(kind, p, n));
            }
            if !p.is_empty() {
                ops.push(OpSpec::put(p, n, "v*20"));
                ops.push(OpSpec::del(p, n));
            }
        }
    }
    ops
}

pub fn edge_ops() -> Vec<OpSpec> {
    let keys = ["", "a", "K*1100"];
    let vals = ["", "z", "L*5000"];
    let mut ops = vec![];
    for k in keys {
        for v in vals {
            ops.push(OpSpec::put(&["e"], k, v));
        }
        ops.push(OpSpec::del(&["e"], k));
    }
    // the empty name as a bucket, at the root and nested
    for kind in ["create", "goc", "delb"] {
        ops.push(OpSpec::bucket(kind, &[], ""));
        ops.push(OpSpec::bucket(kind, &["e"], ""));
    }
    ops.push(OpSpec::put(&[""], "a", "z"));
    ops.push(OpSpec::put(&["e", ""], "", "L*5000"));
    ops
}

/// Keys of the subset driver's base trees.
pub fn subset_keys(n: usize, keylen: usize) -> Vec<String> {
    // keylen 9999: mixed sizes (every third key is 300 bytes long, the others are three bytes)
    (0..n).map(|i| if keylen == 9999 { if i % 3 == 0 { format!("s{:02}*300", i * 2 + 1) } else { format!("s{:02}", i * 2 + 1) } } else if keylen > 0 { format!("s{:02}*{}", i * 2 + 1, keylen) } else { format!("s{:02}", i * 2 + 1) }).collect()
}

/// Absent keys placed below, between and above the present ones.
pub fn subset_absent(n: usize, keylen: usize) -> Vec<String> {
    let pos = [0usize, n / 2 | 1, n, 2 * n];
    let mut v: Vec<String> = pos.iter().map(|i| if keylen == 9999 { if i % 2 == 0 { format!("s{:02}*300", i) } else { format!("s{:02}", i) } } else if keylen > 0 { format!("s{:02}*{}", i, keylen) } else { format!("s{:02}", i) }).collect();
    v.sort();
    v.dedup();
    v
}

pub struct SubsetBase {
    pub name: &'static str,
    pub n: usize,
    pub keylen: usize,
    pub val: &'static str,
    /// indices of entries that are nested buckets instead of pairs
    pub buckets: &'static [usize],
}

pub static SUBSET_BASES: [SubsetBase; 6] = [
    SubsetBase { name: "mixed-key-sizes-n11-nested", n: 11, keylen: 9999, val: "w*120", buckets: &[5] },
    SubsetBase { name: "1level-n4", n: 4, keylen: 0, val: "v*100", buckets: &[] },
    SubsetBase { name: "2level-n6", n: 6, keylen: 0, val: "w*300", buckets: &[] },
    SubsetBase { name: "2level-n9-nested", n: 9, keylen: 0, val: "w*300", buckets: &[2, 6] },
    SubsetBase { name: "3level-n12", n: 12, keylen: 200, val: "v*10", buckets: &[] },
    SubsetBase { name: "3level-n14-nested", n: 14, keylen: 200, val: "v*10", buckets: &[4, 9] },
];

pub fn subset_setup(b: &SubsetBase) -> Vec<Action> {
    let keys = subset_keys(b.n, b.keylen);
    let mut ops = vec![OpSpec::bucket("create", &[], "b")];
    for (i, k) in keys.iter().enumerate() {
        if b.buckets.contains(&i) {
            ops.push(OpSpec::bucket("create", &["b"], k));
            ops.push(OpSpec::put(&["b", k], "in", "v*40"));
        } else {
            ops.push(OpSpec::put(&["b"], k, b.val));
        }
    }
    vec![tx(ops), Action::Reopen]
}

/// One transaction: delete the keys in `del_mask`, insert the absent keys in `ins_mask`;
/// nested buckets among the deleted are removed with delete_bucket, the surviving ones are touched.
pub fn subset_action(b: &SubsetBase, del_mask: u32, ins_mask: u32, reverse: bool, split: bool) -> Vec<Action> {
    let keys = subset_keys(b.n, b.keylen);
    let absent = subset_absent(b.n, b.keylen);
    let mut dels = vec![];
    let mut touch = vec![];
    for (i, k) in keys.iter().enumerate() {
        if del_mask >> i & 1 == 1 {
            if b.buckets.contains(&i) {
                dels.push(OpSpec::bucket("delb", &["b"], k));
            } else {
                dels.push(OpSpec::del(&["b"], k));
            }
        } else if b.buckets.contains(&i) {
            touch.push(OpSpec::put(&["b", k], "in2", "v*40"));
        }
    }
    if reverse {
        dels.reverse();
    }
    let mut ins = vec![];
    for (i, k) in absent.iter().enumerate() {
        if ins_mask >> i & 1 == 1 {
            ins.push(OpSpec::put(&["b"], k, b.val));
        }
    }
    if split {
        let mut first = dels;
        first.extend(touch);
        let mut out = vec![];
        if !first.is_empty() {
            out.push(tx(first));
        }
        if !ins.is_empty() {
            out.push(tx(ins));
        }
        out
    } else {
        let mut ops = touch;
        ops.extend(dels);
        ops.extend(ins);
        if ops.is_empty() {
            vec![]
        } else {
            vec![tx(ops)]
        }
    }
}

fn subset_scenarios(tier: Tier, oracles: Oracles, nmax: usize) -> Vec<Scenario> {
    let mut out = vec![];
    for b in SUBSET_BASES.iter() {
        if b.n > nmax {
            continue;
        }
        let nabs = subset_absent(b.n, b.keylen).len();
        let ins_bits = if tier == Tier::Quick && b.n >= 12 { 0 } else if b.n >= 14 { 2 } else { nabs };
        for reverse in [false, true] {
            if reverse && tier == Tier::Quick && b.n >= 9 && b.n != 14 {
                continue;
            }
            let n = 1usize << (b.n + ins_bits);
            let bn = b.n;
            let alpha = FnAlphabet {
                n,
                f: move |i: usize| {
                    let del = (i & ((1 << bn) - 1)) as u32;
                    let ins = (i >> bn) as u32;
                    let acts = subset_action(b, del, ins, reverse, false);
                    acts.into_iter().next().unwrap_or(Action::Tx { ops: vec![OpSpec::bucket("getb", &[], "b")], commit: true })
                },
            };
            let mut sc = Scenario::new(&format!("subset-{}{}", b.name, if reverse { "-rev" } else { "" }), Cfg::default(), subset_setup(b), Box::new(alpha), 1, oracles);
            sc.extra_probes = subset_absent(b.n, b.keylen).iter().map(|s| blob(s)).collect();
            out.push(sc);
        }
    }
    out
}

/// Four-level tree (60 keys of 295 bytes: three per leaf, about three separators per branch page)
/// with nested buckets; one transaction deletes a subset of a window of neighbouring entries and
/// writes into the surviving nested buckets of (or, `touch_all`, outside) the window: merges of
/// leaves, of branch nodes and of their parents in one commit, in both directions.
fn window_subset_scenarios(tier: Tier, oracles: Oracles) -> Vec<Scenario> {
    const N: usize = 60;
    const NESTED: [usize; 3] = [8, 27, 50];
    let key = |i: usize| format!("w{:03}*295", 2 * i + 1);
    let mut ops = vec![OpSpec::bucket("create", &[], "b")];
    for i in 0..N {
        if NESTED.contains(&i) {
            ops.push(OpSpec::bucket("create", &["b"], &key(i)));
            ops.push(OpSpec::put(&["b", &key(i)], "colour", "green"));
        } else {
            ops.push(OpSpec::put(&["b"], &key(i), "v"));
        }
    }
    let setup = vec![tx(ops), Action::Reopen];
    let windows: Vec<(usize, usize, bool)> = if tier == Tier::Quick {
        vec![(4, 9, false), (23, 9, false), (46, 9, true), (0, 8, false), (52, 8, true)]
    } else {
        let mut v: Vec<(usize, usize, bool)> = (0..18).map(|k| (3 * k, 9, k % 2 == 1)).collect();
        v.extend([(3, 12, false), (24, 12, true), (48, 12, false)]);
        v
    };
    let mut out = vec![];
    for (start, width, touch_all) in windows {
        let alpha = FnAlphabet {
            n: 1usize << width,
            f: move |mask: usize| {
                let key = |i: usize| format!("w{:03}*295", 2 * i + 1);
                let mut ops = vec![];
                for &b in NESTED.iter() {
                    let inside = b >= start && b < start + width;
                    let deleted = inside && mask >> (b - start) & 1 == 1;
                    if !deleted && (inside || touch_all) {
                        ops.push(OpSpec::put(&["b", &key(b)], "colour", "blue"));
                    }
                }
                for j in 0..width {
                    let i = start + j;
                    if i < N && mask >> j & 1 == 1 {
                        if NESTED.contains(&i) {
                            ops.push(OpSpec::bucket("delb", &["b"], &key(i)));
                        } else {
                            ops.push(OpSpec::del(&["b"], &key(i)));
                        }
                    }
                }
                if ops.is_empty() {
                    ops.push(OpSpec::bucket("getb", &[], "b"));
                }
                Action::Tx { ops, commit: true }
            },
        };
        let mut sc = Scenario::new(&format!("window-subset-4level-from{}-w{}{}", start, width, if touch_all { "-touch-all-nested" } else { "" }), Cfg::default(), setup.clone(), Box::new(alpha), 1, oracles);
        sc.oracles.probe_after_commit = None;
        sc.oracles.probe_in_tx_end = None;
        out.push(sc);
    }
    out
}

/// The same five-level tree: one transaction puts two absent keys (every ordered pair of the 61
/// gaps between, below and above the stored keys; quick: ascending pairs only) - inserts that
/// land in different subtrees of a deep tree within one transaction.
fn window_put_pairs_scenarios(tier: Tier, oracles: Oracles) -> Vec<Scenario> {
    const N: usize = 60;
    const NESTED: [usize; 3] = [8, 27, 50];
    let key = |i: usize| format!("w{:03}*295", 2 * i + 1);
    let mut ops = vec![OpSpec::bucket("create", &[], "b")];
    for i in 0..N {
        if NESTED.contains(&i) {
            ops.push(OpSpec::bucket("create", &["b"], &key(i)));
            ops.push(OpSpec::put(&["b", &key(i)], "colour", "green"));
        } else {
            ops.push(OpSpec::put(&["b"], &key(i), "v"));
        }
    }
    let setup = vec![tx(ops), Action::Reopen];
    let gaps = N + 1;
    let both_orders = tier == Tier::Thorough;
    let n = if both_orders { gaps * gaps } else { gaps * (gaps - 1) / 2 };
    let alpha = FnAlphabet {
        n,
        f: move |idx: usize| {
            let (i, j) = if both_orders {
                (idx / gaps, idx % gaps)
            } else {
                // idx-th pair i < j
                let mut rest = idx;
                let mut i = 0;
                while rest >= gaps - 1 - i {
                    rest -= gaps - 1 - i;
                    i += 1;
                }
                (i, i + 1 + rest)
            };
            let gap = |g: usize| format!("w{:03}*295", 2 * g);
            let mut ops = vec![OpSpec::put(&["b"], &gap(i), "first")];
            if i != j {
                ops.push(OpSpec::put(&["b"], &gap(j), "second"));
            }
            Action::Tx { ops, commit: true }
        },
    };
    let mut sc = Scenario::new("put-pairs-5level", Cfg::default(), setup, Box::new(alpha), 1, oracles);
    sc.oracles.probe_after_commit = None;
    sc.oracles.probe_in_tx_end = None;
    vec![sc]
}

/// Subset driver split over two transactions (deletes, then inserts), from every base.
fn subset_split_scenarios(oracles: Oracles, nmax: usize) -> Vec<Scenario> {
    let mut out = vec![];
    for b in SUBSET_BASES.iter() {
        if b.n > nmax {
            continue;
        }
        // depth 2: first level = delete subsets, second level = insert subsets
        let nabs = subset_absent(b.n, b.keylen).len();
        let nd = 1usize << b.n;
        let ni = 1usize << nabs;
        let bn = b.n;
        let alpha = FnAlphabet {
            n: nd + ni,
            f: move |i: usize| {
                if i < nd {
                    subset_action(b, i as u32, 0, false, true).into_iter().next().unwrap_or(Action::Tx { ops: vec![OpSpec::bucket("getb", &[], "b")], commit: true })
                } else {
                    subset_action(b, 0, (i - nd) as u32, false, true).into_iter().next().unwrap_or(Action::Tx { ops: vec![OpSpec::bucket("getb", &[], "b")], commit: true })
                }
            },
        };
        let _ = bn;
        let mut sc = Scenario::new(&format!("subset2tx-{}", b.name), Cfg::default(), subset_setup(b), Box::new(alpha), 2, oracles);
        sc.extra_probes = subset_absent(b.n, b.keylen).iter().map(|s| blob(s)).collect();
        out.push(sc);
    }
    out
}

fn c01_like(tier: Tier, oracles: Oracles, with_drop: bool) -> Vec<Scenario> {
    let mut out = vec![];
    let q = tier == Tier::Quick;
    // kv driver
    let ops = kv_ops(&KV_KEYS, &KV_VALS);
    out.push(Scenario::new("kv-empty-m1", Cfg::default(), kv_base(None), Box::new(txs_of(&ops, 1, with_drop, true)), if q { 3 } else { 4 }, oracles));
    out.push(Scenario::new("kv-full300-m1", Cfg::default(), kv_base(Some("w*300")), Box::new(txs_of(&ops, 1, with_drop, true)), if q { 3 } else { 4 }, oracles));
    out.push(Scenario::new("kv-full300-m2", Cfg::default(), kv_base(Some("w*300")), Box::new(txs_of(&ops, 2, with_drop, true)), if q { 1 } else { 2 }, oracles));
    out.push(Scenario::new("kv-full8-m2", Cfg::default(), kv_base(Some("v*8")), Box::new(txs_of(&ops, 2, with_drop, true)), if q { 1 } else { 2 }, oracles));
    if !q {
        out.push(Scenario::new("kv-empty-m3", Cfg::default(), kv_base(None), Box::new(txs_of(&ops, 3, false, true)), 1, oracles));
        out.push(Scenario::new("kv-full1500-m2", Cfg::default(), kv_base(Some("x*1500")), Box::new(txs_of(&ops, 2, with_drop, true)), 2, oracles));
    }
    // the kv driver at other page sizes (values scaled with the page, so the same split / merge /
    // overflow thresholds are crossed)
    for (ps, small, third, over) in [(4096u64, "v*8", "w*1200", "x*6000"), (1032, "v*8", "w*303", "x*1512"), (16384, "v*8", "w*4800", "x*24000")] {
        if q && ps == 16384 {
            continue;
        }
        let vals = [small, third, over];
        let pops = kv_ops(&KV_KEYS, &vals);
        out.push(Scenario::new(&format!("kv-full-p{}-m1", ps), Cfg { pagesize: ps, ..Cfg::default() }, kv_base(Some(third)), Box::new(txs_of(&pops, 1, with_drop, true)), if q { 2 } else { 3 }, oracles));
    }
    // the (legal) empty key in a bucket large enough to have a branch page: the first separator is ""
    {
        let mut setup_ops = vec![OpSpec::bucket("create", &[], "b"), OpSpec::put(&["b"], "", "w*300")];
        for k in KV_KEYS {
            setup_ops.push(OpSpec::put(&["b"], k, "w*300"));
        }
        let ekeys = ["", "k0", "k3"];
        let eops = kv_ops(&ekeys, &KV_VALS);
        out.push(Scenario::new("kv-full300-with-empty-key-m1", Cfg::default(), vec![tx(setup_ops), Action::Reopen], Box::new(txs_of(&eops, 1, with_drop, true)), if q { 2 } else { 3 }, oracles));
    }
    // nest driver
    let nops = nest_ops();
    let nsmall = nest_ops_small();
    let empty_setup: Vec<Action> = vec![];
    out.push(Scenario::new("nest-m2", Cfg::default(), empty_setup.clone(), Box::new(txs_of(&nops, 2, with_drop, true)), if q { 1 } else { 2 }, oracles));
    out.push(Scenario::new("nest-small-m2", Cfg::default(), empty_setup.clone(), Box::new(txs_of(&nsmall, 2, with_drop, true)), if q { 2 } else { 3 }, oracles));
    out.push(Scenario::new("nest-small-m3", Cfg::default(), empty_setup.clone(), Box::new(txs_of(&nsmall, 3, false, true)), if q { 1 } else { 2 }, oracles));
    // the same alphabet with bucket names, keys and values passed as String / Vec<u8> / bytes::Bytes
    out.push(Scenario::new("nest-small-m2-owned-args", Cfg { owned_args: true, ..Cfg::default() }, empty_setup.clone(), Box::new(txs_of(&nsmall, 2, with_drop, true)), 2, oracles));
    if !q {
        out.push(Scenario::new("nest-m3", Cfg::default(), empty_setup.clone(), Box::new(txs_of(&nops, 3, false, false)), 1, oracles));
    }
    // edge driver
    let eops = edge_ops();
    let esetup = vec![tx(vec![OpSpec::bucket("create", &[], "e")])];
    let mut sc = Scenario::new("edge-m2", Cfg::default(), esetup.clone(), Box::new(txs_of(&eops, 2, with_drop, true)), if q { 1 } else { 2 }, oracles);
    sc.extra_probes = vec![blob(""), blob("a"), blob("K*1100")];
    out.push(sc);
    let mut sc = Scenario::new("edge-m1-owned-args", Cfg { owned_args: true, ..Cfg::default() }, esetup, Box::new(txs_of(&eops, 1, with_drop, true)), if q { 2 } else { 3 }, oracles);
    sc.extra_probes = vec![blob(""), blob("a"), blob("K*1100")];
    out.push(sc);
    // bulk: whole blocks of keys and buckets per transaction (three- and four-level trees, hundreds
    // of buckets, free lists that need more than one page); not in probing mode (C07 reads the whole
    // bucket after every single operation, which is quadratic in the transaction length)
    if oracles.probe_each_op.is_none() {
        let block = |b: usize, n: usize, val: &str| -> Vec<OpSpec> { (0..n).map(|i| OpSpec::put(&["bulk"], &format!("b{}-{:04}", b, i), val)).collect() };
        let del_block = |b: usize, n: usize, step: usize| -> Vec<OpSpec> { (0..n).step_by(step).map(|i| OpSpec::del(&["bulk"], &format!("b{}-{:04}", b, i))).collect() };
        let nb = if q { 1200 } else { 2500 };
        let mut acts: Vec<Action> = vec![Action::Reopen];
        for b in 0..3 {
            acts.push(tx(block(b, nb, if b == 1 { "w*90" } else { "v*30" })));
            acts.push(tx(del_block(b, nb, 1)));
            acts.push(tx(del_block(b, nb, 2)));
        }
        let mut mk = vec![OpSpec::bucket("goc", &["bulk"], "many")];
        for i in 0..150 {
            mk.push(OpSpec::bucket("goc", &["bulk", "many"], &format!("n{:03}", i)));
            mk.push(OpSpec::put(&["bulk", "many", &format!("n{:03}", i)], "x", "v*40"));
        }
        acts.push(tx(mk));
        acts.push(tx((0..150).step_by(3).map(|i| OpSpec::bucket("delb", &["bulk", "many"], &format!("n{:03}", i))).collect()));
        acts.push(tx(vec![OpSpec::bucket("delb", &["bulk"], "many")]));
        acts.push(tx(vec![OpSpec::put(&["bulk"], "b1-0007", "x*1500"), OpSpec::put(&["bulk"], "zz", "v*8")]));
        let sc = Scenario::new("bulk-blocks", Cfg { num_pages: 16, ..Cfg::default() }, vec![tx(vec![OpSpec::bucket("create", &[], "bulk")])], Box::new(acts), if q { 3 } else { 4 }, oracles);
        out.push(sc);
    }
    // text keys, values and bucket names with multi-byte UTF-8 characters, handed over as owned
    // Strings (byte length != character count), in transactions big enough to split leaves, so
    // that such keys become separators
    {
        let key = |i: usize| format!("ключ-ééééééééééééééééééééééééé-{:02}*120", i);
        let mut acts: Vec<Action> = vec![Action::Reopen];
        let mut a = vec![OpSpec::bucket("goc", &[], "ведро")];
        for i in 0..10 {
            a.push(OpSpec::put(&["ведро"], &key(2 * i), "значение-ü*200"));
        }
        acts.push(tx(a));
        acts.push(tx((0..10).step_by(2).map(|i| OpSpec::del(&["ведро"], &key(2 * i))).collect()));
        let mut c = vec![OpSpec::bucket("goc", &["ведро"], "внутри-üüüüüüüüüüüü")];
        for i in 0..8 {
            c.push(OpSpec::put(&["ведро", "внутри-üüüüüüüüüüüü"], &key(2 * i + 1), "ß*300"));
            c.push(OpSpec::put(&["ведро"], &key(2 * i + 1), "日本語*150"));
        }
        acts.push(tx(c));
        acts.push(tx(vec![OpSpec::bucket("delb", &["ведро"], "внутри-üüüüüüüüüüüü"), OpSpec::put(&["ведро"], "ключ", "ü")]));
        let sc = Scenario::new("utf8-text-owned-strings", Cfg { owned_args: true, ..Cfg::default() }, vec![], Box::new(acts), if q { 3 } else { 4 }, oracles);
        out.push(sc);
    }
    // commits that fail at one of their I/O calls (the first ones: reserving space for a growing
    // file, mapping it, the data writes and syncs, the header write) followed by ordinary commits to
    // another bucket on the same handle
    {
        let setup_ops = vec![OpSpec::bucket("create", &[], "x"), OpSpec::bucket("create", &[], "y"), OpSpec::put(&["x"], "a", "v*40"), OpSpec::put(&["y"], "a", "v*40")];
        let big = vec![OpSpec::put(&["x"], "big", "L*5000"), OpSpec::del(&["x"], "a"), OpSpec::put(&["x"], "b", "w*300")];
        let mut acts: Vec<Action> = vec![Action::Reopen];
        for k in 0..9u64 {
            acts.push(Action::TxFail { ops: big.clone(), call: 2000 + k });
        }
        acts.push(tx(vec![OpSpec::put(&["y"], "k1", "w*300")]));
        acts.push(tx(vec![OpSpec::put(&["y"], "k2", "x*1500"), OpSpec::del(&["y"], "a")]));
        acts.push(tx(big.clone()));
        let sc = Scenario::new("failed-commits-then-commits-elsewhere", Cfg { num_pages: 8, ..Cfg::default() }, vec![tx(setup_ops)], Box::new(acts), if q { 3 } else { 4 }, oracles);
        out.push(sc);
    }
    // leaves that cannot be split (four entries or fewer) and span several pages because of one
    // oversized value, while also holding the entries of nested buckets (which have trees of their own)
    {
        let setup_ops = vec![
            OpSpec::bucket("create", &[], "m"),
            OpSpec::put(&["m"], "big", "x*1500"),
            OpSpec::bucket("create", &["m"], "sub"),
            OpSpec::put(&["m", "sub"], "huge", "L*5000"),
            OpSpec::bucket("create", &["m", "sub"], "deep"),
            OpSpec::bucket("create", &[], "keep"),
            OpSpec::put(&["keep"], "x", "v*50"),
        ];
        let mut fill = vec![];
        for i in 0..7 {
            fill.push(OpSpec::put(&["m", "sub", "deep"], &format!("d{}", i), "w*300"));
        }
        let mops = vec![
            OpSpec::bucket("delb", &[], "m"),
            OpSpec::bucket("delb", &["m"], "sub"),
            OpSpec::bucket("delb", &["m", "sub"], "deep"),
            OpSpec::put(&["m"], "big", "v*8"),
            OpSpec::put(&["m"], "big", "M*2500"),
            OpSpec::put(&["m", "sub"], "huge", "v*8"),
            OpSpec::put(&["m", "sub", "deep"], "d0", "x*1500"),
            OpSpec::bucket("goc", &["m"], "sub"),
            OpSpec::bucket("goc", &[], "m"),
            OpSpec::put(&["keep"], "y", "w*300"),
        ];
        let sc = Scenario::new("overflow-leaf-with-nested-buckets-m2", Cfg::default(), vec![tx(setup_ops), tx(fill), Action::Reopen], Box::new(txs_of(&mops, 2, with_drop, true)), if q { 2 } else { 3 }, oracles);
        out.push(sc);
    }
    // keys of a third of a page: branch pages with few, long separators overflow onto a second page
    {
        let bk: Vec<String> = (0..8).map(|i| format!("K{}*350", i)).collect();
        let mut setup_ops = vec![OpSpec::bucket("create", &[], "p"), OpSpec::bucket("create", &["p"], "k"), OpSpec::bucket("create", &[], "top")];
        for k in &bk {
            setup_ops.push(OpSpec::put(&["p", "k"], k, "v*8"));
            setup_ops.push(OpSpec::put(&["top"], k, "v*8"));
        }
        setup_ops.push(OpSpec::put(&["p"], "side", "v*8"));
        let mut bops = vec![
            OpSpec::bucket("delb", &["p"], "k"),
            OpSpec::bucket("delb", &[], "top"),
            OpSpec::bucket("delb", &[], "p"),
            OpSpec::bucket("goc", &["p"], "k"),
            OpSpec::bucket("goc", &[], "top"),
        ];
        for k in [&bk[0], &bk[3], &bk[7]] {
            bops.push(OpSpec::del(&["p", "k"], k));
            bops.push(OpSpec::del(&["top"], k));
            bops.push(OpSpec::put(&["top"], k, "w*300"));
        }
        bops.push(OpSpec::put(&["p", "k"], "K9*350", "v*8"));
        bops.push(OpSpec::put(&["top"], "K4a*700", "v*8"));
        let sc = Scenario::new("big-keys-m2", Cfg::default(), vec![tx(setup_ops), Action::Reopen], Box::new(txs_of(&bops, 2, with_drop, true)), if q { 2 } else { 3 }, oracles);
        out.push(sc);
    }
    // hundreds of sibling buckets (more than 512) around a bucket whose nested bucket is modified;
    // checked by return values and a complete scan of the write transaction before it ends
    {
        let mut mk = vec![OpSpec::bucket("create", &[], "p")];
        for i in 0..560 {
            mk.push(OpSpec::bucket("create", &["p"], &format!("s{:03}", i)));
            mk.push(OpSpec::put(&["p", &format!("s{:03}", i)], "x", "v*12"));
        }
        mk.push(OpSpec::bucket("create", &["p", "s300"], "deep"));
        mk.push(OpSpec::put(&["p", "s300", "deep"], "k0", "w*300"));
        let sops = vec![
            OpSpec::put(&["p", "s300", "deep"], "k", "w*300"),
            OpSpec::del(&["p", "s300", "deep"], "k0"),
            OpSpec::put(&["p", "s100"], "x", "v*9"),
            OpSpec::bucket("delb", &["p"], "s200"),
            OpSpec::bucket("goc", &["p", "s559"], "late"),
        ];
        let mut sc = Scenario::new("many-sibling-buckets-m2", Cfg { num_pages: 2048, ..Cfg::default() }, vec![tx(mk), Action::Reopen], Box::new(txs_of(&sops, 2, with_drop, true)), if q { 1 } else { 2 }, oracles);
        if oracles.probe_each_op.is_some() {
            sc.oracles = Oracles { rets: true, dump_in_tx: true, dump_after: true, ..Oracles::NONE };
        }
        sc.oracles.probe_in_tx_end = None;
        sc.oracles.probe_after_commit = None;
        out.push(sc);
    }
    // binary keys (bytes 0x00, 0x7f, 0x80, 0xff), keys that are prefixes of each other, values of 0 and
    // 1 byte, a key equal to a bucket name
    {
        let bkeys = ["0x00", "0x0000", "0x7f", "0x80", "0x80ff", "0xff", "0xff00", "a", "ab", "abc"];
        let mut setup_ops = vec![OpSpec::bucket("create", &[], "bin"), OpSpec::bucket("create", &["bin"], "0x80aa")];
        for k in bkeys {
            setup_ops.push(OpSpec::put(&["bin"], k, "w*300"));
        }
        let mut bops = vec![];
        for k in ["0x00", "0x7f", "0x80", "0xff", "ab", "0x80aa", "0xffff"] {
            for v in ["", "z", "w*300"] {
                bops.push(OpSpec::put(&["bin"], k, v));
            }
            bops.push(OpSpec::del(&["bin"], k));
        }
        bops.push(OpSpec::bucket("goc", &["bin"], "0x80"));
        bops.push(OpSpec::bucket("delb", &["bin"], "0x80aa"));
        bops.push(OpSpec::bucket("create", &["bin"], "0xff01"));
        bops.push(OpSpec::put(&["bin", "0x80aa"], "0x80aa", "z"));
        let mut sc = Scenario::new("binary-and-prefix-keys-m1", Cfg::default(), vec![tx(setup_ops), Action::Reopen], Box::new(txs_of(&bops, 1, with_drop, true)), if q { 2 } else { 3 }, oracles);
        sc.extra_probes = vec![blob("0x7fff"), blob("0x8000"), blob("0xfe"), blob("aa")];
        out.push(sc);
    }
    // 150 keys sharing a 180-byte prefix (separators differ only in their last bytes)
    if oracles.probe_each_op.is_none() {
        let key = |i: usize| format!("{}{:04}", "commonprefix-".repeat(14), i * 7);
        let mut acts: Vec<Action> = vec![Action::Reopen];
        acts.push(tx((0..150).map(|i| OpSpec::put(&["pf"], &key(i), "v*40")).collect()));
        acts.push(tx((0..150).step_by(2).map(|i| OpSpec::del(&["pf"], &key(i))).collect()));
        acts.push(tx((0..150).step_by(3).map(|i| OpSpec::put(&["pf"], &key(i), "w*300")).collect()));
        acts.push(tx((75..150).map(|i| OpSpec::del(&["pf"], &key(i))).collect()));
        acts.push(tx(vec![OpSpec::put(&["pf"], &format!("{}x", "commonprefix-".repeat(14)), "z"), OpSpec::put(&["pf"], &"commonprefix-".repeat(13), "")]));
        let mut sc = Scenario::new("long-common-prefix", Cfg::default(), vec![tx(vec![OpSpec::bucket("create", &[], "pf")])], Box::new(acts), if q { 3 } else { 4 }, oracles);
        sc.oracles.probe_in_tx_end = None;
        out.push(sc);
    }
    // five levels of nesting: operations at the two deepest levels, deleting ancestors
    {
        let deep_setup = vec![tx(vec![
            OpSpec::bucket("create", &[], "a"),
            OpSpec::bucket("create", &["a"], "b"),
            OpSpec::bucket("create", &["a", "b"], "c"),
            OpSpec::bucket("create", &["a", "b", "c"], "d"),
            OpSpec::put(&["a", "b", "c", "d"], "k", "w*300"),
            OpSpec::put(&["a", "b", "c"], "k", "v*20"),
            OpSpec::put(&["a"], "k", "v*20"),
        ])];
        let dops = vec![
            OpSpec::bucket("goc", &["a", "b", "c", "d"], "e"),
            OpSpec::put(&["a", "b", "c", "d", "e"], "k", "x*1500"),
            OpSpec::put(&["a", "b", "c", "d"], "k2", "w*300"),
            OpSpec::del(&["a", "b", "c", "d"], "k"),
            OpSpec::bucket("delb", &["a", "b", "c", "d"], "e"),
            OpSpec::bucket("delb", &["a", "b", "c"], "d"),
            OpSpec::bucket("delb", &["a", "b"], "c"),
            OpSpec::bucket("delb", &[], "a"),
            OpSpec::bucket("create", &["a", "b", "c"], "d"),
            OpSpec::bucket("goc", &["a", "b"], "c"),
            OpSpec::bucket("getb", &["a", "b", "c", "d"], "e"),
        ];
        out.push(Scenario::new("deep-nest-m2", Cfg::default(), deep_setup, Box::new(txs_of(&dops, 2, with_drop, true)), if q { 2 } else { 3 }, oracles));
    }
    // a bucket holding sub-buckets and pairs with interleaved names, and one holding only buckets
    {
        let mixed_setup = vec![tx(vec![
            OpSpec::bucket("create", &[], "m"),
            OpSpec::put(&["m"], "a0", "v*20"),
            OpSpec::bucket("create", &["m"], "b1"),
            OpSpec::put(&["m"], "b2", "w*300"),
            OpSpec::bucket("create", &["m"], "b3"),
            OpSpec::put(&["m"], "c4", "v*20"),
            OpSpec::put(&["m", "b1"], "in", "v*20"),
            OpSpec::bucket("create", &[], "only"),
            OpSpec::bucket("create", &["only"], "o1"),
            OpSpec::bucket("create", &["only"], "o2"),
        ])];
        let mops = vec![
            OpSpec::bucket("delb", &["m"], "b1"),
            OpSpec::bucket("delb", &["m"], "b3"),
            OpSpec::bucket("goc", &["m"], "b1"),
            OpSpec::bucket("create", &["m"], "a1"),
            OpSpec::del(&["m"], "b2"),
            OpSpec::del(&["m"], "a0"),
            OpSpec::put(&["m"], "b2", "x*1500"),
            OpSpec::put(&["m"], "b1", "v*20"),
            OpSpec::del(&["m"], "b1"),
            OpSpec::bucket("delb", &["m"], "b2"),
            OpSpec::bucket("delb", &["only"], "o1"),
            OpSpec::bucket("delb", &["only"], "o2"),
            OpSpec::put(&["only", "o2"], "k", "v*20"),
            OpSpec::bucket("create", &["only"], "o0"),
        ];
        out.push(Scenario::new("mixed-buckets-and-pairs-m2", Cfg::default(), mixed_setup, Box::new(txs_of(&mops, 2, with_drop, true)), if q { 2 } else { 3 }, oracles));
    }
    // boundary sizes at page size 1024 (page header 40, leaf element 32): five entries whose node is
    // one byte short of a page / exactly a page / one byte more (the split rule compares with the
    // page size), and a single entry whose node ends one byte before / at / after the end of its
    // second page (the overflow count is a ceiling division)
    {
        let mut setup_ops = vec![OpSpec::bucket("create", &[], "z"), OpSpec::bucket("create", &[], "o")];
        for i in 0..4 {
            setup_ops.push(OpSpec::put(&["z"], &format!("z{}", i), "s*160"));
        }
        setup_ops.push(OpSpec::put(&["z"], "z4", "s*174"));
        setup_ops.push(OpSpec::put(&["o"], "o", "t*1975"));
        let mut zops = vec![];
        for v in ["s*173", "s*174", "s*175"] {
            zops.push(OpSpec::put(&["z"], "z4", v));
            zops.push(OpSpec::put(&["z"], "z0", v));
        }
        for v in ["t*1974", "t*1975", "t*1976", "t*951", "t*952"] {
            zops.push(OpSpec::put(&["o"], "o", v));
        }
        zops.push(OpSpec::put(&["z"], "z5", "s*1"));
        zops.push(OpSpec::del(&["z"], "z2"));
        zops.push(OpSpec::put(&["o"], "p", ""));
        let sc = Scenario::new("boundary-sizes-m2", Cfg::default(), vec![tx(setup_ops), Action::Reopen], Box::new(txs_of(&zops, 2, with_drop, true)), if q { 2 } else { 3 }, oracles);
        out.push(sc);
    }
    // values of many pages: a single commit that has to extend the file by more than one step
    {
        let mut hops = vec![
            OpSpec::put(&["h"], "big", "H*9500000"),
            OpSpec::put(&["h"], "bigger", "I*17900000"),
            OpSpec::put(&["h"], "small", "v*8"),
            OpSpec::del(&["h"], "big"),
            OpSpec::del(&["h"], "bigger"),
        ];
        if oracles.probe_each_op.is_none() {
            // more than 65 535 pages in one value (page ids and overflow counts beyond 16 bits)
            hops.push(OpSpec::put(&["h"], "giant", "J*68000000"));
            hops.push(OpSpec::del(&["h"], "giant"));
        }
        let hsetup = vec![tx(vec![OpSpec::bucket("create", &[], "h")])];
        let mut sc = Scenario::new("huge-values", Cfg { num_pages: 8, ..Cfg::default() }, hsetup, Box::new(txs_of(&hops, if q { 1 } else { 2 }, false, true)), 2, oracles);
        sc.extra_probes = vec![blob("big")];
        out.push(sc);
    }
    // subset driver
    out.extend(subset_scenarios(tier, oracles, 14));
    if oracles.probe_each_op.is_none() {
        out.extend(window_subset_scenarios(tier, oracles));
    }
    out.extend(window_put_pairs_scenarios(tier, oracles));
    if !q {
        out.extend(subset_split_scenarios(oracles, 12));
    } else {
        out.extend(subset_split_scenarios(oracles, 9));
    }
    // the read-API probes at the end of / after every transaction are quadratic in the bucket size:
    // not for the bulk and huge-value families; the subset family is probed inside the transaction only
    for sc in out.iter_mut() {
        if sc.name.starts_with("bulk") || sc.name.starts_with("huge") {
            sc.oracles.probe_in_tx_end = None;
            sc.oracles.probe_after_commit = None;
        }
        if sc.name.starts_with("subset") {
            // inside the deleting transaction only (emptied leaves exist only there)
            sc.oracles.probe_after_commit = None;
        }
    }
    out
}

fn c06_scenarios(tier: Tier) -> Vec<Scenario> {
    let q = tier == Tier::Quick;
    let or = Oracles { rets: true, dump_after: true, no_trace: true, fileck: true, dbcheck: true, ..Oracles::NONE };
    let mut out = vec![];
    // big abandoned transactions on a populated two-level tree with nested buckets
    let mut base_ops = vec![OpSpec::bucket("create", &[], "b"), OpSpec::bucket("create", &[], "big")];
    for k in KV_KEYS {
        base_ops.push(OpSpec::put(&["b"], k, "w*300"));
    }
    base_ops.push(OpSpec::bucket("create", &["big"], "n1"));
    base_ops.push(OpSpec::bucket("create", &["big", "n1"], "n2"));
    for i in 0..8 {
        base_ops.push(OpSpec::put(&["big", "n1"], &format!("a{}", i), "w*300"));
        base_ops.push(OpSpec::put(&["big", "n1", "n2"], &format!("c{}", i), "x*1500"));
    }
    let setup = vec![tx(base_ops)];
    // menu of transaction bodies (each used both committed and dropped)
    let mut bulk = vec![];
    for i in 0..12 {
        bulk.push(OpSpec::put(&["b"], &format!("bulk{:02}", i), "w*300"));
    }
    let bodies: Vec<Vec<OpSpec>> = vec![
        vec![OpSpec::put(&["b"], "k0", "v*8")],
        vec![OpSpec::del(&["b"], "k1"), OpSpec::del(&["b"], "k2")],
        bulk,
        vec![OpSpec::bucket("delb", &[], "big")],
        vec![OpSpec::bucket("delb", &["big", "n1"], "n2"), OpSpec::bucket("delb", &["big"], "n1")],
        vec![OpSpec::put(&["b"], "k3", "x*1500"), OpSpec::put(&["big", "n1"], "a0", "L*5000")],
        vec![OpSpec::bucket("delb", &[], "b"), OpSpec::bucket("create", &[], "b"), OpSpec::put(&["b"], "k0", "w*300")],
        // calls that fail, followed by a valid one: errors must change nothing
        vec![OpSpec::bucket("create", &[], "b"), OpSpec::del(&["b"], "nope"), OpSpec::put(&["big"], "n1", "v*8"), OpSpec::bucket("delb", &["b"], "k0"), OpSpec::put(&["b"], "k5", "v*8")],
    ];
    let mut alpha: Vec<Action> = vec![Action::Reopen];
    for b in &bodies {
        alpha.push(Action::Tx { ops: b.clone(), commit: true });
    }
    for b in &bodies {
        alpha.push(Action::Tx { ops: b.clone(), commit: false });
    }
    // every mutator of the public API through a read-only transaction, at every level
    let mut ro_ops = vec![];
    for p in [vec![], vec!["b"], vec!["big"], vec!["big", "n1"]] {
        for kind in ["create", "goc", "delb"] {
            ro_ops.push(OpSpec::bucket(kind, &p, "n1"));
            ro_ops.push(OpSpec::bucket(kind, &p, "fresh"));
        }
        if !p.is_empty() {
            ro_ops.push(OpSpec::put(&p, "k0", "v*8"));
            ro_ops.push(OpSpec::put(&p, "fresh", "v*8"));
            ro_ops.push(OpSpec::del(&p, "k0"));
            ro_ops.push(OpSpec::del(&p, "a0"));
        }
    }
    alpha.push(Action::RoTx { ops: ro_ops });
    alpha.push(Action::RoCommit);
    // opening an existing database with another page size is refused and changes nothing
    for ps in [4096u64, 65536] {
        alpha.push(Action::OpenWrongPagesize(ps));
    }
    // commits that report an I/O error before anything reached the header: a call that returns an
    // error changes nothing
    for b in bodies.iter().take(4) {
        alpha.push(Action::TxFail { ops: b.clone(), call: 0 });
        alpha.push(Action::TxFail { ops: b.clone(), call: 2 });
    }
    // a commit whose final sync reports an error: whichever state is visible afterwards must be
    // complete, and the commits that follow must leave a well-formed file
    alpha.push(Action::TxFail { ops: bodies[0].clone(), call: 1001 });
    alpha.push(Action::TxFail { ops: bodies[3].clone(), call: 1001 });
    let followups: Vec<Action> = bodies.iter().take(6).map(|b| Action::Tx { ops: b.clone(), commit: true }).collect();
    let mut sc = Scenario::new("rollback-menu", Cfg::default(), setup.clone(), Box::new(alpha), if q { 3 } else { 5 }, or);
    sc.drop_keeps_digest = true;
    sc.failed_calls_noop = true;
    sc.bisim_followups = followups;
    out.push(sc);
    // one header slot torn (as a crash or a short header write leaves it), then commits that fail at
    // every one of their I/O calls: the slot is wiped before it is written again, and a failure
    // anywhere in that sequence must leave the committed state readable
    {
        let small = vec![OpSpec::put(&["b"], "k0", "v*8")];
        let mut alpha: Vec<Action> = vec![Action::TearOtherSlot, Action::Reopen, Action::OpenWrongPagesize(16384), Action::OpenWrongPagesize(1032), Action::Tx { ops: small.clone(), commit: true }, Action::Tx { ops: bodies[1].clone(), commit: false }];
        for call in 0..16 {
            alpha.push(Action::TxFail { ops: small.clone(), call: 2000 + call });
        }
        for call in [1000, 1001, 1002] {
            alpha.push(Action::TxFail { ops: small.clone(), call });
        }
        // reading (and "committing" a reader) on a file with a torn slot writes nothing
        alpha.push(Action::RoTx { ops: vec![OpSpec::put(&["b"], "k0", "v*8"), OpSpec::bucket("goc", &[], "fresh")] });
        alpha.push(Action::RoCommit);
        // headers in the slots of the pinned release (a no-op unless the alternation rule changed), and
        // writes that are cut short before they fail
        alpha.push(Action::PinnedLayout);
        for call in 2..14 {
            alpha.push(Action::TxFail { ops: small.clone(), call: 3000 + call });
        }
        let or2 = Oracles { rets: true, dump_after: true, fileck: true, dbcheck: true, no_trace: true, ..Oracles::NONE };
        let sc = Scenario::new("torn-slot-failing-commits", Cfg::default(), vec![tx(vec![OpSpec::bucket("create", &[], "b"), OpSpec::put(&["b"], "k0", "w*300"), OpSpec::put(&["b"], "k1", "w*300")]), tx(vec![OpSpec::put(&["b"], "k2", "w*300")])], Box::new(alpha), if q { 3 } else { 4 }, or2);
        out.push(sc);
    }
    // commits whose final sync fails (the error is reported; whichever state is visible, nothing else
    // may have changed) while older readers are open: they keep their snapshots through the
    // commits that follow
    {
        let mut alpha: Vec<Action> = vec![Action::OpenReader, Action::CloseReader(0), Action::CloseReader(1)];
        for b in [&bodies[0], &bodies[1], &bodies[5]] {
            alpha.push(Action::Tx { ops: b.clone(), commit: true });
        }
        for b in [&bodies[1], &bodies[5]] {
            alpha.push(Action::TxFail { ops: b.clone(), call: 1001 });
            alpha.push(Action::TxFail { ops: b.clone(), call: 4000 });
        }
        alpha.push(Action::Tx { ops: bodies[4].clone(), commit: false });
        let or5 = Oracles { rets: true, dump_after: true, readers_frozen: true, fileck: true, dbcheck: true, ..Oracles::NONE };
        let mut sc = Scenario::new("failed-commits-with-open-readers", Cfg { num_pages: 2000, ..Cfg::default() }, setup.clone(), Box::new(alpha), if q { 5 } else { 6 }, or5);
        sc.max_readers = 2;
        sc.poison_unmap = true;
        out.push(sc);
    }
    // calls that return an error inside transactions that are then committed, on a bucket that
    // spans several leaves (the refused call addresses another leaf than the real change): the
    // commit must write exactly what it writes without those calls
    {
        let mut mk = vec![OpSpec::bucket("create", &[], "t"), OpSpec::bucket("create", &[], "u")];
        for i in 0..8 {
            mk.push(OpSpec::put(&["t"], &format!("a{}", i), "w*300"));
        }
        for n in ["a0s", "a7s"] {
            mk.push(OpSpec::bucket("create", &["t"], n));
            mk.push(OpSpec::put(&["t", n], "in", "v*20"));
        }
        for i in 0..40 {
            mk.push(OpSpec::bucket("create", &[], &format!("r{:02}-pad-pad-pad-pad-pad-pad-pad", i)));
        }
        let t = |v: Vec<OpSpec>| Action::Tx { ops: v, commit: true };
        let alpha: Vec<Action> = vec![
            t(vec![OpSpec::put(&["t"], "a0s", "v*8"), OpSpec::put(&["t"], "a7", "y*300")]),
            t(vec![OpSpec::bucket("create", &["t"], "a0s"), OpSpec::put(&["t"], "a7", "z*300")]),
            t(vec![OpSpec::bucket("create", &["t"], "a7s"), OpSpec::put(&["t"], "a0", "y*300")]),
            t(vec![OpSpec::put(&["t"], "a7s", "v*8"), OpSpec::put(&["t"], "a0", "z*300")]),
            t(vec![OpSpec::del(&["t"], "nope"), OpSpec::bucket("delb", &["t"], "a3"), OpSpec::bucket("goc", &["t"], "a4"), OpSpec::put(&["t"], "a0", "q*300")]),
            t(vec![OpSpec::bucket("delb", &["t"], "zzz"), OpSpec::bucket("getb", &["t"], "zzz"), OpSpec::put(&["t"], "a7", "q*300")]),
            // the same at the root, which spans several leaves too
            t(vec![OpSpec::bucket("create", &[], "r00-pad-pad-pad-pad-pad-pad-pad"), OpSpec::bucket("delb", &[], "nope"), OpSpec::put(&["u"], "k", "v*8")]),
            t(vec![OpSpec::bucket("create", &[], "u"), OpSpec::put(&["t"], "a3", "m*300")]),
            t(vec![OpSpec::put(&["t"], "a3", "n*300")]),
            // each kind of refused call alone in a bucket that is otherwise untouched, with the real
            // change elsewhere
            t(vec![OpSpec::del(&["t"], "a0s"), OpSpec::put(&["u"], "k", "v*9")]),
            t(vec![OpSpec::del(&["t"], "nope"), OpSpec::put(&["u"], "k", "v*10")]),
            t(vec![OpSpec::put(&["t"], "a7s", "v*8"), OpSpec::put(&["u"], "k", "v*11")]),
            t(vec![OpSpec::bucket("create", &["t"], "a0s"), OpSpec::put(&["u"], "k", "v*12")]),
            t(vec![OpSpec::bucket("delb", &["t"], "a3"), OpSpec::bucket("goc", &["t"], "a4"), OpSpec::put(&["u"], "k", "v*13")]),
            t(vec![OpSpec::del(&["t", "a7s"], "nope"), OpSpec::bucket("delb", &["t", "a0s"], "in"), OpSpec::put(&["u"], "k", "v*14")]),
            Action::Reopen,
        ];
        let or4 = Oracles { rets: true, dump_after: true, fileck: true, dbcheck: true, ..Oracles::NONE };
        let mut sc = Scenario::new("failed-calls-inside-commits", Cfg::default(), vec![tx(mk), Action::Reopen], Box::new(alpha), if q { 2 } else { 3 }, or4);
        sc.failed_calls_noop = true;
        out.push(sc);
    }
    // strict mode on a file with a leaked page: commits report an error of their own, and a commit
    // that reports an error must not have changed anything
    {
        let small = vec![OpSpec::put(&["b"], "k0", "v*8")];
        let alpha: Vec<Action> = vec![Action::TxFail { ops: small.clone(), call: 9000 }, Action::TxFail { ops: bodies[1].clone(), call: 9000 }, Action::TxFail { ops: bodies[5].clone(), call: 9000 }, Action::RoTx { ops: vec![] }, Action::Reopen, Action::Tx { ops: small.clone(), commit: false }];
        let or3 = Oracles { rets: true, dump_after: true, ..Oracles::NONE };
        let mut setup3 = setup.clone();
        setup3.push(tx(vec![OpSpec::del(&["b"], "k4"), OpSpec::del(&["b"], "k5")]));
        setup3.push(tx(vec![OpSpec::put(&["b"], "k4", "v*8")]));
        setup3.push(Action::LeakFreePage);
        let sc = Scenario::new("strict-mode-refuses-on-leaked-page", Cfg { strict: true, ..Cfg::default() }, setup3, Box::new(alpha), if q { 3 } else { 4 }, or3);
        out.push(sc);
    }
    // the kv alphabet with drops, smaller trees
    let ops = kv_ops(&KV_KEYS[..4], &KV_VALS);
    let mut sc = Scenario::new("kv-drops-m2", Cfg::default(), kv_base(Some("w*300")), Box::new(txs_of(&ops, 2, true, true)), if q { 1 } else { 3 }, or);
    sc.drop_keeps_digest = true;
    out.push(sc);
    let nsmall = nest_ops_small();
    let mut sc = Scenario::new("nest-drops-m2", Cfg::default(), vec![], Box::new(txs_of(&nsmall, 2, true, true)), if q { 2 } else { 3 }, or);
    sc.drop_keeps_digest = true;
    out.push(sc);
    out
}

pub fn scenarios(prop: &str, tier: Tier) -> Vec<Scenario> {
    match prop {
        "C01" => c01_like(tier, Oracles { rets: true, dump_after: true, reopen_copy: true, dump_in_tx: true, dbcheck: true, probe_in_tx_end: Some(ProbeCfg::LIGHT), probe_after_commit: Some(ProbeCfg { gets: false, ..ProbeCfg::LIGHT }), ..Oracles::NONE }, true),
        "C05" => c01_like(tier, Oracles { fileck: true, dbcheck: true, ..Oracles::NONE }, true),
        "C07" => c01_like(tier, Oracles { rets: true, probe_each_op: Some(ProbeCfg::LIGHT), kept_cursor: true, ..Oracles::NONE }, false),
        "C06" => c06_scenarios(tier),
        "C03" => crate::c03::scenarios(tier),
        "C10" => crate::c10::scenarios(tier),
        _ => vec![],
    }
}
