//! Independent reader and well-formedness checker for the jammdb file format as laid out at the
//! pinned commit.  Shares no code with the library: offsets and checksums are restated here.
//!
//! page header: id u64 @0, type u8 @8, count u64 @16, overflow u64 @24, payload @32
//! header record (payload of pages 0 and 1): meta_page u32 @0, magic u32 @4, version u32 @8,
//!   pagesize u64 @16, root_page u64 @24, next_int u64 @32, num_pages u64 @40, freelist_page u64 @48,
//!   tx_id u64 @56, hash u64 @64 (FNV-1a 64 over the big-endian bytes of the nine fields);
//!   legacy record: same fields, hash = 32 bytes SHA3-256 over the same bytes.
//! branch element (24 B): page u64, key_size u64, pos u64 (relative to the element)
//! leaf element (32 B): type u8 @0, pos u64 @8, key_size u64 @16, value_size u64 @24
//! bucket value (16 B): root_page u64, next_int u64.  free-list page: `count` page ids.

use std::collections::{BTreeMap, BTreeSet};

use sha3::{Digest, Sha3_256};

use crate::refmodel::{show, BucketM, Item};

pub const MAGIC: u32 = 0x00AB_CDEF;
pub const VERSION: u32 = 1;
pub const T_BRANCH: u8 = 1;
pub const T_LEAF: u8 = 2;
pub const T_META: u8 = 3;
pub const T_FREELIST: u8 = 4;
pub const PAGE_HDR: usize = 32;
pub const REC_OFF: usize = 32;
pub const REC_LEN_NEW: usize = 72;
pub const REC_LEN_OLD: usize = 96;

fn u64_at(b: &[u8], off: usize) -> Option<u64> {
    b.get(off..off + 8).map(|s| u64::from_le_bytes(s.try_into().unwrap()))
}
fn u32_at(b: &[u8], off: usize) -> Option<u32> {
    b.get(off..off + 4).map(|s| u32::from_le_bytes(s.try_into().unwrap()))
}

#[derive(Clone, Debug, PartialEq, Eq)]
pub struct MetaRec {
    pub slot: u64,
    pub meta_page: u32,
    pub magic: u32,
    pub version: u32,
    pub pagesize: u64,
    pub root_page: u64,
    pub next_int: u64,
    pub num_pages: u64,
    pub freelist_page: u64,
    pub tx_id: u64,
    pub legacy: bool,
}

impl MetaRec {
    pub fn field_bytes(&self) -> Vec<u8> {
        let mut v = Vec::with_capacity(60);
        v.extend_from_slice(&self.meta_page.to_be_bytes());
        v.extend_from_slice(&self.magic.to_be_bytes());
        v.extend_from_slice(&self.version.to_be_bytes());
        v.extend_from_slice(&self.pagesize.to_be_bytes());
        v.extend_from_slice(&self.root_page.to_be_bytes());
        v.extend_from_slice(&self.next_int.to_be_bytes());
        v.extend_from_slice(&self.num_pages.to_be_bytes());
        v.extend_from_slice(&self.freelist_page.to_be_bytes());
        v.extend_from_slice(&self.tx_id.to_be_bytes());
        v
    }
    pub fn fnv(&self) -> u64 {
        let mut h: u64 = 0xcbf2_9ce4_8422_2325;
        for b in self.field_bytes() {
            h ^= b as u64;
            h = h.wrapping_mul(0x0000_0100_0000_01b3);
        }
        h
    }
    pub fn sha3(&self) -> [u8; 32] {
        let mut h = Sha3_256::new();
        h.update(self.field_bytes());
        let out = h.finalize();
        let mut r = [0u8; 32];
        r.copy_from_slice(&out[..]);
        r
    }
}

/// Rewrites a valid new-format header page so that it belongs into `slot`: page id, slot field of the
/// record and checksum.  (A file in which each header sits in the other slot is what an
/// implementation with the opposite alternation rule produces; the pinned release puts the header
/// of transaction N into slot (N + 1) % 2.)
pub fn relocate_header(page: &mut [u8], slot: u64) {
    page[0..8].copy_from_slice(&slot.to_le_bytes());
    page[REC_OFF..REC_OFF + 4].copy_from_slice(&(slot as u32).to_le_bytes());
    let m = MetaRec {
        slot,
        meta_page: slot as u32,
        magic: u32_at(page, REC_OFF + 4).unwrap(),
        version: u32_at(page, REC_OFF + 8).unwrap(),
        pagesize: u64_at(page, REC_OFF + 16).unwrap(),
        root_page: u64_at(page, REC_OFF + 24).unwrap(),
        next_int: u64_at(page, REC_OFF + 32).unwrap(),
        num_pages: u64_at(page, REC_OFF + 40).unwrap(),
        freelist_page: u64_at(page, REC_OFF + 48).unwrap(),
        tx_id: u64_at(page, REC_OFF + 56).unwrap(),
        legacy: false,
    };
    let h = m.fnv();
    page[REC_OFF + 64..REC_OFF + 72].copy_from_slice(&h.to_le_bytes());
}

/// Decodes the header record in `slot` (0 or 1).  `Ok` only if the page-type byte says header and
/// the checksum (new format, else legacy format) matches.
pub fn read_meta(buf: &[u8], pagesize: u64, slot: u64) -> Result<MetaRec, String> {
    let base = (slot * pagesize) as usize;
    let page = buf.get(base..base + pagesize as usize).ok_or("file shorter than the header page")?;
    let mut m = MetaRec {
        slot,
        meta_page: u32_at(page, REC_OFF).unwrap(),
        magic: u32_at(page, REC_OFF + 4).unwrap(),
        version: u32_at(page, REC_OFF + 8).unwrap(),
        pagesize: u64_at(page, REC_OFF + 16).unwrap(),
        root_page: u64_at(page, REC_OFF + 24).unwrap(),
        next_int: u64_at(page, REC_OFF + 32).unwrap(),
        num_pages: u64_at(page, REC_OFF + 40).unwrap(),
        freelist_page: u64_at(page, REC_OFF + 48).unwrap(),
        tx_id: u64_at(page, REC_OFF + 56).unwrap(),
        legacy: false,
    };
    if page[8] != T_META {
        return Err(format!("page type byte {} is not the header type", page[8]));
    }
    let h = u64_at(page, REC_OFF + 64).unwrap();
    if h == m.fnv() {
        return Ok(m);
    }
    if page.len() >= REC_OFF + REC_LEN_OLD && page[REC_OFF + 64..REC_OFF + 96] == m.sha3()[..] {
        m.legacy = true;
        return Ok(m);
    }
    Err("checksum mismatch".into())
}

/// The header a correct implementation must select: the valid one with the higher transaction id
/// (new-format records are preferred over legacy ones, as the pinned code does).
pub fn choose_meta(buf: &[u8], pagesize: u64) -> Result<MetaRec, String> {
    let a = read_meta(buf, pagesize, 0);
    let b = read_meta(buf, pagesize, 1);
    let pick = |a: Result<MetaRec, String>, b: Result<MetaRec, String>| match (a, b) {
        (Ok(a), Ok(b)) => Some(if a.tx_id > b.tx_id { a } else { b }),
        (Ok(a), Err(_)) => Some(a),
        (Err(_), Ok(b)) => Some(b),
        _ => None,
    };
    let new_a = a.clone().ok().filter(|m| !m.legacy).ok_or(String::new());
    let new_b = b.clone().ok().filter(|m| !m.legacy).ok_or(String::new());
    if let Some(m) = pick(new_a, new_b) {
        return Ok(m);
    }
    match pick(a.clone(), b.clone()) {
        Some(m) => Ok(m),
        None => Err(format!("no valid header: slot0 {:?}, slot1 {:?}", a.err(), b.err())),
    }
}

#[derive(Clone, Debug, Default)]
pub struct Report {
    pub contents: BucketM,
    pub errors: Vec<String>,
    pub num_pages: u64,
    pub tx_id: u64,
    pub free: Vec<u64>,
    pub tree_pages: BTreeSet<u64>,
    pub freelist_run: (u64, u64),
    /// (levels, leaf pages, branch pages) of the deepest bucket
    pub shape: (u32, u32, u32),
    /// total pages used by the tree and the free-list page (live data)
    pub live_pages: u64,
    /// hash of everything a transaction can read from this file: header fields, and for every
    /// reachable page its id, type, count, overflow and elements (keys, values, child ids), plus the
    /// free-list ids.  Padding bytes, slack after the last element and unreachable pages are left
    /// out (the library writes uninitialised padding, so raw bytes are not canonical).
    pub struct_hash: u128,
    /// the header in the other slot if it is valid (it must be the previous commit's after a commit)
    pub other_tx_id: Option<u64>,
    /// deviations from the pinned layout that no reader depends on (e.g. the id field of a header
    /// page, which is outside the checksummed record): reported by the write-side conformance check
    /// only, never as a structural error
    pub layout_notes: Vec<String>,
    /// the same, but without anything that grows with the number of transactions: the transaction
    /// id, the header slot and every insertion counter are left out (C10 closure search)
    pub rel_hash: u128,
}

impl Report {
    pub fn ok(&self) -> bool {
        self.errors.is_empty()
    }
}

struct Walk<'a> {
    buf: &'a [u8],
    ps: u64,
    num_pages: u64,
    owner: BTreeMap<u64, &'static str>,
    errors: Vec<String>,
    shape: (u32, u32, u32),
    tree_pages: BTreeSet<u64>,
    h1: u64,
    h2: u64,
    r1: u64,
    r2: u64,
}

impl<'a> Walk<'a> {
    fn feed_u64(&mut self, v: u64) {
        self.feed_abs(v);
        self.feed_rel(v);
    }

    fn feed_rel(&mut self, v: u64) {
        self.r1 = (self.r1 ^ v).wrapping_mul(0x2545_F491_4F6C_DD1D);
        self.r1 ^= self.r1 >> 29;
        self.r2 = (self.r2.rotate_left(23) ^ v).wrapping_mul(0x9E37_79B9_7F4A_7C15);
        self.r2 ^= self.r2 >> 31;
    }

    fn feed_abs(&mut self, v: u64) {
        self.h1 = (self.h1 ^ v).wrapping_mul(0x2545_F491_4F6C_DD1D);
        self.h1 ^= self.h1 >> 29;
        self.h2 = (self.h2.rotate_left(23) ^ v).wrapping_mul(0x9E37_79B9_7F4A_7C15);
        self.h2 ^= self.h2 >> 31;
    }

    fn feed(&mut self, b: &[u8]) {
        self.feed_u64(b.len() as u64 ^ 0xA5A5_0000_0000_0000);
        let mut chunks = b.chunks_exact(8);
        for c in &mut chunks {
            self.feed_u64(u64::from_le_bytes(c.try_into().unwrap()));
        }
        let rem = chunks.remainder();
        if !rem.is_empty() {
            let mut w = [0u8; 8];
            w[..rem.len()].copy_from_slice(rem);
            self.feed_u64(u64::from_le_bytes(w));
        }
    }

    fn err(&mut self, s: String) {
        if self.errors.len() < 16 {
            self.errors.push(s);
        }
    }

    fn claim(&mut self, id: u64, n: u64, what: &'static str) -> bool {
        let mut ok = true;
        for p in id..id.saturating_add(n) {
            if p < 2 || p >= self.num_pages {
                self.err(format!("{} page {} outside [2, num_pages={})", what, p, self.num_pages));
                return false;
            }
            if let Some(prev) = self.owner.insert(p, what) {
                self.err(format!("page {} is both {} and {}", p, prev, what));
                ok = false;
            }
        }
        ok
    }

    fn page(&mut self, id: u64) -> Option<(&'a [u8], u8, u64, u64)> {
        let start = id.checked_mul(self.ps)? as usize;
        let hdr = self.buf.get(start..start + PAGE_HDR)?;
        let pid = u64_at(hdr, 0).unwrap();
        let ty = hdr[8];
        let count = u64_at(hdr, 16).unwrap();
        let overflow = u64_at(hdr, 24).unwrap();
        if pid != id {
            self.err(format!("page {} carries id {} in its header", id, pid));
        }
        if overflow >= self.num_pages {
            self.err(format!("page {} overflow count {} is absurd", id, overflow));
            return None;
        }
        let end = start.checked_add(((overflow + 1) * self.ps) as usize)?;
        let run = match self.buf.get(start..end) {
            Some(r) => r,
            None => {
                self.err(format!("page run {}+{} extends past the end of the file", id, overflow));
                return None;
            }
        };
        Some((run, ty, count, overflow))
    }

    /// Walks the subtree at `id`; returns (min key, max key) of the subtree, filling `out`.
    fn tree(&mut self, id: u64, level: u32, out: &mut BucketM, last_key: &mut Option<Vec<u8>>, depth: u32, stats: &mut (u32, u32, u32)) -> Option<(Vec<u8>, Vec<u8>)> {
        if depth > 12 || level > 40 {
            self.err("tree deeper than plausible (cycle?)".into());
            return None;
        }
        let (run, ty, count, overflow) = match self.page(id) {
            Some(x) => x,
            None => {
                self.err(format!("cannot read tree page {}", id));
                return None;
            }
        };
        if !self.claim(id, overflow + 1, "tree") {
            return None;
        }
        for p in id..=id + overflow {
            self.tree_pages.insert(p);
        }
        stats.0 = stats.0.max(level + 1);
        self.feed_u64(id);
        self.feed_u64(ty as u64);
        self.feed_u64(count);
        self.feed_u64(overflow);
        let count = count as usize;
        match ty {
            T_LEAF => {
                stats.1 += 1;
                if PAGE_HDR + 32 * count > run.len() {
                    self.err(format!("leaf page {}: {} element headers do not fit its run", id, count));
                    return None;
                }
                let mut minmax: Option<(Vec<u8>, Vec<u8>)> = None;
                for i in 0..count {
                    let e = PAGE_HDR + 32 * i;
                    let nt = run[e];
                    let pos = u64_at(run, e + 8).unwrap() as usize;
                    let ks = u64_at(run, e + 16).unwrap() as usize;
                    let vs = u64_at(run, e + 24).unwrap() as usize;
                    let kstart = e.checked_add(pos);
                    let vend = kstart.and_then(|k| k.checked_add(ks)).and_then(|k| k.checked_add(vs));
                    let (kstart, vend) = match (kstart, vend) {
                        (Some(a), Some(b)) if b <= run.len() && a >= PAGE_HDR + 32 * count => (a, b),
                        _ => {
                            self.err(format!("leaf page {} element {}: key/value outside the page run or inside the element headers", id, i));
                            return None;
                        }
                    };
                    let key = run[kstart..kstart + ks].to_vec();
                    let val = &run[kstart + ks..vend];
                    self.feed_u64(nt as u64);
                    self.feed(&key);
                    if nt == 1 && val.len() == 16 {
                        // bucket value: root page in both hashes, insertion counter only in the absolute one
                        self.feed_u64(u64_at(val, 0).unwrap());
                        self.feed_abs(u64_at(val, 8).unwrap());
                    } else {
                        self.feed(val);
                    }
                    if let Some(l) = last_key.as_ref() {
                        if *l >= key {
                            self.err(format!("keys not strictly ascending at page {} element {}: {} then {}", id, i, show(l), show(&key)));
                        }
                    }
                    *last_key = Some(key.clone());
                    match &mut minmax {
                        None => minmax = Some((key.clone(), key.clone())),
                        Some(mm) => mm.1 = key.clone(),
                    }
                    match nt {
                        0 => {
                            out.items.insert(key, Item::Kv(val.to_vec()));
                        }
                        1 => {
                            if vs != 16 {
                                self.err(format!("bucket entry {} on page {} has a {}-byte value", show(&key), id, vs));
                                continue;
                            }
                            let root = u64_at(val, 0).unwrap();
                            let next_int = u64_at(val, 8).unwrap();
                            let mut sub = BucketM { next_int, ..Default::default() };
                            let mut lk = None;
                            let mut st = (0, 0, 0);
                            self.tree(root, 0, &mut sub, &mut lk, depth + 1, &mut st);
                            if st.0 > self.shape.0 || (st.0 == self.shape.0 && st.1 > self.shape.1) {
                                self.shape = st;
                            }
                            out.items.insert(key, Item::Bucket(sub));
                        }
                        t => self.err(format!("leaf page {} element {} has invalid entry type {}", id, i, t)),
                    }
                }
                minmax
            }
            T_BRANCH => {
                stats.2 += 1;
                if PAGE_HDR + 24 * count > run.len() {
                    self.err(format!("branch page {}: {} element headers do not fit its run", id, count));
                    return None;
                }
                let mut keys = vec![];
                let mut children = vec![];
                for i in 0..count {
                    let e = PAGE_HDR + 24 * i;
                    let child = u64_at(run, e).unwrap();
                    let ks = u64_at(run, e + 8).unwrap() as usize;
                    let pos = u64_at(run, e + 16).unwrap() as usize;
                    let kstart = e.checked_add(pos);
                    let kend = kstart.and_then(|k| k.checked_add(ks));
                    match (kstart, kend) {
                        (Some(a), Some(b)) if b <= run.len() && a >= PAGE_HDR + 24 * count => {
                            keys.push(run[a..b].to_vec());
                            children.push(child);
                            self.feed_u64(child);
                            self.feed(&run[a..b]);
                        }
                        _ => {
                            self.err(format!("branch page {} element {}: key outside the page run", id, i));
                            return None;
                        }
                    }
                }
                for i in 1..keys.len() {
                    if keys[i - 1] >= keys[i] {
                        self.err(format!("branch page {}: separator keys not strictly ascending at {}", id, i));
                    }
                }
                let mut minmax: Option<(Vec<u8>, Vec<u8>)> = None;
                for i in 0..children.len() {
                    let mm = self.tree(children[i], level + 1, out, last_key, depth, stats);
                    if let Some((lo, hi)) = mm {
                        if i >= 1 && keys[i] > lo {
                            self.err(format!("branch page {}: separator {} {} is above the smallest key {} of its subtree (page {})", id, i, show(&keys[i]), show(&lo), children[i]));
                        }
                        if i + 1 < keys.len() && hi >= keys[i + 1] {
                            self.err(format!("branch page {}: subtree {} (page {}) holds key {} not below the next separator {}", id, i, children[i], show(&hi), show(&keys[i + 1])));
                        }
                        match &mut minmax {
                            None => minmax = Some((lo, hi)),
                            Some(m) => m.1 = hi,
                        }
                    }
                }
                minmax
            }
            t => {
                self.err(format!("page {} reachable from the tree has type {}", id, t));
                None
            }
        }
    }
}

/// Parses and checks `buf` as a database of page size `pagesize`, for the header `meta`.
pub fn check_with_meta(buf: &[u8], pagesize: u64, meta: &MetaRec) -> Report {
    let mut rep = Report { num_pages: meta.num_pages, tx_id: meta.tx_id, ..Default::default() };
    rep.other_tx_id = read_meta(buf, pagesize, 1 - meta.slot).ok().map(|m| m.tx_id);
    if meta.magic != MAGIC {
        rep.errors.push(format!("magic {:#x}", meta.magic));
    }
    if meta.version != VERSION {
        rep.errors.push(format!("version {}", meta.version));
    }
    if meta.pagesize != pagesize {
        rep.errors.push(format!("header page size {} but file opened with {}", meta.pagesize, pagesize));
        return rep;
    }
    if meta.meta_page as u64 != meta.slot {
        rep.errors.push(format!("header in slot {} says meta_page {}", meta.slot, meta.meta_page));
    }
    if meta.num_pages < 4 || meta.num_pages.checked_mul(pagesize).map(|n| n as usize > buf.len()).unwrap_or(true) {
        rep.errors.push(format!("num_pages {} does not fit the file of {} bytes", meta.num_pages, buf.len()));
        return rep;
    }
    let mut w = Walk { buf, ps: pagesize, num_pages: meta.num_pages, owner: BTreeMap::new(), errors: vec![], shape: (0, 0, 0), tree_pages: BTreeSet::new(), h1: 0x1234_5678_9ABC_DEF0, h2: 0x0FED_CBA9_8765_4321, r1: 0x1111_2222_3333_4444, r2: 0x5555_6666_7777_8888 };
    for v in [meta.magic as u64, meta.version as u64, meta.pagesize, meta.root_page, meta.num_pages, meta.freelist_page, meta.legacy as u64] {
        w.feed_u64(v);
    }
    for v in [meta.slot, meta.next_int, meta.tx_id] {
        w.feed_abs(v);
    }
    // header pages: page id / type of both slots belong to the layout
    for slot in 0..2u64 {
        let start = (slot * pagesize) as usize;
        if u64_at(buf, start) != Some(slot) && slot == meta.slot {
            rep.layout_notes.push(format!("header page {} carries id {:?}", slot, u64_at(buf, start)));
        }
    }
    // free list page
    if let Some((run, ty, count, overflow)) = w.page(meta.freelist_page) {
        if ty != T_FREELIST {
            w.err(format!("free-list page {} has type {}", meta.freelist_page, ty));
        } else {
            w.claim(meta.freelist_page, overflow + 1, "free-list page");
            rep.freelist_run = (meta.freelist_page, overflow + 1);
            if PAGE_HDR + 8 * count as usize > run.len() {
                w.err(format!("free-list page {}: {} ids do not fit its run", meta.freelist_page, count));
            } else {
                w.feed_u64(overflow);
                for i in 0..count as usize {
                    let id = u64_at(run, PAGE_HDR + 8 * i).unwrap();
                    rep.free.push(id);
                    w.feed_u64(id);
                }
            }
        }
    } else {
        w.err(format!("cannot read free-list page {}", meta.freelist_page));
    }
    let mut root = BucketM { next_int: meta.next_int, ..Default::default() };
    let mut last = None;
    let mut st = (0, 0, 0);
    w.tree(meta.root_page, 0, &mut root, &mut last, 0, &mut st);
    if st.0 > w.shape.0 || (st.0 == w.shape.0 && st.1 > w.shape.1) {
        w.shape = st;
    }
    for id in rep.free.clone() {
        w.claim(id, 1, "free-list entry");
    }
    for p in 2..meta.num_pages {
        if !w.owner.contains_key(&p) {
            w.err(format!("page {} is neither reachable, nor the free-list page, nor free-listed (leaked)", p));
        }
    }
    rep.contents = root;
    rep.struct_hash = ((w.h1 as u128) << 64) | w.h2 as u128;
    rep.rel_hash = ((w.r1 as u128) << 64) | w.r2 as u128;
    rep.live_pages = w.tree_pages.len() as u64 + rep.freelist_run.1;
    rep.tree_pages = w.tree_pages;
    rep.shape = w.shape;
    rep.errors.extend(w.errors);
    rep
}

/// Chooses the header like a correct implementation and checks the file for it.
pub fn check(buf: &[u8], pagesize: u64) -> Result<Report, String> {
    let meta = choose_meta(buf, pagesize)?;
    Ok(check_with_meta(buf, pagesize, &meta))
}

/// Bytes of the file that matter for the state: everything below the high-water mark.
pub fn high_water(buf: &[u8], pagesize: u64) -> usize {
    match choose_meta(buf, pagesize) {
        Ok(m) => ((m.num_pages * pagesize) as usize).min(buf.len()),
        Err(_) => buf.len(),
    }
}
