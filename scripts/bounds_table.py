#!/usr/bin/env python3
"""Prints the 'measured bounds' table of DESIGN.md §8.3 from the evidence files of the last runs."""
import json, os
ROOT = os.path.dirname(os.path.dirname(os.path.abspath(__file__)))
rows = []
for i in range(1, 17):
    pid = "C%02d" % i
    e = json.load(open(os.path.join(ROOT, "evidence", pid + ".json")))
    c = e.get("coverage", {})
    keys = ["states", "transitions", "evaluations", "distinct_nontrivial", "commits_traced", "threaded.states", "long_histories", "lap_transactions", "shapes", "configurations_run", "golden_variants_opened", "files_produced_and_parsed"]
    nums = ["%s %s" % (k.replace("_", " "), c[k]) for k in keys if isinstance(c.get(k), (int, float))]
    ex = c.get("exhaustive")
    rows.append("| %s | %s | %s | %s | %.0f s |" % (pid, e.get("tier"), "; ".join(nums), "yes" if ex else ("no (cap or budget, see evidence)" if ex is False else "-"), e.get("wall_s", 0)))
print("| id | tier | what was enumerated (from evidence/<id>.json) | complete within its bounds | wall |\n|----|------|----|----|----|")
print("\n".join(rows))
