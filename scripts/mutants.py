#!/usr/bin/env python3
"""Self-validation battery: the property-breaking changes listed in DESIGN.md §2 ("Seeded mutants"),
expressed as search/replace edits of /repo.  For each: apply, make sure the crate still builds and the
repository's 72 tests still pass, run the quick check of the property it targets, revert.

usage: mutants.py [id-prefix ...]      results -> /verif/seeded/self/RESULTS.json (+ table on stdout)
"""
import json, os, subprocess, sys, time

REPO = os.environ.get("MUT_REPO", "/repo")
ROOT = os.environ.get("MUT_ROOT", os.path.dirname(os.path.dirname(os.path.abspath(__file__))))

M = []
def m(mid, prop, file, old, new, note=""):
    M.append(dict(id=mid, prop=prop, file=file, old=old, new=new, note=note))

# ---- C01
m("C01-needs-merging-off-by-one", "C01", "src/node.rs", "self.data.len() < MIN_KEYS_PER_NODE || self.size() < (self.pagesize / 4)", "self.data.len() <= MIN_KEYS_PER_NODE || self.size() < (self.pagesize / 4)")
m("C01-next-int-on-overwrite", "C01", "src/bucket.rs", "            Some(current)\n        } else {\n            self.meta.next_int += 1;\n            None\n        };", "            self.meta.next_int += 1;\n            Some(current)\n        } else {\n            self.meta.next_int += 1;\n            None\n        };")
m("C01-split-threshold", "C01", "src/node.rs", "if count >= MIN_KEYS_PER_NODE && new_size > threshold {\n                        split_indexes.push(i + 1);\n                        current_size = HEADER_SIZE + size;\n                        count = 0;\n                    } else {\n                        current_size = new_size;\n                    }\n                }\n            }\n        };", "if count >= MIN_KEYS_PER_NODE && new_size > threshold {\n                        split_indexes.push(i);\n                        current_size = HEADER_SIZE + size;\n                        count = 0;\n                    } else {\n                        current_size = new_size;\n                    }\n                }\n            }\n        };", "leaf split one element early")
m("C01-delete-returns-wrong", "C01", "src/bucket.rs", "                match node.delete(index) {\n                    Leaf::Kv(k, v) => Ok((k, v)),", "                match node.delete(index.saturating_sub(if index > 2 { 1 } else { 0 })) {\n                    Leaf::Kv(k, v) => Ok((k, v)),", "delete removes the neighbour for index > 2")
m("C01-merge-right-separator", "C01", "src/bucket.rs", "                            if merged_right {\n", "                            if false && merged_right {\n", "revert of the separator hand-over")
# ---- C02
m("C02-no-sync-before-header", "C02", "src/tx.rs", "            file.flush()?;\n            file.sync_all()?;\n        }\n        if self.db.inner.flags.strict_mode {", "            file.flush()?;\n        }\n        if self.db.inner.flags.strict_mode {")
m("C02-higher-txid-loses", "C02", "src/db.rs", "if meta1.tx_id > meta2.tx_id {", "if meta1.tx_id < meta2.tx_id {")
m("C02-release-too-early", "C02", "src/tx.rs", "                freelist.release(meta.tx_id);\n", "                freelist.release(meta.tx_id + 1);\n", "pages freed by the previous commit become reusable at once: the fallback snapshot is overwritten")
m("C02-hash-skips-root", "C02", "src/meta.rs", "        hasher.write(&self.root.root_page.to_be_bytes());\n        hasher.write(&self.root.next_int.to_be_bytes());\n        hasher.write(&self.num_pages.to_be_bytes());\n        hasher.write(&self.freelist_page.to_be_bytes());\n        hasher.write(&self.tx_id.to_be_bytes());\n\n        hasher.finish()", "        hasher.write(&self.root.next_int.to_be_bytes());\n        hasher.write(&self.num_pages.to_be_bytes());\n        hasher.write(&self.freelist_page.to_be_bytes());\n        hasher.write(&self.tx_id.to_be_bytes());\n\n        hasher.finish()")
# ---- C03
m("C03-release-ignores-readers", "C03", "src/tx.rs", "            if open_ro_txs.len() > 0 {\n                freelist.release(open_ro_txs[0]);", "            if open_ro_txs.len() > 1 {\n                freelist.release(open_ro_txs[0]);")
m("C03-release-newest-reader", "C03", "src/tx.rs", "                freelist.release(open_ro_txs[0]);", "                freelist.release(open_ro_txs[open_ro_txs.len() - 1]);")
m("C03-drop-removes-wrong", "C03", "src/tx.rs", "            open_txs.remove(index);", "            open_txs.remove(0);")
m("C03-release-le", "C03", "src/freelist.rs", "            if other_tx_id < tx_id {", "            if other_tx_id <= tx_id {")
# ---- C04
m("C04-register-after-snapshot", "C04", "src/tx.rs", "        let mut open_ro_txs = db.inner.open_ro_txs.lock().unwrap();\n        let mut meta = db.inner.meta()?;", "        let mut meta = db.inner.meta()?;\n        let mut open_ro_txs = db.inner.open_ro_txs.lock().unwrap();", "revert of the registration fix")
m("C04-publish-freelist-early", "C04", "src/tx.rs", "            file.flush()?;\n            file.sync_all()?;\n\n            let mut lock = self.db.inner.freelist.lock()?;", "            let mut lock = self.db.inner.freelist.lock()?;\n            file.flush()?;\n            file.sync_all()?;\n", "shared free list locked across the final sync (harmless) - expected NOT detected", )
# ---- C05
m("C05-no-dedup", "C05", "src/freelist.rs", "        page_ids.dedup();\n", "")
m("C05-bucket-delete-leaks-overflow", "C05", "src/bucket.rs", "                freelist.free(page_id, num_pages);\n            }\n        }", "                freelist.free(page_id, 1);\n                let _ = num_pages;\n            }\n        }")
m("C05-freelist-page-not-freed", "C05", "src/tx.rs", "                freelist.free(self.meta.freelist_page, self.num_freelist_pages);\n", "")
m("C05-allocate-run-short", "C05", "src/freelist.rs", "            for id in found..found + (num_pages as u64) {", "            for id in found..found + (num_pages as u64).max(2) - 1 {")
# ---- C06
m("C06-ro-delete-allowed", "C06", "src/bucket.rs", "    pub fn delete<T: AsRef<[u8]>>(&self, key: T) -> Result<KVPair> {\n        if !self.writable {\n            return Err(Error::ReadOnlyTx);\n        }", "    pub fn delete<T: AsRef<[u8]>>(&self, key: T) -> Result<KVPair> {")
m("C06-drop-publishes-freelist", "C06", "src/tx.rs", "impl<'tx> Drop for TxInner<'tx> {\n    fn drop(&mut self) {\n        if !self.lock.writable() {", "impl<'tx> Drop for TxInner<'tx> {\n    fn drop(&mut self) {\n        if self.lock.writable() {\n            if let Ok(mut l) = self.db.inner.freelist.lock() {\n                *l = self.freelist.borrow().inner.clone();\n            }\n        }\n        if !self.lock.writable() {")
m("C06-ro-create-bucket-nested", "C06", "src/bucket.rs", "    pub fn get_or_create_bucket<'a, T: ToBytes<'tx>>(&'a self, name: T) -> Result<Bucket<'b, 'tx>> {\n        if !self.writable {\n            return Err(Error::ReadOnlyTx);\n        }", "    pub fn get_or_create_bucket<'a, T: ToBytes<'tx>>(&'a self, name: T) -> Result<Bucket<'b, 'tx>> {")
# ---- C07
m("C07-page-node-prefers-page", "C07", "src/bucket.rs", "                if let Some(node_id) = self.page_node_ids.get(&page) {\n                    PageNode::Node(self.nodes[*node_id as usize].clone())\n                } else {", "                if let (Some(node_id), true) = (self.page_node_ids.get(&page), page % 5 != 4) {\n                    PageNode::Node(self.nodes[*node_id as usize].clone())\n                } else {", "stale page used instead of the node for some page ids")
m("C07-cursor-no-skip-empty", "C07", "src/cursor.rs", "            if !self.advance() {\n                return None;\n            }\n        }\n    }\n}", "            return None;\n        }\n    }\n}", "revert of the empty-leaf skip")
# ---- C08
m("C08-range-end-included-lt", "C08", "src/cursor.rs", "                    if data.key() <= *e {", "                    if data.key() < *e {")
m("C08-index-no-saturating", "C08", "src/page_node.rs", "                i = i.saturating_sub(1);", "                i = if i > 1 { i - 1 } else { i.min(1) * 0 + (i == 1) as usize * 0 };", "same result: expected NOT detected (control)")
m("C08-excluded-start", "C08", "src/cursor.rs", "                        if data.key() <= *s {", "                        if data.key() < *s {")
m("C08-buckets-filter-stops", "C08", "src/cursor.rs", "        for data in self.i.by_ref() {\n            if let Data::KeyValue(kv) = data {\n                return Some(kv);\n            }\n        }\n        None", "        for data in self.i.by_ref() {\n            if let Data::KeyValue(kv) = data {\n                return Some(kv);\n            } else {\n                return None;\n            }\n        }\n        None")
# ---- C09
m("C09-resize-lock-order", "C09", "src/db.rs", "        let _lock = self.mmap_lock.write()?;\n        let mut data = self.data.lock()?;", "        let mut data = self.data.lock()?;\n        let _lock = self.mmap_lock.write()?;", "lock-order inversion against a beginning reader")
m("C09-reader-takes-writer-lock", "C09", "src/tx.rs", "            false => TxLock::Ro(db.inner.mmap_lock.read()?),", "            false => {\n                drop(db.inner.file.lock()?);\n                TxLock::Ro(db.inner.mmap_lock.read()?)\n            }", "a reader waits for the writer lock at begin: blocked by an open uncommitted writer")
# ---- C10
m("C10-never-release", "C10", "src/tx.rs", "                freelist.release(meta.tx_id);\n", "                freelist.release(meta.tx_id.min(1));\n")
m("C10-reader-never-deregisters", "C10", "src/tx.rs", "            open_txs.remove(index);", "            let _ = index;")
m("C10-no-runs", "C10", "src/freelist.rs", "            if block_size == (num_pages as u64) {", "            if block_size == (num_pages as u64) && num_pages == 1 {")
m("C10-pending-forgotten-on-reopen", "C10", "src/freelist.rs", "        for (_, pages) in self.pending_pages.iter() {\n            let mut pages = pages.to_vec();\n            page_ids.append(&mut pages);\n        }\n        page_ids.sort_unstable();", "        for (_, pages) in self.pending_pages.iter().skip(1) {\n            let mut pages = pages.to_vec();\n            page_ids.append(&mut pages);\n        }\n        page_ids.sort_unstable();", "oldest pending list not persisted: leaked after reopen")
# ---- C11
m("C11-write-error-ignored", "C11", "src/tx.rs", "                    file.write_all(buf)?;\n                }\n            }\n\n            // Make sure", "                    let _ = file.write_all(buf);\n                }\n            }\n\n            // Make sure")
m("C11-freelist-tag-ignored", "C11", "src/tx.rs", "        if writable && freelist_tx_id != meta.tx_id {", "        if false && writable && freelist_tx_id != meta.tx_id {", "revert of the stale-free-list recovery")
m("C11-publish-before-header", "C11", "src/tx.rs", "        if let TxLock::Rw(file) = &mut self.lock {\n            // write meta page to file", "        if let Ok(mut l) = self.db.inner.freelist.lock() {\n            *l = freelist.inner.clone();\n        }\n        if let TxLock::Rw(file) = &mut self.lock {\n            // write meta page to file", "shared free list published before the header write")
# ---- C12
m("C12-type-byte", "C12", "src/db.rs", "let meta1 = if page1.page_type == Page::TYPE_META {", "let meta1 = if page1.page_type == Page::TYPE_META || true {", "revert of the type-byte check for slot 0")
m("C12-hash-skips-freelist-page", "C12", "src/meta.rs", "        hasher.write(&self.freelist_page.to_be_bytes());\n        hasher.write(&self.tx_id.to_be_bytes());\n\n        hasher.finish()", "        hasher.write(&self.tx_id.to_be_bytes());\n\n        hasher.finish()")
m("C12-txid-ge", "C12", "src/db.rs", "if meta1.tx_id > meta2.tx_id {", "if meta1.tx_id >= meta2.tx_id && meta1.tx_id != meta2.tx_id + 1 {", "prefers slot 1 unless ... : picks the older header in half of the cases")
# ---- C13
m("C13-no-lock", "C13", "src/db.rs", "        file.lock_exclusive()?;\n        if file.metadata()?.len() == 0 {", "        if file.metadata()?.len() == 0 {")
m("C13-shared-lock", "C13", "src/db.rs", "        file.lock_exclusive()?;\n        if file.metadata()?.len() == 0 {", "        file.lock_shared()?;\n        if file.metadata()?.len() == 0 {")
m("C13-init-before-lock", "C13", "src/db.rs", "        file.lock_exclusive()?;\n        if file.metadata()?.len() == 0 {\n            init_file(&mut file, self.pagesize, self.num_pages)?;\n        }", "        if file.metadata()?.len() == 0 {\n            init_file(&mut file, self.pagesize, self.num_pages)?;\n        }\n        file.lock_exclusive()?;")
# ---- C14
m("C14-bucketname-slice", "C14", "src/data.rs", "impl<'b, 'tx> ToBytes<'tx> for &BucketName<'b, 'tx> {\n    fn to_bytes(self) -> Bytes<'tx> {\n        Bytes::Bytes(bytes::Bytes::copy_from_slice(self.name.as_ref()))", "impl<'b, 'tx> ToBytes<'tx> for &BucketName<'b, 'tx> {\n    fn to_bytes(self) -> Bytes<'tx> {\n        self.name.clone()")
m("C14-kvpair-key-tx-lifetime", "C14", "src/data.rs", "    pub fn key(&self) -> &[u8] {\n        self.key.as_ref()\n    }\n\n    pub fn value(&self) -> &[u8] {", "    pub fn key(&self) -> &'tx [u8] {\n        match &self.key {\n            Bytes::Slice(s) => s,\n            _ => &[],\n        }\n    }\n\n    pub fn value(&self) -> &[u8] {", "key slice bounded by the database borrow only")
m("C14-send-tx", "C14", "src/tx.rs", "impl<'tx> Drop for TxInner<'tx> {", "unsafe impl<'tx> Send for Tx<'tx> {}\n\nimpl<'tx> Drop for TxInner<'tx> {")
# ---- C15
m("C15-leaf-pos-page-relative", "C15", "src/page.rs", "                    elem.pos = header_offsets + data_size;\n\n                    data_size += elem.key_size + elem.value_size;", "                    elem.pos = header_offsets + data_size + 1;\n\n                    data_size += elem.key_size + elem.value_size + 1;", "one byte of slack before every key (readers that use pos still work; layout differs)")
m("C15-fnv-little-endian", "C15", "src/meta.rs", "        hasher.write(&self.tx_id.to_be_bytes());\n\n        hasher.finish()", "        hasher.write(&self.tx_id.to_le_bytes());\n\n        hasher.finish()")
m("C15-legacy-path-removed", "C15", "src/db.rs", "        } else if let Some(old_meta) = check_meta!(old_meta) {\n            Ok(old_meta.into())\n        } else {", "        } else {")
m("C15-pagesize-mismatch-accepted", "C15", "src/db.rs", "                if let Some(meta1) = meta1 {\n                    assert_eq!(", "                if let (Some(meta1), true) = (meta1, self.pagesize < 4096) {\n                    assert_eq!(", "page-size check skipped when opening with a large page size")
# ---- C16
m("C16-strict-check-after-header", "C16", "src/tx.rs", "        if self.db.inner.flags.strict_mode {\n            self.check()?;\n        }\n        if let TxLock::Rw(file) = &mut self.lock {\n            // write meta page to file", "        if self.db.inner.flags.strict_mode && self.meta.num_pages > 100_000 {\n            self.check()?;\n        }\n        if let TxLock::Rw(file) = &mut self.lock {\n            // write meta page to file", "strict check effectively disabled - behaviour unchanged: expected NOT detected (control)")
m("C16-alloc-size-no-plus-one", "C16", "src/tx.rs", "let alloc_size = ((size_diff / MIN_ALLOC_SIZE) + 1) * MIN_ALLOC_SIZE;", "let alloc_size = (size_diff / MIN_ALLOC_SIZE).max(1) * MIN_ALLOC_SIZE;", "extension too small when more than one step is needed at once")
m("C16-num-pages-ignored", "C16", "src/db.rs", "    file.allocate(pagesize * (num_pages as u64))?;", "    file.allocate(pagesize * 4)?;\n    let _ = num_pages;", "initial size option ignored (performance only): expected NOT detected by C16 behaviour oracle")
m("C16-split-hardcoded-4096", "C16", "src/node.rs", "if self.data.len() <= (MIN_KEYS_PER_NODE * 2) || self.size() < self.pagesize {", "if self.data.len() <= (MIN_KEYS_PER_NODE * 2) || self.size() < 4096 {", "split threshold hard-coded (performance/layout only at other sizes): expected NOT detected unless a node overflows")

def sh(cmd, cwd=None, timeout=None):
    try:
        r = subprocess.run(cmd, shell=True, cwd=cwd, stdout=subprocess.PIPE, stderr=subprocess.STDOUT, text=True, timeout=timeout)
        return r.returncode, r.stdout
    except subprocess.TimeoutExpired as e:
        return 124, (e.stdout or b"").decode() if isinstance(e.stdout, bytes) else (e.stdout or "")

def main():
    sel = sys.argv[1:]
    out = []
    assert sh("git status --short", REPO)[1].strip() == "", "/repo is not clean"
    for mu in M:
        if sel and not any(mu["id"].startswith(s) for s in sel):
            continue
        p = os.path.join(REPO, mu["file"])
        src = open(p).read()
        row = dict(id=mu["id"], prop=mu["prop"], note=mu["note"])
        if src.count(mu["old"]) != 1:
            row["status"] = "pattern-not-unique(%d)" % src.count(mu["old"])
            out.append(row); print(row); continue
        try:
            open(p, "w").write(src.replace(mu["old"], mu["new"]))
            rc, o = sh("cargo build --offline 2>&1 | tail -3", REPO)
            if "error" in o:
                row["status"] = "does-not-compile"; row["detail"] = o[-300:]
            else:
                t0 = time.time()
                rc, o = sh("cargo nextest run --workspace --no-fail-fast --test-threads 8 --offline 2>&1 | tail -4", REPO, timeout=600)
                passed = "72 passed" in o
                row["tests_pass"] = passed
                t0 = time.time()
                rc, o = sh("scripts/check.sh %s quick" % mu["prop"], ROOT, timeout=1500)
                row["check_exit"] = rc
                row["check_s"] = round(time.time() - t0, 1)
                cls = [l.strip() for l in o.splitlines() if l.strip().startswith("class:")]
                row["classes"] = cls[:4]
                row["status"] = ("DETECTED" if rc == 1 else "missed" if rc == 0 else "machinery-exit-%d" % rc) + ("" if passed else " (but the repo tests fail too)")
        finally:
            sh("git checkout -- .", REPO)
        out.append(row)
        print(json.dumps(row))
        sys.stdout.flush()
    os.makedirs(os.path.join(ROOT, "seeded", "self"), exist_ok=True)
    prev = {}
    rp = os.path.join(ROOT, "seeded", "self", "RESULTS.json")
    if os.path.exists(rp):
        prev = {r["id"]: r for r in json.load(open(rp))}
    for r in out:
        prev[r["id"]] = r
    json.dump(list(prev.values()), open(rp, "w"), indent=1)
    print("\n%-38s %-5s %-6s %s" % ("mutant", "prop", "tests", "result"))
    for r in out:
        print("%-38s %-5s %-6s %s %s" % (r["id"], r["prop"], r.get("tests_pass"), r["status"], r.get("classes", "")[:2] if r.get("classes") else ""))

main()
