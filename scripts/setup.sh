#!/bin/bash
# One-time setup after a fresh restore: build the harness offline.
set -e
ROOT="$(cd "$(dirname "$0")/.." && pwd)"
cd "$ROOT/mc"
export CARGO_NET_OFFLINE=true
cargo build --offline 2>&1 | tail -3
