#!/usr/bin/env python3
"""Confirms a seeded change delivered by a sub-agent and runs the checks against it.

usage: eval_seeded.py <Cxx> <A|B> [--tier quick|thorough] [--checks C01,C05,...] [--skip-confirm]

1. confirmation in a scratch worktree (/tmp/confirm_wt, outside /repo and /verif): the patch applies,
   the 72 repository tests pass with it, the agent's demonstration fails with it and passes without it;
2. the patch is applied to /repo, the check of the property (and any others named) is run, /repo is
   restored;
3. the change is kept as /verif/seeded/<Cxx>-<A|B>/ {patch.diff, demo.*, notes.md, meta.json}.
"""
import json, os, shutil, subprocess, sys, time

KEEP_ROOT = os.path.dirname(os.path.dirname(os.path.abspath(__file__)))
# EVAL_COPY=1: run against a private clone of /repo and a private copy of /verif (in /tmp/evalcopy), so
# that /repo stays untouched (other runs may be building from it); results are still kept in /verif/seeded
COPY = os.environ.get("EVAL_COPY") == "1"
ROOT = "/tmp/evalcopy/verif" if COPY else KEEP_ROOT
REPO = "/tmp/evalcopy/repo" if COPY else "/repo"
WT = "/tmp/confirm_wt"

def prepare_copy():
    os.makedirs("/tmp/evalcopy", exist_ok=True)
    if not os.path.exists(REPO):
        assert sh("git clone -q /repo %s" % REPO)[0] == 0
    sh("git fetch -q origin && git reset -q --hard origin/HEAD && git clean -fdq", REPO)
    head = subprocess.check_output(["git", "-C", "/repo", "rev-parse", "HEAD"], text=True).strip()
    sh("git reset -q --hard %s" % head, REPO)
    sh("rsync -a --delete --exclude seeded --exclude .git --exclude replays --exclude evidence --exclude mc/target %s/ %s/" % (KEEP_ROOT, ROOT))
    os.makedirs(ROOT + "/evidence", exist_ok=True)
    p = ROOT + "/mc/Cargo.toml"
    t = open(p).read().replace('path = "/repo"', 'path = "%s"' % REPO)
    open(p, "w").write(t)

def sh(cmd, cwd=None, timeout=None, env=None):
    try:
        r = subprocess.run(cmd, shell=True, cwd=cwd, stdout=subprocess.PIPE, stderr=subprocess.STDOUT, text=True, timeout=timeout, env=env)
        return r.returncode, r.stdout
    except subprocess.TimeoutExpired as e:
        o = e.stdout
        return 124, (o.decode() if isinstance(o, bytes) else (o or "")) + "\n[timeout]"

def tests_pass(wt):
    rc, o = sh("cargo nextest run --workspace --no-fail-fast --test-threads 8 --offline 2>&1 | tail -5", wt, timeout=900)
    return "72 passed" in o and "failed" not in o.split("Summary")[-1], o[-400:]

def run_demo(wt, src_dir, letter):
    """returns (passed: bool, tail of output)"""
    sh_demo = os.path.join(src_dir, "%s_demo.sh" % letter)
    rs_demo = os.path.join(src_dir, "%s_demo.rs" % letter)
    py_demo = os.path.join(src_dir, "%s_demo.py" % letter)
    if os.path.exists(sh_demo):
        rc, o = sh("bash %s %s" % (sh_demo, wt), src_dir, timeout=900)
        return rc == 0, o[-600:]
    if os.path.exists(py_demo):
        rc, o = sh("python3 %s %s" % (py_demo, wt), src_dir, timeout=900)
        return rc == 0, o[-600:]
    if os.path.exists(rs_demo):
        dst = os.path.join(wt, "tests", "demo_seeded.rs")
        shutil.copy(rs_demo, dst)
        feats = ""
        if "verif" in open(rs_demo).read():
            feats = "--features verif-hooks"
        try:
            rc, o = sh("cargo test --offline %s --test demo_seeded 2>&1 | tail -25" % feats, wt, timeout=900)
        finally:
            os.remove(dst)
        ok = "test result: ok" in o and "FAILED" not in o
        return ok, o[-900:]
    return None, "no demonstration file"

def main():
    prop, letter = sys.argv[1], sys.argv[2]
    tier = "quick"
    checks = [prop]
    skip_confirm = "--skip-confirm" in sys.argv
    for i, a in enumerate(sys.argv):
        if a == "--tier":
            tier = sys.argv[i + 1]
        if a == "--checks":
            checks = sys.argv[i + 1].split(",")
    rnd = ""
    for i, a in enumerate(sys.argv):
        if a == "--round":
            rnd = sys.argv[i + 1]
    src = "/tmp/mut%s/%s/out" % (rnd if rnd != "1" else "", prop)
    if not os.path.exists(os.path.join(src, "%s.patch" % letter)):
        src = os.path.join(KEEP_ROOT, "seeded", "%s-%s%s" % (prop, letter, rnd if rnd != "1" else ""))
        patch = os.path.join(src, "patch.diff")
    else:
        patch = os.path.join(src, "%s.patch" % letter)
    name = "%s-%s%s" % (prop, letter, rnd if rnd != "1" else "")
    keep = os.path.join(KEEP_ROOT, "seeded", name)
    meta = {"id": name, "breaks_property": prop, "source": "independent sub-agent given only the property text and a scratch worktree", "ran": []}
    if os.path.exists(os.path.join(keep, "meta.json")):
        meta = json.load(open(os.path.join(keep, "meta.json")))
    if COPY:
        prepare_copy()
    assert sh("git status --short", REPO)[1].strip() == "", "the repository to patch is not clean"
    if not skip_confirm and src.startswith("/tmp/mut"):
        if not os.path.exists(WT):
            rc, o = sh("git worktree add -q --detach %s HEAD" % WT, "/repo")
            assert rc == 0, o
        sh("git checkout -q --detach %s && git checkout -- . && git clean -fdq tests" % subprocess.check_output(["git", "-C", REPO, "rev-parse", "HEAD"], text=True).strip(), WT)
        rc, o = sh("git apply --check %s && git apply %s" % (patch, patch), WT)
        if rc != 0:
            print("patch does not apply:", o)
            meta["confirmed"] = False
            meta["confirm_note"] = "patch does not apply: " + o[-300:]
        else:
            tp, tail = tests_pass(WT)
            dem_with, o1 = run_demo(WT, src, letter)
            sh("git apply -R %s" % patch, WT)
            dem_without, o2 = run_demo(WT, src, letter)
            meta["confirm"] = {"repo_tests_pass_with_change": tp, "demo_passes_with_change": dem_with, "demo_passes_without_change": dem_without, "demo_output_with_change": o1[-500:], "commands": ["git apply patch.diff", "cargo nextest run --workspace --no-fail-fast --test-threads 8 --offline", "cargo test --offline --test demo_seeded (or the agent's script)", "git apply -R patch.diff", "the demonstration again"]}
            meta["confirmed"] = bool(tp and dem_with is False and dem_without is True)
            print("confirmation: tests pass with change: %s; demo passes with change: %s; demo passes without: %s -> %s" % (tp, dem_with, dem_without, "CONFIRMED" if meta["confirmed"] else "NOT CONFIRMED"))
            if not meta["confirmed"]:
                print(o1[-600:])
                print("---- without:")
                print(o2[-400:])
        sh("git checkout -- . && git clean -fdq tests", WT)
    # run the checks against the change
    rc, o = sh("git apply %s" % patch, REPO)
    if rc != 0:
        # made against an earlier commit of /repo: merge it
        rc, o = sh("git apply --3way %s" % patch, REPO)
    assert rc == 0, "cannot apply to /repo: " + o
    try:
        for c in checks:
            t0 = time.time()
            env = dict(os.environ, MUT_REPO=REPO, VERIF_ROOT=ROOT) if COPY else None
            rc, o = sh("scripts/check.sh %s %s" % (c, tier), ROOT, timeout=7200, env=env)
            cls = [l.strip()[7:].strip() for l in o.splitlines() if l.strip().startswith("class:")]
            det = [l.strip()[8:].strip()[:300] for l in o.splitlines() if l.strip().startswith("detail:")]
            res = "DETECTED" if rc == 1 else ("missed" if rc == 0 else "machinery-exit-%d" % rc)
            meta["ran"].append({"check": c, "tier": tier, "result": res, "wall_s": round(time.time() - t0, 1), "classes": cls[:5], "first_detail": det[:1], "at": time.strftime("%Y-%m-%d %H:%M")})
            print("%s %s vs %s: %s %s (%.0fs)" % (c, tier, name, res, cls[:3], time.time() - t0))
            if rc not in (0, 1):
                print(o[-800:])
    finally:
        sh("git reset -q --hard HEAD", REPO)
    os.makedirs(keep, exist_ok=True)
    if src.startswith("/tmp/mut"):
        shutil.copy(patch, os.path.join(keep, "patch.diff"))
        for f in os.listdir(src):
            if f.startswith(letter + "_demo") or f in ("fault_shim.c",) or (f.startswith(letter) and f.endswith(".md")):
                shutil.copy(os.path.join(src, f), os.path.join(keep, f))
        md = os.path.join(src, "%s.md" % letter)
        if os.path.exists(md):
            meta["needs_to_manifest"] = open(md).read()[:1500]
    json.dump(meta, open(os.path.join(keep, "meta.json"), "w"), indent=1)

main()
