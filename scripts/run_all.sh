#!/bin/bash
# usage: scripts/run_all.sh <quick|thorough> [ids...]   - runs the checks one after the other, prints a table
cd "$(dirname "$0")/.." || exit 2
TIER="${1:-quick}"; shift
IDS="$@"; [ -z "$IDS" ] && IDS="C01 C02 C03 C04 C05 C06 C07 C08 C09 C10 C11 C12 C13 C14 C15 C16"
for c in $IDS; do
  s=$(date +%s)
  out=$(scripts/check.sh $c $TIER 2>&1); rc=$?
  e=$(date +%s)
  echo "$c $TIER exit=$rc wall=$((e-s))s :: $(echo "$out" | tail -1)"
  if [ $rc -ne 0 ]; then echo "$out" | grep -E "class:|detail:|MACHINERY|VIOLATION" | head -12; fi
done
