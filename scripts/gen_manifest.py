#!/usr/bin/env python3
"""Regenerates /verif/MANIFEST.json from the table below (kept in one place so it stays valid)."""
import json, subprocess

HOOK_COMMITS = ["0f60b35", "ccf42cc"]

CHECKS = {
 "C01": dict(engine="seqx", cat="model_checking", ref="DESIGN.md §2 C01, §1.5 E1",
   technique="explicit-state breadth-first search over operation histories of the real library, de-duplicated by canonical state digest, against a reference nested ordered map",
   text="Every history over four small colliding alphabets (kv, nest, edge, all 2^n delete/insert subsets of 1-, 2- and 3-level trees) up to the stated depth is executed on the real library; every return value and the contents seen by a fresh transaction and after reopening are compared with the reference model. Exhaustive within the bounds, which is what a shape-dependent failure needs and sampling cannot give.",
   note="Trusted: refmodel (nested BTreeMap), rustc. Bounds per scenario in evidence. Page size 1024, strict profile (debug assertions, overflow checks)."),
 "C05": dict(engine="seqx", cat="model_checking", ref="DESIGN.md §2 C05",
   technique="explicit-state search over operation histories; after every commit an independent parser checks the raw file (page partition, bounds, order, separators) and DB::check() must agree",
   text="Same exploration as C01 with only the structural oracle: after every commit of every explored history the file is parsed by fileck (no code shared with the library) and every page below the high-water mark must be accounted for exactly once. Alphabets include dropped transactions, page sizes 1024-16384, boundary-size values, binary / empty / long keys, five-level nesting, 560 sibling buckets, bulk blocks (3-4 level trees), every deletion subset in windows of a five-level tree with nested buckets, every pair of inserts into it, unsplittable multi-page leaves holding nested-bucket entries, non-ASCII text passed as owned Strings.",
   note="Trusted: fileck (restates the pinned layout). Bounds per scenario in evidence."),
 "C06": dict(engine="seqx", cat="model_checking", ref="DESIGN.md §2 C06",
   technique="explicit-state search over commit/drop/reopen/read-only histories; byte-identity of the file and absence of write calls (interposed libc), digest equality, and one-step bisimulation of follow-up commits",
   text="All histories over a menu of large transactions (bulk inserts, nested bucket deletes, overflow values, failing calls) each committed or dropped, reopen, and every mutator attempted through a read-only transaction; a non-committing action must leave file bytes, the shared free list and every follow-up commit unchanged. Further scenarios: one header slot torn by the environment and commits failing at each of their I/O calls (plain and cut short), opens with another page size (refused, bytes unchanged), headers moved into the pinned slots, strict mode on a file with a leaked page (a commit that reports an error must not have changed anything); a committed transaction containing calls that returned an error must leave exactly the file it leaves without them (twin run at the same hash-seed position).",
   note="Trusted: interposition sees every write path of the library (write/fallocate/ftruncate on the database fd). Follow-ups are compared at equal hash-seed positions."),
 "C07": dict(engine="seqx", cat="model_checking", ref="DESIGN.md §2 C07",
   technique="explicit-state search over operation histories with the full read API compared against the reference model after every single operation inside the write transaction",
   text="Same histories as C01 in probing mode: after each put/delete/bucket operation inside the open write transaction, point gets of every key of the universe, cursor scan, bucket and pair listings, seek to every key and a menu of ranges are compared with the model; every put into a non-empty bucket is made while a positioned cursor of that bucket is kept (it must still reach every untouched later entry); one transaction puts 66 000 entries and reads around slots 2^7..2^16; every pair of inserts into a five-level tree.",
   note="Trusted: refmodel. Probing changes the overlay's bookkeeping, so this is a different exploration from C01."),
 "C08": dict(engine="enumx", cat="exploration", ref="DESIGN.md §2 C08",
   technique="bounded-exhaustive enumeration of all seek keys and all bound pairs of every kind over a catalogue of tree shapes (committed and mid-transaction), executed on the real library against the reference filter",
   text="For each bucket shape (empty, single leaf, two and three levels, every deletion subset of the two-level base, nested buckets; each committed and inside an open write transaction) every probe key (each key, both gaps next to it, below, above, empty) is used for get, seek+iterate and as lower/upper bound of every kind in all combinations, also through the bucket-only and pair-only iterators, plus next() after exhaustion, seeks on cursors advanced 1..n times and past the end, the overridable iterator methods (last, count, nth, size_hint), binary / prefix / empty keys, and one leaf of 66 000 entries filled by a single transaction.",
   note="Trusted: refmodel filter. The shape catalogue and probe construction bound the input space; within it nothing is sampled."),
 "C12": dict(engine="metax", cat="fault_enumeration", ref="DESIGN.md §2 C12",
   technique="exhaustive enumeration of single-header damage patterns (every offset x byte values, word-range fills, all word mixes of the two headers) applied to closed files after 0..n commits; each damaged image opened by the real library and compared with the state of the newest header still valid per the independent checker",
   text="Every damage pattern of the bounded classes on either header page of every base file is opened with the real library: open must succeed, the full dump must equal the state recorded by the newest header that is still valid (type byte + checksum, decided by fileck), DB::check() must agree, and one more commit must read back and leave a well-formed file in which the other slot still holds the header it fell back on. Bases: 0..n commits, the same with a final empty write transaction, and legacy-format files upgraded by one commit; by the model's own commit count the shown state must be the last or the one before it.",
   note="Trusted: fileck's restatement of header validity; refmodel. One header damaged, the rest of the file intact."),
 "C02": dict(engine="crashx", cat="fault_enumeration", ref="DESIGN.md §2 C02",
   technique="exhaustive crash-image enumeration per commit from the interposed write/fsync/fallocate log of the real write path (all subsets of unsynced ops, sector tears, 8-byte header tears, kill prefixes), each image reopened with the real library; second- and third-level chains (crash, recover with the real library, commit, crash again)",
   text="For every commit of the scripted histories (file growth from 4 pages, page-reusing update chains, overflow values, bucket deletes, splits/merges, every pair of kv-alphabet transactions) every crash image of the stated crash model is synthesised and reopened: open must succeed and show exactly the pre- or post-state (post once all syncs completed), DB::check() and the independent checker must accept the file. Page sizes 1024, 4096, 5000 and 1032 (nodes ending in the last bytes of a page run).",
   note="Trusted: the crash model (fsync barrier semantics, 512-byte sectors, 8-byte header words), fileck, refmodel. Interposition sees all I/O of the library on the database fd."),
 "C11": dict(engine="faultx", cat="fault_enumeration", ref="DESIGN.md §2 C11",
   technique="exhaustive single-fault enumeration: every I/O call of every target commit fails in every mode of its kind (errno, short write then errno) via in-process libc interposition; then follow-up transactions on the same handle and a reopen, judged by the reference model, the independent file checker and DB::check()",
   text="For each commit of the scripted histories the calls it issues are counted, then the same history is replayed once per (call, failure mode): commit must return Err without panicking, the same handle must at once show exactly the pre- or post-state, three further transactions (one reusing free pages) must commit and read back, and the file must be well-formed, also after reopening. After a fault that hit a sync or cut a write short, a second fault at each of the first 14 calls of the next commit (thorough: also 24 calls of the large follow-up). Every case is repeated with an abandoned write transaction right after the failure, with a reader opened before it (pre-sized files) and, for double failures, with a reader opened between them; after a failed growth step the next commit needs more than one step.",
   note="Trusted: interposition reaches every I/O call of the commit path; refmodel; fileck. RLIMIT_FSIZE is modelled as the extension/write call failing."),
 "C04": dict(engine="schedx", cat="model_checking", ref="DESIGN.md §2 C04, §1.5 E2",
   technique="stateless preemption-bounded (CHESS-style) exploration of all schedules of real reader and writer threads on the real library under a baton scheduler that owns the lock model; scheduling points at every library lock acquisition and every system call on the database fd",
   text="Every chain of two (thorough: three) writer commits from a menu of six transaction bodies of different dirty-set sizes runs against one or two reader threads under every schedule with at most c preemptions; each reader's dumps must all equal one committed state that is at least as new as every commit completed before the reader began; no panic, no deadlock; the file afterwards holds the last state. Further cases: a second writer thread with a commuting chain, commits whose final sync fails (once, twice in a row) or whose header write fails, a commit that grows the file, and a staged case with two readers of different ages over six commits.",
   note="Trusted: the lock seam reports every lock operation of db.rs/tx.rs; interposition sees every syscall on the fd; refmodel. Bounds (threads, commits, preemptions) per case in evidence."),
 "C09": dict(engine="schedx", cat="model_checking", ref="DESIGN.md §2 C09",
   technique="stateless preemption-bounded exploration of all schedules of 1-3 real writer threads doing read-modify-write increments with 0-2 reader threads, including file growth (remap under the map write lock); deadlock = no enabled thread in the scheduler's lock model; both RwLock priority models",
   text="Under every schedule within the bound: never two write transactions open at once, each writer reads a counter value not older than the commits completed before it began, the values read are 0..W-1 exactly once and the final value is W, readers see one value, every thread finishes (no deadlock under either RwLock model), and in the liveness scenario a reader is never blocked by an open uncommitted writer. Cases with a failed mmap / failed final sync in writer 0's first commit, a 20 MiB value, DB::check() in reader threads.",
   note="Trusted as for C04. Each thread holds at most one transaction, as the documentation requires."),
 "C13": dict(engine="schedx", cat="model_checking", ref="DESIGN.md §2 C13",
   technique="stateless exploration of all schedules (2 openers: complete; 3 openers: preemption-bounded) of openers at system-call granularity: opener threads with flock modelled by the scheduler per inode, and forked opener processes released one system call at a time under the kernel's own flock",
   text="Two and three openers of the same file, existing or not yet created, each committing a marker while it holds the database: under every explored schedule never two openers inside, every open returns Ok, each opener sees the markers of all openers that closed before its open returned, no deadlock, all markers in the final file.",
   note="Thread cases: openers are threads with independent descriptors (flock is per open file description; the scheduler's lock model takes the kernel's answer for every lock it grants). Process cases: the same opener bodies as forked processes, each stopped through a pipe before every system call on the database file and released one at a time, flock answered by the kernel alone. Variants: signal during the lock wait, failed initialisation, failed length query, failed sync then file growth, holder growing the file, second descriptor on the same file, different num_pages / populate per opener, hard link as second name, direct_writes, DB::check() by the holder, a clone of the handle dropped by the holder, holders that start a helper program which outlives the handle (the kernel must not report the lock taken once every handle is closed)."),
 "C03": dict(engine="seqx", cat="model_checking", ref="DESIGN.md §2 C03",
   technique="explicit-state breadth-first search over single-threaded interleavings of open-reader / close-reader / committing and rolled-back writers on the real library; every open reader fully re-dumped after every action and compared with the state recorded when it was opened",
   text="All action sequences to the stated depth over {open reader (up to k open), close reader i, commit j, drop j} with a page-reusing update/delete menu: after every action every long-lived read transaction must still dump exactly the state committed when it began (a consistent newer state is a violation here). Unmapped database memory is replaced by inaccessible pages so a stale pointer faults deterministically.",
   note="Trusted: refmodel; the file is pre-sized because growing it while the same thread holds a reader self-deadlocks by design (documented). Supplements inside the same check: readers opened while a write transaction is open, commit() on a reader, staged histories holding a reader over 8-66 (thorough 260) commits, a preemption-bounded threaded run (reader threads beginning inside another thread's commit), writers whose header write fails, and every mutator attempted by each long-lived reader (by name and through listing handles) before each comparison."),
 "C10": dict(engine="seqx", cat="model_checking", ref="DESIGN.md §2 C10",
   technique="explicit-state closure search: complete reachable state graph of small cyclic workloads on the real library, keyed by a digest without absolute transaction ids (fixpoint = bounded page high-water mark for all infinite runs over that alphabet), plus long deterministic laps",
   text="For each small cyclic workload (fixed- and two-size overwrites, delete/re-insert, bucket delete/recreate, an overflow value coming and going, reopen, one reader pinned across up to three commits) the search runs until no new state appears; the maximum page high-water mark over the closed set is a bound for every infinite run. Larger workloads run as deterministic laps of 2 000 / 20 000 (one lap 70 000) transactions with plateau, reopen and pinned-reader rules: overwrites, bucket churn, multi-page free lists, three overlapping readers, rollbacks, long keys, a 9 MiB value, nested-then-ancestor deletes.",
   note="Trusted: the relative digest is sound (argument in DESIGN.md; merged pairs across different transaction ids are cross-checked by comparing all one-step successors); fileck reads the high-water mark."),
 "C16": dict(engine="optx", cat="exploration", ref="DESIGN.md §2 C16",
   technique="exhaustive enumeration of the configuration product (page size x initial pages x strict x populate) with a fixed set of page-size-scaled histories executed on the real library against the reference model; every builder-accepted odd page size probed in a subprocess",
   text="All 108 configurations run the same histories (key/value sizes as fractions of the page size so split/merge thresholds are hit everywhere): every return value and post-commit dump must equal the reference model, the file must be well-formed, strict mode must not reject a valid commit; growth runs start from the configured initial size and cross at least four extension steps; every page size in [1024,1100] and 4095..4104 must work or be refused cleanly; the persisted free list is walked across the one-page capacity with a reopen after every commit; reopen with another num_pages; a sweep of commits ending around the last (partial) page of the grown file at page sizes 1032 / 3000 / 5000 / 4096.",
   note="Trusted: refmodel, fileck. direct_writes is not in the property's quantifier."),
 "C15": dict(engine="compatx", cat="exploration", ref="DESIGN.md §2 C15",
   technique="enumeration of golden files written by the pinned code (4 page sizes x 3 header variants incl. the legacy SHA3 record) opened and continued under the current code, every mismatching page size refused byte-identically, and every file produced by a fixed history set parsed by the independent reader that encodes the pinned layout",
   text="Each golden file (nested buckets three deep, multi-page values, non-empty free list, 6 commits) must open with exactly the recorded contents in all three header variants, accept five further transactions (one reusing free pages) and a reopen; opening it with any other page size of the set must be refused without changing a byte; files written by the current tree at each page size (option histories, free-list boundary walk, reader-pinned multi-page free list) must parse with fileck to the reference contents and pass DB::check(); small never-grown files must refuse every other page size. Golden variants and produced histories run in forked copies of the check.",
   note="Trusted: fileck (pinned layout constants), the golden generation procedure (golden/README), refmodel."),
 "C14": dict(engine="typex", cat="exploration", ref="DESIGN.md §2 C14",
   technique="bounded-exhaustive enumeration of client programs generated from the complete public API surface (nightly rustdoc JSON of the current tree: methods, trait impls, enum-variant fields, public struct fields) x escape routes; each decided by rustc's type/borrow checker, and every program that compiles executed in a probe process with unmapped memory made inaccessible",
   text="For every public method and trait method on every type reachable from a transaction (producers, arguments synthesised from the bounds) and every escape route (past the transaction's scope, past commit, returned from the owning function, leaked transaction past its database, moved / shared into scoped and spawned threads, plus argument and handle routes) the program must be rejected with a borrow / lifetime / Send error, or, if it compiles, run without a fault and with identical bytes while the file is rewritten and remapped; positive controls must compile, and every 'ordinary usage' program (value outlives the temporary handles, not the transaction) that the repaired pinned types accept (golden/typex_ordinary_baseline.json) must still compile - including named handles / iterators still in scope at commit, listed names and owned Strings as arguments of every key-taking method, and From conversions as producers.",
   note="Trusted: rustc; the munmap-poisoning probe. API items the synthesiser cannot call are listed as coverage gaps in the evidence, never as violations."),
}

NA = {}

def main():
    props = [json.loads(l) for l in open('/verif/properties.jsonl')]
    checks = []
    for p in props:
        c = CHECKS.get(p["id"])
        if not c: continue
        checks.append({
            "property_id": p["id"],
            "quick_cmd": f"scripts/check.sh {p['id']} quick",
            "thorough_cmd": f"scripts/check.sh {p['id']} thorough",
            "evidence_file": f"/verif/evidence/{p['id']}.json",
            "replay_cmd_template": "mc/target/debug/vcheck replay {path}" if p["id"] != "C14" else "python3 -c \"import json,sys; print(json.load(open(sys.argv[1]))['program'])\" {path}   # prints the offending program; compile it against the jammdb rlib to reproduce",
            "engine": c["engine"],
            "level_claimed": {"category": c["cat"], "text": c["text"], "design_ref": c["ref"]},
            "level_note": c["note"],
            "technique": c["technique"],
        })
    na = []
    for p in props:
        if p["id"] not in CHECKS:
            na.append({"property_id": p["id"], "reason": NA.get(p["id"], "check not built yet (work in progress; the planned engine is described in DESIGN.md §2)")})
    m = {
        "version": 1,
        "setup_cmd": "scripts/setup.sh",
        "hooks": {
            "guard": "cargo feature verif-hooks (off by default)",
            "enable": "the harness crate /verif/mc depends on jammdb = { path = \"/repo\", features = [\"verif-hooks\"] }; every check command runs cargo build there first, which rebuilds jammdb from /repo's working tree",
            "baseline_off_cmd": "cd /repo && (cargo nextest run --workspace --no-fail-fast --test-threads 8 --offline || cargo test --workspace --no-fail-fast --offline)",
            "source_commits": HOOK_COMMITS,
            "add_only": True,
        },
        "engines": [
            {"name": "enumx", "path": "mc/src/enumx.rs", "serves_properties": ["C08"], "kind_free_text": "bounded-exhaustive input enumeration (seek keys x bound kinds x shapes) on the real read API"},
            {"name": "metax", "path": "mc/src/metax.rs", "serves_properties": ["C12"], "kind_free_text": "exhaustive byte/word damage enumeration on header pages, recovered with the real open()"},
            {"name": "crashx", "path": "mc/src/crashx.rs", "serves_properties": ["C02"], "kind_free_text": "crash-point / torn-write enumeration over the logged I/O of each commit, recovery by the real open()"},
            {"name": "faultx", "path": "mc/src/faultx.rs", "serves_properties": ["C11"], "kind_free_text": "per-call I/O fault injection over each commit, follow-up transactions and reopen"},
            {"name": "schedx", "path": "mc/src/sched.rs, mc/src/schedx.rs, mc/src/c09.rs, mc/src/c13.rs", "serves_properties": ["C04", "C09", "C13"], "kind_free_text": "controlled scheduler for real OS threads running the real library (baton passing, lock model in the scheduler, context-bounded DFS over choice prefixes, subtree jobs spread over worker processes)"},
            {"name": "optx", "path": "mc/src/optx.rs", "serves_properties": ["C16"], "kind_free_text": "configuration-product enumeration with model comparison; odd page sizes in probe processes"},
            {"name": "compatx", "path": "mc/src/compatx.rs", "serves_properties": ["C15"], "kind_free_text": "golden-file and page-size-mismatch enumeration; write-side conformance through the independent parser"},
            {"name": "typex", "path": "scripts/typex.py", "serves_properties": ["C14"], "kind_free_text": "client-program enumeration from rustdoc JSON, rustc as the decision procedure, probe runs for programs that compile"},
            {"name": "seqx", "path": "mc/src/seqx.rs", "serves_properties": ["C01", "C03", "C05", "C06", "C07", "C10"], "kind_free_text": "explicit-state BFS over histories of whole transactions executed on the real library in worker processes; state = history, key = structural digest of file + shared in-memory bookkeeping"},
        ],
        "checks": checks,
        "not_applicable": na,
        "notes": "Exit 0 = held on everything explored, 1 = VIOLATION line(s) printed, 2 = machinery error (build failure, engine crash) which is never a verdict. Genuine defects found and repaired are listed in known_findings.json under 'fixed'.",
    }
    json.dump(m, open('/verif/MANIFEST.json', 'w'), indent=1)
    print("checks:", [c["property_id"] for c in checks], "not claimed:", [n["property_id"] for n in na])

main()
