#!/bin/bash
# usage: scripts/check.sh <Cxx> <quick|thorough>
# Rebuilds the harness (and, through the path dependency, jammdb from /repo's working tree with
# the verif-hooks feature), then runs one property check.  Exit 0 held / 1 violation / 2 machinery.
set -u
ID="$1"; TIER="${2:-quick}"
cd /verif/mc || exit 2
export CARGO_NET_OFFLINE=true
if ! cargo build --offline >/verif/mc/target.build.log 2>&1; then
  if ! cargo build --offline 2>&1 | tail -40; then :; fi
  echo "MACHINERY-ERROR: harness build failed (see above)"; exit 2
fi
exec /verif/mc/target/debug/vcheck check "$ID" --tier "$TIER"
