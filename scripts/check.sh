#!/bin/bash
# usage: scripts/check.sh <Cxx> <quick|thorough>
# Rebuilds the harness (and, through the path dependency, jammdb from /repo's working tree with
# the verif-hooks feature), then runs one property check.  Exit 0 held / 1 violation / 2 machinery.
set -u
ID="$1"; TIER="${2:-quick}"
ROOT="$(cd "$(dirname "$0")/.." && pwd)"
cd "$ROOT/mc" || exit 2
export CARGO_NET_OFFLINE=true
if ! cargo build --offline >"$ROOT/mc/target.build.log" 2>&1; then
  if [ "$ID" = "C14" ] && ls "$ROOT"/mc/target/debug/deps/libjammdb-*.rlib >/dev/null 2>&1 && grep -q "could not compile .vcheck." "$ROOT/mc/target.build.log"; then
    # jammdb itself built, the harness (an ordinary client of its public API) no longer compiles against
    # it: for C14 that is a finding, not a machinery problem; typex does not need the harness binary
    exec python3 "$ROOT/scripts/typex.py" "$TIER" --harness-build-failed "$ROOT/mc/target.build.log"
  fi
  tail -40 "$ROOT/mc/target.build.log"
  echo "MACHINERY-ERROR: harness build failed (see above)"; exit 2
fi
if [ "$ID" = "C14" ]; then
  exec python3 "$ROOT/scripts/typex.py" "$TIER"
fi
exec "$ROOT/mc/target/debug/vcheck" check "$ID" --tier "$TIER"
