#!/bin/bash
# usage: scripts/check.sh <Cxx> <quick|thorough>
# Rebuilds the harness (and, through the path dependency, jammdb from /repo's working tree with
# the verif-hooks feature), then runs one property check.  Exit 0 held / 1 violation / 2 machinery.
set -u
ID="$1"; TIER="${2:-quick}"
ROOT="$(cd "$(dirname "$0")/.." && pwd)"
cd "$ROOT/mc" || exit 2
export CARGO_NET_OFFLINE=true
if ! cargo build --offline >"$ROOT/mc/target.build.log" 2>&1; then
  tail -40 "$ROOT/mc/target.build.log"
  echo "MACHINERY-ERROR: harness build failed (see above)"; exit 2
fi
if [ "$ID" = "C14" ]; then
  exec python3 "$ROOT/scripts/typex.py" "$TIER"
fi
exec "$ROOT/mc/target/debug/vcheck" check "$ID" --tier "$TIER"
