#!/usr/bin/env python3
"""Re-runs the current quick check of its property against every seeded change under seeded/,
on a private copy of /repo and /verif (so that /repo and /verif stay usable meanwhile), and writes
seeded/RESULTS.md (+ the `current` field of each meta.json).

usage: reeval_seeded.py [--only C03,C04] [--jobs N]
The copy lives in /tmp/reeval and is removed at the end.
"""
import json, os, re, shutil, subprocess, sys, time

ROOT = os.path.dirname(os.path.dirname(os.path.abspath(__file__)))
WORK = "/tmp/reeval"

def sh(cmd, cwd=None, timeout=None, env=None):
    try:
        r = subprocess.run(cmd, shell=True, cwd=cwd, stdout=subprocess.PIPE, stderr=subprocess.STDOUT, text=True, timeout=timeout, env=env)
        return r.returncode, r.stdout
    except subprocess.TimeoutExpired as e:
        o = e.stdout
        return 124, (o.decode() if isinstance(o, bytes) else (o or "")) + "\n[timeout]"

def setup():
    shutil.rmtree(WORK, ignore_errors=True)
    os.makedirs(WORK)
    # a clone (with history, so that patches made against an earlier fix commit can be applied 3-way)
    assert sh("git status --short", "/repo")[1].strip() == "", "/repo is not clean"
    sh("git clone -q /repo %s/repo" % WORK)
    sh("rsync -a --exclude seeded --exclude .git --exclude replays --exclude evidence %s/ %s/verif/" % (ROOT, WORK))
    os.makedirs(WORK + "/verif/evidence", exist_ok=True)
    p = WORK + "/verif/mc/Cargo.toml"
    s = open(p).read().replace('path = "/repo"', 'path = "%s/repo"' % WORK)
    open(p, "w").write(s)
    rc, o = sh("scripts/check.sh C15 quick", WORK + "/verif", timeout=1800)
    assert rc == 0, "the copy does not pass its own check: " + o[-600:]

def main():
    only = None
    for i, a in enumerate(sys.argv):
        if a == "--only":
            only = sys.argv[i + 1].split(",")
    setup()
    env = dict(os.environ, MUT_REPO=WORK + "/repo", VERIF_ROOT=WORK + "/verif")
    names = sorted(d for d in os.listdir(ROOT + "/seeded") if re.match(r"C\d\d-[A-C]\d*$", d))
    for n in names:
        prop = n[:3]
        if only and prop not in only:
            continue
        d = os.path.join(ROOT, "seeded", n)
        meta = json.load(open(d + "/meta.json"))
        rc, o = sh("git apply %s/patch.diff" % d, WORK + "/repo")
        if rc != 0:
            rc, o = sh("git apply --3way %s/patch.diff" % d, WORK + "/repo")
        if rc != 0:
            print(n, "patch does not apply to the current tree:", o[-200:])
            meta["current"] = {"result": "patch-does-not-apply", "at": time.strftime("%Y-%m-%d %H:%M")}
            json.dump(meta, open(d + "/meta.json", "w"), indent=1)
            continue
        t0 = time.time()
        try:
            rc, o = sh("scripts/check.sh %s quick" % prop, WORK + "/verif", timeout=3600, env=env)
        finally:
            sh("git reset -q --hard HEAD && git clean -fdq", WORK + "/repo")
        cls = [l.strip()[7:].strip() for l in o.splitlines() if l.strip().startswith("class:")]
        res = "DETECTED" if rc == 1 else ("missed" if rc == 0 else "machinery-exit-%d" % rc)
        meta["current"] = {"check": prop, "tier": "quick", "result": res, "classes": cls[:4], "wall_s": round(time.time() - t0, 1), "at": time.strftime("%Y-%m-%d %H:%M")}
        json.dump(meta, open(d + "/meta.json", "w"), indent=1)
        print("%s: %s %s (%.0fs)" % (n, res, cls[:2], time.time() - t0), flush=True)
    write_results()
    shutil.rmtree(WORK, ignore_errors=True)

def write_results():
    names = sorted(d for d in os.listdir(ROOT + "/seeded") if re.match(r"C\d\d-[A-C]\d*$", d))
    rows = []
    tot = first = now = sib = 0
    for n in names:
        prop = n[:3]
        m = json.load(open(os.path.join(ROOT, "seeded", n, "meta.json")))
        own = [r for r in m.get("ran", []) if r["check"] == prop and r.get("tier", "quick") == "quick"]
        others = sorted(set(r["check"] for r in m.get("ran", []) if r["check"] != prop and r["result"] == "DETECTED"))
        f = own[0]["result"] if own else "-"
        cur = m.get("current", {})
        c = cur.get("result") or (own[-1]["result"] if own else "-")
        cls = cur.get("classes") or (own[-1]["classes"] if own else [])
        tot += 1
        first += f == "DETECTED"
        now += c == "DETECTED"
        sib += (c != "DETECTED" and bool(others))
        rows.append("| %s | %s | %s | %s | %s | %s |" % (n, m.get("confirmed"), f, c, ", ".join(x[:70] for x in cls[:2]), ", ".join(others)))
    with open(os.path.join(ROOT, "seeded", "RESULTS.md"), "w") as fh:
        fh.write("# Seeded property-breaking changes (independent sub-agents)\n\n")
        fh.write("Eleven rounds (a name ending in a number n belongs to round n; no number: round 1). Each change was produced by a sub-agent that saw only the property text and a scratch worktree (later rounds also a list of the earlier changes to avoid); confirmed here in a separate scratch worktree (patch applies, 72 repository tests pass with it, the agent's demonstration fails with it and passes without it) and then applied for the check runs (and reverted). `first run` is the quick check of the property as it was when the change arrived; `now` is the latest run of that check recorded in the change's meta.json (rounds 1-8 were all re-run by scripts/reeval_seeded.py after the eighth round's strengthening; later rounds were re-run one by one after the strengthening they caused); the last column lists other properties' checks that were tried and report it too.\n\n")
        fh.write("%d changes; reported by their own property's quick check at first run: %d; now: %d; of the rest, reported by a sibling check: %d.\n\n" % (tot, first, now, sib))
        fh.write("| change | confirmed | first run | now | violation classes reported | also reported by |\n|---|---|---|---|---|---|\n")
        fh.write("\n".join(rows) + "\n")
    print("%d changes, first run %d, now %d, sibling-only %d" % (tot, first, now, sib))

if __name__ == "__main__":
    if "--table-only" in sys.argv:
        write_results()
    else:
        main()
