#!/usr/bin/env python3
"""C14 typex: enumerate client programs from the crate's public API surface (nightly rustdoc JSON of the
current tree), one per (producer, escape route); rustc must reject each with a borrow / lifetime / Send
error, or - if it compiles - it is run in a probe process that ends the transaction, grows and
rewrites the file (old mappings become inaccessible) and reads the value again: no fault, same bytes.

usage: typex.py <quick|thorough>      (run through scripts/check.sh C14, which builds the harness first)
"""
import json, os, re, subprocess, sys, time, glob, shutil, collections

ROOT = os.path.dirname(os.path.dirname(os.path.abspath(__file__)))
MC = os.path.join(ROOT, "mc")
TIER = sys.argv[1] if len(sys.argv) > 1 else os.environ.get("VERIF_TIER", "quick")
SEED = int(os.environ.get("VERIF_SEED", "1"))
T0 = time.time()
WORK = os.path.join(MC, "target", "typex")
REPO = os.environ.get("MUT_REPO", "/repo")

BORROW_CODES = {"E0597", "E0505", "E0515", "E0716", "E0521", "E0499", "E0502", "E0506", "E0373", "E0712", "E0713", "E0503", "E0700", "E0310", "E0311", "E0759", "E0495", "E0621", "E0726"}
SEND_CODES = {"E0277"}

def die(msg):
    print("MACHINERY-ERROR:", msg)
    sys.exit(2)

def sh(cmd, **kw):
    return subprocess.run(cmd, stdout=subprocess.PIPE, stderr=subprocess.PIPE, text=True, **kw)

# ------------------------------------------------------------------------------------------------
# 1. API surface

def rustdoc_json():
    env = dict(os.environ, RUSTDOCFLAGS="-Zunstable-options --output-format json --document-private-items", CARGO_NET_OFFLINE="true")
    r = sh(["cargo", "+nightly", "doc", "--offline", "--no-deps", "--manifest-path", REPO + "/Cargo.toml", "--target-dir", os.path.join(MC, "target", "rustdoc")], env=env)
    p = os.path.join(MC, "target", "rustdoc", "doc", "jammdb.json")
    if r.returncode != 0 or not os.path.exists(p):
        die("rustdoc JSON generation failed: " + r.stderr[-2000:])
    return json.load(open(p))

def tyname(t):
    if t is None:
        return "()"
    if "resolved_path" in t:
        rp = t["resolved_path"]
        return (rp.get("path") or rp.get("name") or "?").split("::")[-1]
    if "borrowed_ref" in t:
        return "&" + ("mut " if t["borrowed_ref"].get("is_mutable") else "") + tyname(t["borrowed_ref"]["type"])
    if "generic" in t:
        return t["generic"]
    if "primitive" in t:
        return t["primitive"]
    if "slice" in t:
        return "[" + tyname(t["slice"]) + "]"
    if "tuple" in t:
        return "(" + ",".join(tyname(x) for x in t["tuple"]) + ")"
    if "impl_trait" in t:
        return "impl"
    if "qualified_path" in t:
        return "qpath"
    if "array" in t:
        return "array"
    return "?"

def tyfull(t):
    """type name including generic arguments, e.g. Option<Data>, Result<Bucket,Error>"""
    if t is None:
        return "()"
    if "resolved_path" in t:
        rp = t["resolved_path"]
        name = (rp.get("path") or rp.get("name") or "?").split("::")[-1]
        args = rp.get("args") or {}
        inner = []
        for a in (args.get("angle_bracketed") or {}).get("args", []):
            if "type" in a:
                inner.append(tyfull(a["type"]))
        return name + ("<" + ",".join(inner) + ">" if inner else "")
    if "borrowed_ref" in t:
        return "&" + tyfull(t["borrowed_ref"]["type"])
    if "tuple" in t:
        return "(" + ",".join(tyfull(x) for x in t["tuple"]) + ")"
    if "slice" in t:
        return "[" + tyfull(t["slice"]) + "]"
    if "qualified_path" in t:
        return "qpath:" + t["qualified_path"].get("name", "?")
    if "impl_trait" in t:
        parts = []
        for b in t["impl_trait"]:
            tr = b.get("trait_bound", {}).get("trait", {})
            ab = (tr.get("args") or {}).get("angle_bracketed") or {}
            inner = [tyfull(x["type"]) for x in ab.get("args", []) if "type" in x]
            # associated type bindings (Iterator<Item = ..>): what the iterator yields
            for c in ab.get("constraints", []):
                ty = ((c.get("binding") or {}).get("equality") or {}).get("type")
                if ty:
                    inner.append("%s=%s" % (c.get("name", "?"), tyfull(ty)))
            parts.append(tr.get("path", "?") + "<" + ",".join(inner) + ">")
        return "impl " + "+".join(parts)
    return tyname(t)

def api_methods(doc):
    """(self type name, trait or None, method name, receiver, [(arg name, arg type, bounds)], output type)"""
    idx = doc["index"]
    out = []
    for k, v in idx.items():
        inner = v["inner"]
        if "impl" not in inner:
            continue
        im = inner["impl"]
        if im.get("is_synthetic") or im.get("blanket_impl"):
            continue
        trait = im["trait"]["path"].split("::")[-1] if im.get("trait") else None
        forty = tyname(im["for"])
        for it in im["items"]:
            f = idx.get(str(it))
            if not f or "function" not in f["inner"]:
                continue
            if trait is None and f["visibility"] != "public":
                continue
            fn = f["inner"]["function"]
            bounds = {}
            for g in fn["generics"]["params"]:
                if "type" in g["kind"]:
                    bounds[g["name"]] = [b.get("trait_bound", {}).get("trait", {}).get("path", "").split("::")[-1] for b in g["kind"]["type"]["bounds"]]
            for wp in fn["generics"].get("where_predicates", []):
                bp = wp.get("bound_predicate")
                if bp and "generic" in bp["type"]:
                    bounds.setdefault(bp["type"]["generic"], []).extend(b.get("trait_bound", {}).get("trait", {}).get("path", "").split("::")[-1] for b in bp["bounds"])
            ins = fn["sig"]["inputs"]
            recv = None
            args = []
            for n, t in ins:
                if n == "self":
                    recv = tyname(t)
                else:
                    tn = tyname(t)
                    args.append((n, tn, bounds.get(tn, [])))
            out.append((forty, trait, f["name"], recv, args, tyname(fn["sig"]["output"]), tyfull(fn["sig"]["output"])))
    return out

# seeds: how to obtain a value of each type inside a transaction `tx` on bucket "b"
SEEDS = {
    "DB": ([], "db"),
    "Tx": ([], "tx"),
    "Bucket": (["let s0 = tx.get_bucket(\"b\").unwrap();"], "s0"),
    "Cursor": (["let s0 = tx.get_bucket(\"b\").unwrap();", "let mut s1 = s0.cursor();", "let _ = s1.next();"], "s1"),
    "Data": (["let s0 = tx.get_bucket(\"b\").unwrap();", "let s1 = s0.get(\"k1\").unwrap();"], "s1"),
    "KVPair": (["let s0 = tx.get_bucket(\"b\").unwrap();", "let s1 = s0.get_kv(\"k1\").unwrap();"], "s1"),
    "BucketName": (["let s0 = tx.get_bucket(\"b\").unwrap();", "let s1 = s0.buckets().next().unwrap().0;"], "s1"),
    "&BucketName": (["let s0 = tx.get_bucket(\"b\").unwrap();", "let s1 = s0.buckets().next().unwrap().0;"], "(&s1)"),
    "Range": (["let s0 = tx.get_bucket(\"b\").unwrap();", "let mut s1 = s0.range(..);"], "s1"),
    "Buckets": (["let s0 = tx.get_bucket(\"b\").unwrap();", "let mut s1 = s0.cursor().to_buckets();"], "s1"),
    "KVPairs": (["let s0 = tx.get_bucket(\"b\").unwrap();", "let mut s1 = s0.cursor().to_kv_pairs();"], "s1"),
    "Bytes": (["let s0 = tx.get_bucket(\"b\").unwrap();", "let s1 = s0.buckets().next().unwrap().0;", "let s2 = (&s1).to_bytes();"], "s2"),
    "&Bytes": (["let s0 = tx.get_bucket(\"b\").unwrap();", "let s1 = s0.buckets().next().unwrap().0;", "let s2 = (&s1).to_bytes();"], "(&s2)"),
}

def synth_arg(name, ty, bounds):
    if "ToBytes" in bounds:
        return "\"zz\""
    if "AsRef" in bounds:
        return "\"k1\""
    if "RangeBounds" in bounds or ty == "R":
        return ".."
    if ty in ("u64", "usize"):
        return "4096"
    if ty == "bool":
        return "false"
    return None

def variant_producers(doc):
    """Fields of the variants of public enums are reachable by destructuring, without any method:
    one producer per field of every tuple / struct variant of every public enum that has a seed."""
    idx = doc["index"]
    out = []
    # names a client can write: items and re-exports of the crate root
    root = idx[str(doc["root"])]["inner"]["module"]["items"]
    nameable = set()
    for it in root:
        r = idx.get(str(it))
        if not r:
            continue
        if "use" in r["inner"]:
            u = r["inner"]["use"]
            if u.get("is_glob"):
                m = idx.get(str(u.get("id")))
                if m and "module" in m["inner"]:
                    for sub in m["inner"]["module"]["items"]:
                        si = idx.get(str(sub))
                        if si and si.get("name") and si.get("visibility") == "public":
                            nameable.add(si["name"])
            else:
                nameable.add(u["name"])
        elif r.get("name"):
            nameable.add(r["name"])
    # public fields of public structs: reachable by plain field access
    for k, v in idx.items():
        if "struct" not in v["inner"] or v["visibility"] != "public":
            continue
        name = v["name"]
        if name not in SEEDS or name in ("DB", "Tx"):
            continue
        lets, sexpr = SEEDS[name]
        kind = v["inner"]["struct"]["kind"]
        fields = []
        if isinstance(kind, dict) and "plain" in kind:
            fields = [(idx[str(f)]["name"], idx[str(f)]) for f in kind["plain"]["fields"] if str(f) in idx]
        elif isinstance(kind, dict) and "tuple" in kind:
            fields = [(str(j), idx[str(f)]) for j, f in enumerate(kind["tuple"]) if f is not None and str(f) in idx]
        for fname, fitem in fields:
            if fitem.get("visibility") != "public":
                continue
            out.append({"id": "field:%s.%s" % (name, fname), "lets": lets, "expr": "%s.%s" % (sexpr, fname), "out": "field", "outfull": "field", "consumes_seed": True})
            out.append({"id": "field:%s.%s.clone" % (name, fname), "lets": lets, "expr": "%s.%s.clone()" % (sexpr, fname), "out": "field", "outfull": "field", "consumes_seed": False})
    for k, v in idx.items():
        if "enum" not in v["inner"] or v["visibility"] != "public":
            continue
        name = v["name"]
        if name not in SEEDS or name not in nameable:
            continue
        lets, sexpr = SEEDS[name]
        for vid in v["inner"]["enum"]["variants"]:
            vv = idx[str(vid)]
            kind = vv["inner"]["variant"]["kind"]
            if kind == "plain":
                continue
            if "tuple" in kind:
                n = len(kind["tuple"])
                pats = ["(" + ", ".join("x" if i == j else "_" for i in range(n)) + ")" for j in range(n)]
            else:
                fields = [idx[str(f)]["name"] for f in kind["struct"]["fields"]]
                pats = ["{ %s: x, .. }" % f for f in fields]
            for j, pat in enumerate(pats):
                if name == "Data":
                    # every variant occurs in bucket "b": take the first entry of that kind
                    blets = SEEDS["Bucket"][0]
                    expr = "s0.cursor().find_map(|d| match d { %s::%s%s => Some(x), _ => None }).unwrap()" % (name, vv["name"], pat)
                    out.append({"id": "variant:%s::%s.%d" % (name, vv["name"], j), "lets": blets, "expr": expr, "out": "field", "outfull": "field", "consumes_seed": False})
                else:
                    expr = "match %s { %s::%s%s => Some(x), _ => None }.unwrap()" % (sexpr, name, vv["name"], pat)
                    out.append({"id": "variant:%s::%s.%d" % (name, vv["name"], j), "lets": lets, "expr": expr, "out": "field", "outfull": "field", "consumes_seed": True})
    return out

def infer_ty(t):
    """a type expression a client can write without naming private types: placeholders where needed"""
    if t is None:
        return "()"
    if "tuple" in t:
        return "(" + ", ".join("_" for _ in t["tuple"]) + ")"
    if "resolved_path" in t:
        rp = t["resolved_path"]
        return (rp.get("path") or rp.get("name") or "_").split("::")[-1]
    return "_"

def from_producers(doc):
    """conversions: every `impl From<S> for T` whose source S is one of the transaction-bound
    types is a producer `<T>::from(s)` (and, for a tuple target, one producer per component)"""
    idx = doc["index"]
    out = []
    for k, v in idx.items():
        inner = v["inner"]
        if "impl" not in inner:
            continue
        im = inner["impl"]
        if im.get("is_synthetic") or im.get("blanket_impl") or not im.get("trait"):
            continue
        if im["trait"]["path"].split("::")[-1] != "From":
            continue
        targs = ((im["trait"].get("args") or {}).get("angle_bracketed") or {}).get("args", [])
        if not targs or "type" not in targs[0]:
            continue
        src = tyname(targs[0]["type"])
        if src not in SEEDS or src in ("DB", "Tx"):
            continue
        lets, sexpr = SEEDS[src]
        tgt = im["for"]
        ident = "From<%s>for %s" % (src, tyfull(tgt))
        expr = "<%s>::from(%s)" % (infer_ty(tgt), sexpr)
        out.append({"id": ident, "lets": lets, "expr": expr, "out": tyname(tgt), "outfull": tyfull(tgt), "consumes_seed": True})
        if "tuple" in tgt:
            for j, comp in enumerate(tgt["tuple"]):
                out.append({"id": "%s.%d" % (ident, j), "lets": lets, "expr": "%s.%d" % (expr, j), "out": tyname(comp), "outfull": tyfull(comp), "consumes_seed": True})
    return out

def producers(methods):
    prods = []
    gaps = []
    seen = set()
    for (forty, trait, name, recv, args, outty, outfull) in methods:
        key = forty if forty in SEEDS and forty != "DB" else None
        if key is None:
            if forty not in ("OpenOptions", "Error", "array", "String", "Vec", "&str", "&[u8]", "&Bytes", "Bytes") or forty in ("Bytes", "&Bytes"):
                if forty not in ("DB", "OpenOptions", "Error", "array", "String", "Vec", "&str", "&[u8]", "Meta", "OldMeta", "Page", "Pages", "Node", "NodeData", "Branch", "Leaf", "Freelist", "TxFreelist", "InnerBucket", "PageNode", "TxLock", "DBInner", "BucketMeta", "BranchElement", "LeafElement", "SearchPath", "DBFlags", "TxInner", "PageNodeID"):
                    gaps.append("no seed for type %s (method %s)" % (forty, name))
            continue
        if recv is None:
            continue  # associated function without receiver (constructors): not derived from a transaction
        if trait in ("Debug", "Display", "PartialEq", "Hash", "From", "Drop"):
            continue  # exercised through render / not producers
        lets, sexpr = SEEDS[key]
        argv = []
        ok = True
        for (an, at, ab) in args:
            a = synth_arg(an, at, ab)
            if a is None:
                ok = False
                gaps.append("cannot synthesise argument %s: %s of %s::%s" % (an, at, forty, name))
                break
            argv.append(a)
        if not ok:
            continue
        expr = "%s.%s(%s)" % (sexpr, name, ", ".join(argv))
        if recv == "Self" and key in ("Tx",):
            continue  # commit(self) consumes the transaction: it is the route, not a producer
        ident = "%s::%s" % (forty + ("<" + trait + ">" if trait else ""), name)
        if ident in seen:
            continue
        seen.add(ident)
        prods.append({"id": ident, "lets": lets, "expr": expr, "out": outty, "outfull": outfull, "consumes_seed": recv == "Self"})
    # the seeds themselves are producers too (a bucket, a cursor, a pair kept past the transaction)
    for k, (lets, sexpr) in SEEDS.items():
        if k in ("DB", "Tx") or k.startswith("&"):
            continue
        if lets:
            idx = max(i for i, l in enumerate(lets) if re.match(r"let (mut )?(s\d) = (.*);", l))
            m = re.match(r"let (mut )?(s\d) = (.*);", lets[idx])
            prods.append({"id": "seed:" + k, "lets": lets[:idx], "expr": m.group(3), "out": k, "outfull": k, "consumes_seed": False})
    # unwrapped variants of Option / Result producers reach the inner borrowed value
    extra = []
    for p in prods:
        if p["out"] in ("Option", "Result"):
            q = dict(p)
            q["id"] = p["id"] + ".unwrap"
            q["expr"] = p["expr"] + ".unwrap()"
            extra.append(q)
        if p["out"] in ("impl", "Cursor", "Range", "Buckets", "KVPairs", "qpath") or p["id"].endswith("::cursor") or p["id"].endswith("::range"):
            q = dict(p)
            q["id"] = p["id"] + ".next"
            q["expr"] = "{ let mut it = " + p["expr"] + "; it.next() }"
            extra.append(q)
    return prods + extra, gaps

# ------------------------------------------------------------------------------------------------
# 2. programs

PRELUDE = r'''
#![allow(unused, dropping_references, dropping_copy_types, clippy::all)]
use jammdb::*;
fn sink<T>(_t: &T) {}
'''

RUN_PRELUDE = r'''
#![allow(unused, dropping_references, dropping_copy_types)]
use jammdb::*;
struct W<'a, T>(&'a T);
trait ViaDebug { fn render(&self) -> String; }
impl<'a, T: std::fmt::Debug> ViaDebug for W<'a, T> { fn render(&self) -> String { format!("{:?}", self.0) } }
trait ViaNone { fn render(&self) -> String; }
impl<'a, T> ViaNone for &W<'a, T> { fn render(&self) -> String { "<opaque>".to_string() } }
macro_rules! render { ($e:expr) => { (&W($e)).render() } }
extern "C" { fn mmap(addr: *mut u8, len: usize, prot: i32, flags: i32, fd: i32, off: i64) -> *mut u8; }
// every unmapped region stays reserved but inaccessible: a read after unmap faults deterministically
#[no_mangle] pub unsafe extern "C" fn munmap(addr: *mut u8, len: usize) -> i32 { mmap(addr, len, 0, 0x10 | 0x02 | 0x20 | 0x4000, -1, 0); 0 }
fn churn(db: &DB) {
    // rewrite bucket b (its old pages get reused), then grow the file several times (remap)
    for round in 0..4 {
        let tx = db.tx(true).unwrap();
        let _ = tx.delete_bucket("b");
        let b = tx.get_or_create_bucket("b").unwrap();
        for i in 0..40 { b.put(format!("k{}", i), vec![(round * 40 + i) as u8; 300]).unwrap(); }
        b.create_bucket(format!("n{}", round)).unwrap();
        let g = tx.get_or_create_bucket("grow").unwrap();
        g.put(format!("g{}", round), vec![round as u8; 9 << 20]).unwrap();
        drop(b); drop(g);
        tx.commit().unwrap();
    }
}
fn prepare(path: &str) -> DB {
    let _ = std::fs::remove_file(path);
    let db = OpenOptions::new().pagesize(1024).num_pages(8).open(path).unwrap();
    {
        let tx = db.tx(true).unwrap();
        let b = tx.create_bucket("b").unwrap();
        for i in 0..8 { b.put(format!("k{}", i), vec![b'a' + i as u8; 200]).unwrap(); }
        b.put("zz", "zzval").unwrap();
        let n = b.create_bucket("nested-name-long-enough-to-see").unwrap();
        n.put("in", "side").unwrap();
        drop(n); drop(b);
        tx.commit().unwrap();
    }
    db
}
'''

def route_fns(i, p):
    """compile-only variants: name -> source"""
    lets = "\n        ".join(p["lets"])
    e = p["expr"]
    fns = {}
    fns["a_%d" % i] = "pub fn a_%d(db: &DB) {\n    let escaped;\n    {\n        let tx = db.tx(true).unwrap();\n        %s\n        let r = %s;\n        escaped = r;\n    }\n    sink(&escaped);\n}\n" % (i, lets, e)
    fns["b_%d" % i] = "pub fn b_%d(db: &DB) {\n        let tx = db.tx(true).unwrap();\n        %s\n        let r = %s;\n        tx.commit().unwrap();\n        sink(&r);\n}\n" % (i, lets, e)
    fns["c_%d" % i] = "pub fn c_%d(db: &DB) -> impl Sized + '_ {\n        let tx = db.tx(true).unwrap();\n        %s\n        let r = %s;\n        r\n}\n" % (i, lets, e)
    fns["f_%d" % i] = "pub fn f_%d(path: &str) {\n    let escaped;\n    {\n        let db = DB::open(path).unwrap();\n        let tx = Box::leak(Box::new(db.tx(true).unwrap()));\n        %s\n        let r = %s;\n        escaped = r;\n    }\n    sink(&escaped);\n}\n" % (i, lets, e)
    # ordinary usage: the value outlives the intermediate handles it was obtained through, not the transaction
    fns["h_%d" % i] = "pub fn h_%d(db: &DB) {\n        let tx = db.tx(true).unwrap();\n        let r = {\n        %s\n        %s\n        };\n        sink(&r);\n}\n" % (i, lets, e)
    # ordinary usage: a named handle / iterator / value that is simply still in scope (not used any more) when the transaction is committed
    fns["k_%d" % i] = "pub fn k_%d(db: &DB) {\n        let tx = db.tx(true).unwrap();\n        %s\n        let mut r = %s;\n        sink(&r);\n        tx.commit().unwrap();\n}\n" % (i, lets, e)
    fns["t_%d" % i] = "pub fn t_%d(db: &DB) {\n        let tx = db.tx(true).unwrap();\n        %s\n        let r = %s;\n        std::thread::scope(|s| { s.spawn(move || sink(&r)); });\n}\n" % (i, lets, e)
    fns["u_%d" % i] = "pub fn u_%d(db: &'static DB) {\n        let tx = db.tx(true).unwrap();\n        %s\n        let r = %s;\n        std::thread::spawn(move || sink(&r));\n}\n" % (i, lets, e)
    fns["v_%d" % i] = "pub fn v_%d(db: &DB) {\n        let tx = db.tx(true).unwrap();\n        %s\n        let r = %s;\n        std::thread::scope(|s| { s.spawn(|| sink(&r)); });\n}\n" % (i, lets, e)
    return fns

def run_fn(name, i, p):
    """runnable variant of a compile-only function that compiled"""
    lets = "\n        ".join(p["lets"])
    e = p["expr"]
    r = name[0]
    if r == "a":
        return "fn %s(db: &DB) {\n    let escaped;\n    {\n        let tx = db.tx(true).unwrap();\n        %s\n        let r = %s;\n        escaped = r;\n    }\n    println!(\"PRODUCED\");\n    let before = render!(&escaped);\n    churn(db);\n    let after = render!(&escaped);\n    println!(\"RENDER {}\", &before[..before.len().min(60)]);\n    assert_eq!(before, after, \"value changed after its transaction ended\");\n}\n" % (name, lets, e)
    if r == "b":
        return "fn %s(db: &DB) {\n        let tx = db.tx(true).unwrap();\n        %s\n        let r = %s;\n        println!(\"PRODUCED\");\n        tx.commit().unwrap();\n    let before = render!(&r);\n    churn(db);\n    let after = render!(&r);\n    println!(\"RENDER {}\", &before[..before.len().min(60)]);\n    assert_eq!(before, after, \"value changed after its transaction was committed\");\n}\n" % (name, lets, e)
    if r == "c":
        return "fn %s_inner(db: &DB) -> impl Sized + std::fmt::Debug + '_ {\n        let tx = db.tx(true).unwrap();\n        %s\n        let r = %s;\n        r\n}\nfn %s(db: &DB) {\n    let v = %s_inner(db);\n    println!(\"PRODUCED\");\n    let before = format!(\"{:?}\", v);\n    churn(db);\n    let after = format!(\"{:?}\", v);\n    println!(\"RENDER {}\", &before[..before.len().min(60)]);\n    assert_eq!(before, after, \"returned value changed after its transaction ended\");\n}\n" % (name, lets, e, name, name)
    if r in ("t", "v"):
        mv = "move " if r == "t" else ""
        return "fn %s(db: &DB) {\n        let tx = db.tx(true).unwrap();\n        %s\n        let r = %s;\n        println!(\"PRODUCED\");\n        let before = render!(&r);\n        let after = std::thread::scope(|s| { s.spawn(%s|| render!(&r)).join().unwrap() });\n        println!(\"RENDER {}\", &before[..before.len().min(60)]);\n        assert_eq!(before, after);\n}\n" % (name, lets, e, mv)
    return None

ARG_ROUTES = [
    ("g_put_key", "let tx = db.tx(true).unwrap(); let b = tx.get_bucket(\"b\").unwrap(); { let k = String::from(\"kk\"); let _ = b.put(k.as_str(), \"v\"); } tx.commit().unwrap();"),
    ("g_put_value", "let tx = db.tx(true).unwrap(); let b = tx.get_bucket(\"b\").unwrap(); { let v = vec![1u8; 10]; let _ = b.put(\"kk\", v.as_slice()); } tx.commit().unwrap();"),
    ("g_create_bucket", "let tx = db.tx(true).unwrap(); { let n = String::from(\"nn\"); let _ = tx.create_bucket(n.as_str()); } tx.commit().unwrap();"),
    ("g_get_or_create", "let tx = db.tx(true).unwrap(); let b = tx.get_bucket(\"b\").unwrap(); { let n = String::from(\"nn\"); let _ = b.get_or_create_bucket(n.as_str()); } tx.commit().unwrap();"),
    ("g_delete_bucket", "let tx = db.tx(true).unwrap(); { let n = String::from(\"nn\"); let _ = tx.delete_bucket(n.as_str()); } tx.commit().unwrap();"),
    ("g_get_bucket", "let tx = db.tx(true).unwrap(); { let n = String::from(\"nn\"); let _ = tx.get_bucket(n.as_str()); } tx.commit().unwrap();"),
    ("e_tx_past_db", "let tx; { let db2 = DB::open(\"/dev/shm/none\").unwrap(); tx = db2.tx(false).unwrap(); } sink(&tx);"),
    ("e_bucket_past_db", "let b; { let db2 = DB::open(\"/dev/shm/none\").unwrap(); let tx = Box::new(db2.tx(false).unwrap()); let tx = Box::leak(tx); b = tx.get_bucket(\"b\").unwrap(); } sink(&b);"),
    ("m_tx_to_thread", "let tx = db.tx(false).unwrap(); std::thread::scope(|s| { s.spawn(move || sink(&tx)); });"),
    ("m_tx_ref_to_thread", "let tx = db.tx(false).unwrap(); std::thread::scope(|s| { s.spawn(|| sink(&tx)); });"),
]

CONTROLS = [
    ("ctl_readme", "let tx = db.tx(true).unwrap(); let names = tx.create_bucket(\"names\").unwrap(); names.put(\"Kanan\", \"Jarrus\").unwrap(); names.put(\"Ezra\", \"Bridger\").unwrap(); drop(names); tx.commit().unwrap(); let tx = db.tx(false).unwrap(); let names = tx.get_bucket(\"names\").unwrap(); if let Some(data) = names.get(\"Kanan\") { assert_eq!(data.kv().value(), b\"Jarrus\"); }"),
    ("ctl_owned_copy_out", "let copy: Vec<u8>; { let tx = db.tx(false).unwrap(); let b = tx.get_bucket(\"b\").unwrap(); copy = b.get_kv(\"k1\").unwrap().value().to_vec(); } sink(&copy);"),
    ("ctl_clone_db_to_threads", "let d2 = db.clone(); std::thread::scope(|s| { s.spawn(move || { let tx = d2.tx(false).unwrap(); let _ = tx.get_bucket(\"b\"); }); });"),
    ("ctl_static_db_thread", "let d2 = db.clone(); std::thread::spawn(move || { let tx = d2.tx(true).unwrap(); let b = tx.get_or_create_bucket(\"t\").unwrap(); b.put(\"a\", \"b\").unwrap(); drop(b); tx.commit().unwrap(); }).join().unwrap();"),
    ("ctl_reopen_bucket_by_name", "let tx = db.tx(false).unwrap(); let b = tx.get_bucket(\"b\").unwrap(); for (name, _sub) in b.buckets() { let again = b.get_bucket(&name).unwrap(); sink(&again); }"),
    ("ctl_owned_args", "let tx = db.tx(true).unwrap(); let b = tx.get_or_create_bucket(\"b\").unwrap(); { let k = String::from(\"owned\"); b.put(k.clone(), vec![1u8, 2, 3]).unwrap(); b.put(7u64.to_be_bytes(), k).unwrap(); } drop(b); tx.commit().unwrap();"),
    ("ctl_range_computed_bounds", "let tx = db.tx(false).unwrap(); let b = tx.get_bucket(\"b\").unwrap(); let first = { let lo = format!(\"k{}\", 0); let hi = format!(\"k{}\", 9); b.range(lo.as_bytes()..hi.as_bytes()).next() }; sink(&first); let inc = { let hi = String::from(\"k5\"); b.range(..=hi.as_bytes()).to_kv_pairs().last() }; sink(&inc);"),
    ("ctl_seek_computed_key", "let tx = db.tx(false).unwrap(); let b = tx.get_bucket(\"b\").unwrap(); let mut c = b.cursor(); { let k = format!(\"k{}\", 3); c.seek(k.as_str()); } let d = c.next(); sink(&d);"),
    ("ctl_get_computed_key", "let tx = db.tx(false).unwrap(); let b = tx.get_bucket(\"b\").unwrap(); let v = { let k = format!(\"k{}\", 1); b.get(k.as_str()) }; sink(&v); let kv = { let k = format!(\"k{}\", 2).into_bytes(); b.get_kv(k.as_slice()) }; sink(&kv);"),
    ("ctl_named_iterators_at_commit", "let tx = db.tx(true).unwrap(); let b = tx.get_or_create_bucket(\"b\").unwrap(); let mut c = b.cursor(); c.seek(\"k1\"); let first = c.next(); sink(&first); let mut r = b.range(..); let _ = r.next(); let mut subs = b.cursor().to_buckets(); let _ = subs.next(); let mut pairs = b.range(..).to_kv_pairs(); let _ = pairs.next(); b.put(\"new\", \"v\").unwrap(); tx.commit().unwrap();"),
    ("ctl_byte_arrays_of_every_length", "let tx = db.tx(true).unwrap(); let b = tx.get_or_create_bucket(\"b\").unwrap(); b.put([0u8; 0], [7u8; 0]).unwrap(); b.put([1u8; 1], [7u8; 5]).unwrap(); b.put([2u8; 2], [7u8; 10]).unwrap(); b.put([3u8; 3], [7u8; 15]).unwrap(); b.put([4u8; 4], [7u8; 3]).unwrap(); b.put([5u8; 5], [7u8; 8]).unwrap(); b.put([6u8; 6], [7u8; 13]).unwrap(); b.put([7u8; 7], [7u8; 1]).unwrap(); b.put([8u8; 8], [7u8; 6]).unwrap(); b.put([9u8; 9], [7u8; 11]).unwrap(); b.put([10u8; 10], [7u8; 16]).unwrap(); b.put([11u8; 11], [7u8; 4]).unwrap(); b.put([12u8; 12], [7u8; 9]).unwrap(); b.put([13u8; 13], [7u8; 14]).unwrap(); b.put([14u8; 14], [7u8; 2]).unwrap(); b.put([15u8; 15], [7u8; 7]).unwrap(); b.put([16u8; 16], [7u8; 12]).unwrap(); b.put(7u128.to_be_bytes(), 9u64.to_be_bytes()).unwrap(); b.put(3u32.to_le_bytes(), 1u16.to_be_bytes()).unwrap(); let _ = b.get([1u8; 16]); let _ = b.get_kv(5u128.to_be_bytes()); let _ = b.delete([2u8; 2]); let _ = b.create_bucket([9u8; 16]); let _ = tx.get_or_create_bucket(1u64.to_be_bytes()); drop(b); tx.commit().unwrap();"),
    ("ctl_error_type_crosses_threads", "fn need_send_sync<T: Send + Sync + 'static>() {} need_send_sync::<Error>(); need_send_sync::<DB>(); need_send_sync::<OpenOptions>(); let d2 = db.clone(); let r: std::result::Result<u64, Error> = std::thread::spawn(move || -> std::result::Result<u64, Error> { let tx = d2.tx(false)?; let b = tx.get_bucket(\"b\")?; Ok(b.next_int()) }).join().unwrap(); let boxed: std::result::Result<u64, Box<dyn std::error::Error + Send + Sync>> = (|| { let tx = db.tx(false)?; let b = tx.get_bucket(\"missing\")?; Ok(b.next_int()) })(); sink(&r); sink(&boxed);"),
    ("ctl_iterate", "let tx = db.tx(false).unwrap(); let b = tx.get_bucket(\"b\").unwrap(); for d in b.cursor() { match d { Data::Bucket(n) => sink(&n.name()), Data::KeyValue(kv) => sink(&kv.kv()) } } for kv in b.range(..).to_kv_pairs() { sink(&kv); }"),
]

def find_rlib():
    deps = os.path.join(MC, "target", "debug", "deps")
    c = sorted(glob.glob(os.path.join(deps, "libjammdb-*.rlib")), key=os.path.getmtime)
    if not c:
        die("jammdb rlib not found under " + deps)
    return c[-1], deps

def rustc_check(src_path, rlib, deps, emit_bin=None):
    cmd = ["rustc", "--edition", "2021", "--error-format=json", "--cap-lints", "allow", "-L", "dependency=" + deps, "--extern", "jammdb=" + rlib, "--cfg", "rustix_use_libc"]
    if emit_bin:
        cmd += ["--crate-type", "bin", "-C", "opt-level=1", "-C", "debug-assertions=on", "-o", emit_bin, src_path]
    else:
        cmd += ["--crate-type", "lib", "--emit=metadata", "-o", os.path.join(WORK, "unit.rmeta"), src_path]
    r = sh(cmd)
    diags = []
    for line in r.stderr.splitlines():
        if not line.startswith("{"):
            continue
        try:
            d = json.loads(line)
        except Exception:
            continue
        if d.get("level") != "error":
            continue
        code = (d.get("code") or {}).get("code")
        lines = [s["line_start"] for s in d.get("spans", []) if s.get("is_primary")] or [s["line_start"] for s in d.get("spans", [])]
        diags.append((code, lines, d.get("message", "")))
    return r.returncode, diags

def compile_unit(fns, rlib, deps, tag):
    """fns: name -> source.  Returns name -> (status, codes, messages); status in compiled|borrow|type"""
    remaining = dict(fns)
    result = {}
    for rnd in range(4):
        if not remaining:
            break
        names = list(remaining)
        src = PRELUDE
        ranges = []
        line = src.count("\n") + 1
        for n in names:
            body = remaining[n]
            nl = body.count("\n")
            ranges.append((line, line + nl, n))
            src += body
            line += nl
        path = os.path.join(WORK, "%s_%d.rs" % (tag, rnd))
        open(path, "w").write(src)
        rc, diags = rustc_check(path, rlib, deps)
        per = collections.defaultdict(list)
        unattributed = []
        for code, lines, msg in diags:
            hit = None
            for ln in lines:
                for (a, b, n) in ranges:
                    if a <= ln <= b:
                        hit = n
                        break
                if hit:
                    break
            if hit:
                per[hit].append((code, msg))
            elif code is not None or "aborting" not in msg:
                unattributed.append((code, msg))
        if unattributed and not per:
            die("rustc errors outside any generated function: %s" % unattributed[:3])
        type_err = {n for n, errs in per.items() if any(c not in BORROW_CODES for c, _ in errs)}
        if type_err:
            # type errors suppress borrow checking of the whole unit: set them aside and compile the rest again
            for n in type_err:
                result[n] = ("type", sorted({c or "none" for c, _ in per[n]}), [m for _, m in per[n]][:2])
                del remaining[n]
            continue
        for n in names:
            if n in per:
                result[n] = ("borrow", sorted({c for c, _ in per[n]}), [m for _, m in per[n]][:2])
            else:
                result[n] = ("compiled", [], [])
        remaining = {}
    for n in remaining:
        result[n] = ("type", ["unresolved"], [])
    return result

# ------------------------------------------------------------------------------------------------

def load_findings():
    try:
        d = json.load(open(os.path.join(ROOT, "known_findings.json")))
    except Exception:
        return []
    return [f for f in d.get("findings", []) if f.get("property") == "C14"]

def main():
    shutil.rmtree(WORK, ignore_errors=True)
    os.makedirs(WORK, exist_ok=True)
    os.makedirs(os.path.join(ROOT, "evidence"), exist_ok=True)
    os.makedirs(os.path.join(ROOT, "replays"), exist_ok=True)
    for f in glob.glob(os.path.join(ROOT, "replays", "C14-*")):
        os.remove(f)
    doc = rustdoc_json()
    methods = api_methods(doc)
    prods, gaps = producers(methods)
    prods += variant_producers(doc)
    prods += from_producers(doc)
    rlib, deps = find_rlib()

    fns = {}
    owner = {}
    for i, p in enumerate(prods):
        for n, src in route_fns(i, p).items():
            fns[n] = src
            owner[n] = (i, p)
    # ordinary usage of arguments: every method whose argument is a key / name (ToBytes) is called with
    # the name a listing just returned - by reference and by value - and with an owned String built in
    # an inner scope; judged against the baseline of the pinned types like route h
    argfns = {}
    for (forty, trait, name, recv, args, outty, outfull) in methods:
        if forty not in ("Tx", "Bucket") or trait is not None or recv is None:
            continue
        if not any("ToBytes" in ab for (_, _, ab) in args):
            continue
        recv_expr = "tx" if forty == "Tx" else "b"
        for style, first in (("ref", "&n"), ("val", "n"), ("string", "{ let s = String::from_utf8_lossy(n.name()).into_owned(); s }")):
            argv = []
            used = False
            ok = True
            for (an, at, ab) in args:
                if "ToBytes" in ab and not used:
                    argv.append(first)
                    used = True
                else:
                    a = synth_arg(an, at, ab)
                    if a is None:
                        ok = False
                        break
                    argv.append(a)
            if not ok:
                continue
            fn = "n_%s_%s_%s" % (forty.lower(), name, style)
            body = "let tx = db.tx(true).unwrap(); let b = tx.get_bucket(\"b\").unwrap(); let names: Vec<_> = b.buckets().map(|(n, _)| n).collect(); for n in names { let _ = %s.%s(%s); } drop(b); tx.commit().unwrap();" % (recv_expr, name, ", ".join(argv))
            argfns[fn] = "%s::%s(%s)" % (forty, name, style)
            fns[fn] = "pub fn %s(db: &DB) {\n    %s\n}\n" % (fn, body)
    for n, body in ARG_ROUTES:
        fns[n] = "pub fn %s(db: &DB) {\n    %s\n}\n" % (n, body)
    for n, body in CONTROLS:
        fns[n] = "pub fn %s(db: &DB) {\n    %s\n}\n" % (n, body)

    # thread routes produce E0277 (a type error): keep them in their own unit
    life = {n: s for n, s in fns.items() if n[0] in "abcfgehkn" or n.startswith("ctl_")}
    thread = {n: s for n, s in fns.items() if n[0] in "tuvm"}
    res = {}
    res.update(compile_unit(life, rlib, deps, "life"))
    res.update(compile_unit(thread, rlib, deps, "thread"))

    violations = []  # (class, detail, replay dict)
    gen_gaps = list(gaps)
    rejected = 0
    compiled = []
    route_names = {"a": "kept past the end of the transaction's scope", "b": "kept past commit()", "c": "returned from the function that owns the transaction", "f": "transaction leaked, value kept past its database handle", "t": "moved into a scoped thread", "u": "moved into std::thread::spawn", "v": "shared by reference with a scoped thread", "g": "argument borrowed from a local that dies before commit", "e": "kept past its database handle", "m": "transaction moved / shared to another thread"}
    for n, (status, codes, msgs) in sorted(res.items()):
        if n.startswith("ctl_"):
            if status != "compiled":
                violations.append(("control_rejected", "positive control %s must compile but rustc says %s %s" % (n, codes, msgs[:1]), {"program": fns[n]}))
            continue
        route = n[0]
        if route in "hkn":
            continue  # judged against the baseline below
        if status == "borrow":
            rejected += 1
        elif status == "type":
            if route in "tuvm" and set(codes) <= (SEND_CODES | BORROW_CODES):
                rejected += 1
            elif route in "abcf" and codes == ["E0282"]:
                gen_gaps.append("%s: %s" % (n, msgs[:1]))
            else:
                # method does not exist for that receiver shape, wrong arity ...: generator gap, never a verdict
                gen_gaps.append("%s (%s): %s %s" % (n, owner.get(n, (0, {"id": n}))[1].get("id", n), codes, msgs[:1]))
        else:
            compiled.append(n)
    # The library's handle and data types are !Send / !Sync by construction (Rc / RefCell inside):
    # a thread-route program whose produced value is or contains one of them must be rejected.
    # Plain std values (slices, integers, bools, errors) may cross threads if they run clean.
    LIB_TYPES = ("Tx", "Bucket", "Cursor", "Data", "KVPair", "BucketName", "Range", "Buckets", "KVPairs", "Bytes")
    for n in list(compiled):
        if n[0] in "tuv" and n in owner:
            i, p = owner[n]
            full = p.get("outfull", "") + ("" if not p["id"].endswith(".next") else " item")
            toks = set(re.findall(r"[A-Za-z_]+", full))
            if toks & set(LIB_TYPES) or p["id"].startswith("seed:"):
                violations.append(("send_sync_leak:" + p["id"], "producer `%s` (result type %s) %s: the program compiles, so a value of one of the library's transaction-bound types can cross a thread boundary" % (p["expr"], p.get("outfull", "?"), route_names[n[0]]), {"program": fns[n], "producer": p["id"], "route": n[0]}))
    # The handle and data types of the library borrow the transaction; a lifetime-route program that
    # carries one of them out and still compiles has found a hole, whatever the run shows (a Bucket
    # or Cursor cannot even be rendered).  Owned results (integers, bools, errors, copied bytes) may
    # compile.
    HANDLE_TYPES = ("Tx", "Bucket", "Cursor", "Data", "KVPair", "BucketName", "Range", "Buckets", "KVPairs")
    for n in list(compiled):
        if n[0] in "abcf" and n in owner:
            i, p = owner[n]
            full = p.get("outfull", "")
            toks = set(re.findall(r"[A-Za-z_]+", full))
            if toks & set(HANDLE_TYPES) or (p["id"].startswith("seed:") and p["id"] != "seed:Bytes"):
                violations.append(("handle_escapes:" + p["id"], "producer `%s` (result type %s) %s: the program compiles although the value borrows the transaction" % (p["expr"], full or "?", route_names[n[0]]), {"program": fns[n], "producer": p["id"], "route": n[0]}))
    # ordinary usage (route h): whatever the pinned types accepted must still be accepted
    base_path = os.path.join(ROOT, "golden", "typex_ordinary_baseline.json")
    h_now = {}
    for n, (status, codes, msgs) in res.items():
        if n[0] in "hk" and n in owner:
            h_now[("" if n[0] == "h" else "k|") + owner[n][1]["id"]] = "compiled" if status == "compiled" else ("rejected" if status == "borrow" else "other:" + ",".join(codes))
    for n, label in argfns.items():
        status, codes, msgs = res.get(n, ("type", [], []))
        h_now["n|" + label] = "compiled" if status == "compiled" else ("rejected" if status == "borrow" else "other:" + ",".join(codes))
    if "--write-baseline" in sys.argv:
        json.dump(h_now, open(base_path, "w"), indent=1, sort_keys=True)
        print("baseline written: %d producers, %d compile" % (len(h_now), sum(1 for v in h_now.values() if v == "compiled")))
    try:
        h_base = json.load(open(base_path))
    except Exception:
        h_base = {}
        gen_gaps.append("no baseline of ordinary-usage programs (golden/typex_ordinary_baseline.json)")
    h_checked = 0
    for pid, was in sorted(h_base.items()):
        if was != "compiled" or pid not in h_now:
            continue
        h_checked += 1
        if h_now[pid] != "compiled":
            if pid.startswith("n|"):
                n = next(k for k, lab in argfns.items() if lab == pid[2:])
                violations.append(("ordinary_usage_rejected:" + pid, "a call that passes the name a listing returned (by reference / by value / as an owned String) compiled with the pinned types and is now rejected (%s)" % h_now[pid], {"program": fns[n], "call": pid[2:], "route": "n"}))
                continue
            rt, rid = ("k", pid[2:]) if pid.startswith("k|") else ("h", pid)
            n = next(k for k in owner if k[0] == rt and owner[k][1]["id"] == rid)
            shape = "`let r = { ..handles..; %s }; use(&r)`" if rt == "h" else "`let r = %s; use(&r); tx.commit()` with the handles and r still in scope, unused, at the commit"
            violations.append(("ordinary_usage_rejected:" + pid, "a value obtained and used while its transaction is still open (" + (shape % owner[n][1]["expr"]) + ") compiled with the pinned types and is now rejected (%s)" % h_now[pid], {"program": fns[n], "producer": pid, "route": rt}))
    # the verification harness is itself an ordinary client of the public API
    if "--harness-build-failed" in sys.argv:
        logp = sys.argv[sys.argv.index("--harness-build-failed") + 1]
        try:
            errs = [l.rstrip() for l in open(logp) if l.startswith("error")][:4]
        except Exception:
            errs = []
        violations.append(("ordinary_usage_rejected:verification-harness", "the verification harness, a client that uses the public API in the documented way (slices, Strings and byte vectors as keys and names, handles and cursors inside one transaction), no longer compiles against the library: %s" % " | ".join(errs), {"program": "/verif/mc (cargo build)", "build_log_first_errors": errs}))
    # argument / database routes must be rejected
    for n, _ in ARG_ROUTES:
        st = res.get(n, ("type", [], []))
        if st[0] == "compiled":
            violations.append(("escape_compiles:" + n, "%s: a program in which %s compiles" % (n, route_names[n[0]]), {"program": fns[n]}))

    # 3. run what compiled
    runnable = {}
    for n in compiled:
        if n in owner:
            i, p = owner[n]
            src = run_fn(n, i, p)
            if src:
                runnable[n] = src
    ran = 0
    trivial = 0
    opaque = 0
    run_rows = []
    if runnable:
        # route c needs Debug on the returned type: try all, drop those that fail to build
        names = list(runnable)
        for attempt in range(3):
            src = RUN_PRELUDE + "".join(runnable[n] for n in names)
            src += "fn main() {\n    let args: Vec<String> = std::env::args().collect();\n    let path = &args[2];\n    match args[1].as_str() {\n"
            for n in names:
                src += "        \"%s\" => { let db = prepare(path); %s(&db); }\n" % (n, n)
            src += "        _ => std::process::exit(3),\n    }\n}\n"
            path = os.path.join(WORK, "probe.rs")
            open(path, "w").write(src)
            rc, diags = rustc_check(path, rlib, deps, emit_bin=os.path.join(WORK, "probe"))
            if rc == 0:
                break
            # drop functions named in error spans (e.g. returned type without Debug) and retry
            text = open(path).read().splitlines()
            bad = set()
            for code, lines, msg in diags:
                for ln in lines:
                    for k in range(min(ln, len(text)) - 1, -1, -1):
                        m = re.match(r"fn ([a-z]_\d+)", text[k])
                        if m:
                            bad.add(m.group(1))
                            break
            if not bad:
                die("probe binary does not build: %s" % diags[:2])
            for b in bad:
                gen_gaps.append("%s compiles as a library function but its runnable variant does not build (returned type without Debug?)" % b)
            names = [n for n in names if n not in bad]
        scratch = "/dev/shm/vcheck.typex.%d" % os.getpid()
        os.makedirs(scratch, exist_ok=True)
        for n in names:
            i, p = owner[n]
            try:
                r = sh([os.path.join(WORK, "probe"), n, os.path.join(scratch, "p.db")], timeout=60)
            except subprocess.TimeoutExpired:
                gen_gaps.append("%s (%s): probe did not finish within 60 s (a handle kept open blocks the rewriting transactions)" % (n, p["id"]))
                continue
            ran += 1
            rendered = ""
            for line in r.stdout.splitlines():
                if line.startswith("RENDER "):
                    rendered = line[7:]
            if r.returncode != 0 and "PRODUCED" not in r.stdout:
                gen_gaps.append("%s (%s): the producer itself failed at run time before anything could escape (e.g. unwrap of an error): %s" % (n, p["id"], (r.stderr.strip().splitlines() or [""])[0][:160]))
                continue
            if r.returncode == 0:
                if rendered == "<opaque>":
                    opaque += 1
                elif not any(c in rendered for c in "[\"("):
                    trivial += 1
                if len(run_rows) < 12:
                    run_rows.append({"program": n, "producer": p["id"], "route": route_names[n[0]], "rendered": rendered[:60], "result": "ran clean"})
            else:
                why = "killed by signal %d" % (-r.returncode) if r.returncode < 0 else "exit status %d: %s" % (r.returncode, r.stderr.strip().splitlines()[-1][:200] if r.stderr.strip() else "")
                violations.append(("use_after_unmap:" + p["id"], "producer `%s` %s: the program compiles, and after the transaction ended and the file was rewritten and remapped, reading the value again: %s" % (p["expr"], route_names[n[0]], why), {"program": runnable[n], "producer": p["id"], "route": n[0]}))
        shutil.rmtree(scratch, ignore_errors=True)

    # verdicts
    findings = load_findings()
    unlisted = collections.OrderedDict()
    known = collections.OrderedDict()
    seq = 0
    for cls, detail, replay in violations:
        f = next((f for f in findings if (f.get("class") == cls or (f.get("class_prefix") and cls.startswith(f["class_prefix"]))) and all(x in detail for x in f.get("detail_contains", []))), None)
        if f:
            if f["id"] not in known:
                print("KNOWN-FINDING: property=C14 %s: %s" % (f["id"], f.get("what", "")))
            known[f["id"]] = known.get(f["id"], 0) + 1
            continue
        if cls not in unlisted:
            seq += 1
            path = os.path.join(ROOT, "replays", "C14-%d.json" % seq)
            replay = dict(replay, engine="typex", property="C14", detail=detail)
            replay["class"] = cls
            json.dump(replay, open(path, "w"), indent=1)
            print("VIOLATION property=C14 replay=%s" % path)
            print("  class:  %s" % cls)
            print("  detail: %s" % detail)
            unlisted[cls] = [0, path]
        unlisted[cls][0] += 1
    total_programs = len([n for n in fns if not n.startswith("ctl_")])
    nviol = sum(v[0] for v in unlisted.values())
    samples = [{"producer": prods[0]["id"], "route": "a", "program": route_fns(0, prods[0])["a_0"]}]
    kp = next((i for i, p in enumerate(prods) if "KVPair" in p["id"] and p["id"].endswith("::key")), None)
    if kp is not None:
        samples.append({"producer": prods[kp]["id"], "route": "b", "program": route_fns(kp, prods[kp])["b_%d" % kp], "rustc": res.get("b_%d" % kp)})
    ev = {
        "property_id": "C14", "tier": TIER, "seed": SEED, "level": "exploration",
        "coverage": {
            "evaluations": total_programs + len(CONTROLS),
            "distinct_nontrivial": rejected + ran,
            "rule": "one evaluation = one generated client program = (producer: a call chain from a transaction to a public method or trait method found in the rustdoc JSON of the current tree, arguments synthesised from the bounds) x (escape route); distinct by construction; non-trivial = rejected by rustc with a borrow/lifetime/Send error, or compiled and executed in a probe process (transaction ended, file rewritten and remapped with old maps made inaccessible, value rendered before and after)",
            "samples": samples,
            "producers": len(prods), "routes_per_producer": 9, "argument_and_handle_routes": len(ARG_ROUTES), "positive_controls": len(CONTROLS),
            "rejected_by_rustc": rejected, "compiled": len(compiled), "compiled_and_run": ran, "run_plainly_owned": trivial, "run_opaque_type": opaque,
            "generator_gaps": len(gen_gaps), "generator_gaps_first": gen_gaps[:25],
            "runs_first": run_rows,
            "api_methods_in_rustdoc_json": len(methods),
            "exhaustive": True,
            "known_findings_hit": [{"id": k, "cases": v} for k, v in known.items()],
            "violation_classes": [{"class": k, "cases": v[0], "replay": v[1]} for k, v in unlisted.items()],
        },
        "assumptions": [
            "rustc (type and borrow checker) is the semantics for rejection; error classes: " + ",".join(sorted(BORROW_CODES)) + " for lifetime routes, E0277 for thread routes",
            "an API item the synthesiser cannot call is a coverage gap (listed), never a violation",
            "probe: munmap is replaced by an inaccessible anonymous mapping, so a read after unmap faults deterministically",
        ],
        "wall_s": round(time.time() - T0, 2),
        "violations": nviol,
    }
    json.dump(ev, open(os.path.join(ROOT, "evidence", "C14.json"), "w"), indent=1)
    print("C14 %s: %d programs (%d producers), %d rejected, %d compiled and run, %d generator gaps; %d unlisted violation case(s) in %d class(es), %d known finding(s) hit, %.1fs" % (TIER, total_programs, len(prods), rejected, ran, len(gen_gaps), nviol, len(unlisted), len(known), time.time() - T0))
    sys.exit(1 if nviol else 0)

main()
